#!/usr/bin/env python3
"""False-alarm test: behaviour-preserving changes (refactorings that keep the property but change orders, names,
representations) must NOT make a check report a violation.  Runs in a scratch worktree (never in /repo).
usage: tools_benign.py <dir with Cxx/{A,B}.diff,_demo.py,_meta.json> [ids...]
Writes /verif/benign/<Cxx-X>/{patch.diff,demo.py,meta.json}."""
import json, os, subprocess, sys, shutil

SRC = sys.argv[1]
WT = "/tmp/wt/benigncheck"
ENV = dict(os.environ, VERIF_REPO=WT, VERIF_OUT="/tmp/benign_out", VERIF_EVIDENCE_DIR="/tmp/benign_evidence")
PY = "/venv/bin/python"


def sh(cmd, **kw):
    return subprocess.run(cmd, shell=True, stdout=subprocess.PIPE, stderr=subprocess.STDOUT, text=True, **kw)


def main():
    if not os.path.exists(WT):
        print(sh("git -C /repo worktree add --detach %s HEAD" % WT).stdout)
    sh("git -C %s checkout -q --detach $(git -C /repo rev-parse HEAD) && git -C %s checkout -- ." % (WT, WT))
    ids = sys.argv[2:]
    for prop in sorted(os.listdir(SRC)):
        for X in ("A", "B"):
            sid = "%s-%s" % (prop, X)
            if ids and sid not in ids:
                continue
            diff = os.path.join(SRC, prop, X + ".diff")
            demo = os.path.join(SRC, prop, X + "_demo.py")
            metaf = os.path.join(SRC, prop, X + "_meta.json")
            if not (os.path.exists(diff) and os.path.exists(demo) and os.path.exists(metaf)):
                continue
            meta = json.load(open(metaf))
            res = {"id": sid, "property": prop, "summary": meta.get("summary"),
                   "visible_difference": meta.get("visible_difference"), "file": meta.get("file"),
                   "function": meta.get("function")}
            sh("git -C %s checkout -- ." % WT)
            r = sh("git -C %s apply --check %s" % (WT, diff))
            if r.returncode != 0:
                res["status"] = "does not apply"
                print(sid, res["status"])
                out(sid, diff, demo, res)
                continue
            d0 = sh("PYTHONPATH=%s/src timeout 900 %s %s" % (WT, PY, demo))
            sh("git -C %s apply %s" % (WT, diff))
            t = sh("cd %s && PYTHONPATH=%s/src %s -m pytest -q -p no:cacheprovider --timeout=900 tests 2>&1 | tail -1" % (WT, WT, PY))
            d1 = sh("PYTHONPATH=%s/src timeout 900 %s %s" % (WT, PY, demo))
            c = sh("cd /verif && ./check %s quick" % prop, env=ENV)
            sh("git -C %s checkout -- ." % WT)
            lines = [l.strip() for l in c.stdout.split("\n")]
            classes = [l for l in lines if l.startswith("violation class")]
            binding = [l for l in lines if l.startswith("binding mismatch")]
            valid = d0.returncode == 0 and d1.returncode == 0 and "50 passed" in t.stdout
            res.update({"tests_with_change": t.stdout.strip(), "demo_rc_clean": d0.returncode, "demo_rc_with_change": d1.returncode,
                        "check_rc_with_change": c.returncode, "violation_classes": classes, "binding_mismatches": binding,
                        "status": ("not a valid behaviour-preserving change (its own demonstration or the tests fail)" if not valid
                                   else "quiet" if c.returncode == 0 else "MACHINERY-ERROR" if c.returncode == 2
                                   else "ALARM")})
            print(sid, res["status"], classes[:3], binding[:2])
            if c.returncode == 2:
                print(c.stdout[-800:])
            out(sid, diff, demo, res)


def out(sid, diff, demo, res):
    d = os.path.join("/verif/benign", sid)
    os.makedirs(d, exist_ok=True)
    shutil.copy(diff, os.path.join(d, "patch.diff"))
    shutil.copy(demo, os.path.join(d, "demo.py"))
    with open(os.path.join(d, "meta.json"), "w") as f:
        json.dump(res, f, indent=1)


main()
