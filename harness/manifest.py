"""Regenerates MANIFEST.json from the table below (python -m harness.manifest)."""
import json
import os
import subprocess

VERIF = os.path.dirname(os.path.dirname(os.path.abspath(__file__)))

J = ("TLC-judged trace validation: recorded API-call events of the real library are checked, event by event, "
     "against the TLA+ reference semantics (spec/Judge.tla + definition modules)")
M = "exhaustive TLC model checking of the TLA+ algorithm model over all small inputs and all set-iteration orders"

CLAIMED = {
    # id: (design_ref, level text, level note, technique)
    "C01": ("5/C01",
            "TLC checks the models EpsClosure (all eps-graphs on 3/4 states x all pop orders: exact closure, "
            "termination) and NfaRun (all NFA(2,{a,b}) x words: verdict = accepting run exists in the configuration "
            "graph); the real epsilon_closure / N.E / nfa_accepts_word / dfa_accepts_word are bound to the same "
            "definitions by judging one event per automaton (all of NFA(2,{a,b}), random NFAs/DFAs up to 6 states) "
            "with TLC; (T) the closure loop's pops reported by hooks are validated against the model's step "
            "function, (G) every closure schedule TLC enumerates on 3 states is forced onto the real loop; the "
            "loop's partial correctness is additionally PROVED for arbitrary graphs with TLAPS "
            "(spec/proofs/EpsClosureProof.tla, 45 obligations).  Acceptance itself is bounded, not proved.",
            "trusted: TLC, the JSON projection harness/abstraction.py, FA.tla's definitions (cross-checked by "
            "Lemmas); bounds: <= 6 states, words <= 4",
            "TLA+ models (TLC exhaustive) + TLC trace validation of recorded calls"),
    "C03": ("5/C03",
            "TLC checks the model Subset (nfa_to_dfa as a LIFO worklist over subsets; all NFA(2,{a,b}) with epsilon, "
            "NFA(3,{a}) in thorough): valid total DFA, initial = closure, all reachable, exact equivalence "
            "(subset-product, all word lengths); every real nfa_to_dfa result (exhaustive NFA(2,{a,b}) + random NFAs "
            "incl. empty alphabet and names that are substrings of each other) is judged by TLC against the same "
            "definitions.",
            "trusted: TLC, harness/abstraction.py, FA.tla; DFA state labels parsed as printed state sets; <= 6 states",
            "TLA+ model (TLC exhaustive) + TLC trace validation of recorded calls"),
    "C04": ("5/C04",
            "TLC checks three models written like the code - Hopcroft (every splitter pop order, stale splitter kept), "
            "Quotient (first-fit regrouping with arbitrary element order / representative), TableFill (every state "
            "order, in-place sweeps, assembly) - over all DFA(3,{a,b}) (DFA(4,*) in thorough): final partition = "
            "Myhill-Nerode partition, result valid/equivalent/pairwise distinguishable/count within bounds, input "
            "unchanged, termination.  Every real result of the three minimisers on the same universe (eight naming "
            "schemes, several hash seeds) + random DFAs is judged by TLC against FA.tla; (T) observed Hopcroft "
            "schedules are validated against the model's step function; (G) every Hopcroft splitter schedule and "
            "every order of list(Q) for table filling that TLC enumerates on DFA(3,{a,b}) (33k + 35k) is forced "
            "onto the real code (hooks) and the final partition compared with the model's.",
            "trusted: TLC, harness/abstraction.py, FA.tla; <= 7 states; one recorded finding (names with commas)",
            "TLA+ models with nondeterministic set order (TLC exhaustive) + TLC trace validation of recorded calls"),
    "C05": ("5/C05",
            "regexp_simplify, regexp_accepts_word (and regexp_words_up_to_n) are transcribed into TLA+ (RegexCode.tla) "
            "and TLC evaluates, on every tree with <= 2 (3) operators over {0,1,a,b}: simplification keeps the "
            "language exactly (Glushkov automata + subset-product) and never grows, the matcher equals the "
            "denotational semantics (position DP for star) on all words <= 3 (4).  The real functions are bound by "
            "judging their results on the same trees + random and 'related-subterm' trees with TLC.  Executable "
            "reference semantics + exhaustive evaluation; not a behavioural model (DESIGN 1, item 3).",
            "trusted: TLC, abstraction.py, Regex.tla (Matches cross-checked against Glushkov in the model run)",
            "TLA+ transcription checked exhaustively by TLC + TLC trace validation of recorded calls"),
    "C06": ("5/C06",
            "TLC checks GnfaRip (dfa_to_gnfa + gnfa_minimize with symbolic regexp edge labels and the transcribed "
            "simplifier) over all DFA(2,{a,b}), DFA(3,{a,b}), DFA(3,{a}) x every elimination order: the extracted "
            "expression is exactly equivalent to the DFA.  Real regexp_to_nfa / dfa_to_regexp results (small trees "
            "exhaustively, random trees, DFAs under renamings and hash seeds = elimination orders, 3-symbol "
            "alphabets, multi-character state names) are judged exactly by TLC (Glushkov + subset-product).  Thompson.tla "
            "models regexp_to_nfa as the code builds it (generator names, shared alphabet): checked on all trees "
            "with <= 2 (3) operators and replayed structurally into the real function; observed elimination traces "
            "are replayed through GnfaRip's step operator down to the identical expression tree; (G) for DFAs with 2-3 (4) "
            "states EVERY elimination order is forced onto the unchanged gnfa_minimize by renaming the states (the loop "
            "follows the hash order of the names) until the hook has reported all k! orders.",
            "trusted: TLC, abstraction.py, Regex.tla/FA.tla; DFA state names other than start/accept",
            "TLA+ model with nondeterministic elimination order (TLC exhaustive) + TLC trace validation"),
    "C14": ("5/C14",
            "The reference language operations of FA.tla (product / backward-set / visited-F / reach-again, decided "
            "exactly for all word lengths) are themselves TLC-checked against word-level definitions (Lemmas.tla); "
            "every real construction result (unary on DFA(3,{a,b}), products on all pairs of DFA(2,{a,b}), random and "
            "partial DFAs) and every finite-language helper result (all 128 languages over words <= 2, sampled pairs) "
            "is judged by TLC, incl. DFAs with 10-13 numbered states and operands with commas in their names (recorded "
            "finding).  DfaOps.tla models the nine constructions as the code builds them (names included): TLC checks "
            "them against the reference operations on every DFA(2)/DFA(3) / pair / partial DFA and every (input, "
            "operation, result) is replayed into the real function and compared structurally.",
            "trusted: TLC, abstraction.py, FA.tla as cross-checked by Lemmas.tla",
            "TLA+ construction model (TLC exhaustive, behaviours replayed into the code) + TLC-checked reference semantics + "
            "TLC trace validation of recorded calls"),
    "C20": ("5/C20",
            "TLC checks Iso (dfa_isomorphic1 as a worklist with arbitrary pick order) over all pairs of DFA(2,{a,b}), "
            "DFA(2,{a,b}) x DFA(3,{a,b}), DFA(3,{a})^2: answer = existence of a bijection (brute force), termination; "
            "the model also shows the pinned variant and an 'inverse-only' repair to be wrong.  Both real variants on "
            "all 4096 ordered pairs of DFA(2,{a,b}), both argument orders, renamed copies (+ flipped bit), unreachable "
            "states, duplicated and near-duplicated states are judged by TLC; (T) observed pick sequences are "
            "replayed through the model's step function; (G) all 4352 pick schedules TLC enumerates are forced onto "
            "the real dfa_isomorphic1; calls burning more than 3 s of CPU count as non-termination.",
            "trusted: TLC, abstraction.py, FA.tla IsoExists; wall-clock limit for termination",
            "TLA+ model with nondeterministic pick order (TLC exhaustive) + TLC trace validation"),
    "C18": ("5/C18, Appendix D",
            "TLC checks Session.tla - the three constructions at heap level (shared vs copied target-set cells, the "
            "two hidden default identifier generators, the result's epsilon) - over 256 operand pairs x all histories "
            "of <= 3 (4) calls: result valid, language = textbook construction on tagged copies (exact), introduced "
            "state fresh, no exception; the same model with Mode = pinned reproduces the three defects that were "
            "fixed.  Binding both ways: (G) every behaviour TLC enumerates (13.5k / 111k) is replayed into the real "
            "functions and each call judged; (J) seeded sessions with random operands (state names q*, p*, four "
            "epsilon symbols, explicit and default generators, nested results) are judged by TLC.",
            "trusted: TLC, abstraction.py, FA.tla + the tagged reference constructions of JFA.tla; operands of one "
            "call share their epsilon symbol",
            "TLA+ heap-level API model (TLC exhaustive) + spec behaviours replayed into code + TLC trace validation"),
    "C07": ("5/C07",
            "TLC checks Cyk.tla (the table filled cell by cell as the code does) over every CNF grammar with <= 3 (4) "
            "rules on {S,A,B}/{a,b} x every word <= 3: each filled cell equals the derivability fix-point, the verdict "
            "equals derivability.  The real cfg_accepts_word (arbitrary grammars incl. epsilon/unit/cyclic/useless "
            "rules; every word <= n) and every cell of the real cfg_cyk_matrix are judged by TLC against the fix-point "
            "semantics of CFG.tla.",
            "trusted: TLC, abstraction.py, CFG.tla; bounded: <= 4 variables, words <= 4",
            "TLA+ model (TLC exhaustive) + TLC trace validation of recorded calls"),
    "C08": ("5/C08",
            "TLC checks Chomsky.tla (unit-rule elimination under every order in which the variable set is visited) "
            "over all sets of <= 4 (5) unit/terminal/binary rules on 3 variables: no unit rule left, rule set = unit "
            "closure whatever the order, language of every variable preserved (words <= 3).  Every phase of the real "
            "pipeline, cfg_to_chomsky and cfg_apply_chomsky are judged by TLC per call: valid grammar, the phase's "
            "postcondition, language equal on all words <= 3 (4) by the fix-point on both sides, no input variable gains a "
            "rule (introduced variables are new), CNF at the end, input unchanged; grammars with 23-27 variables and "
            "multi-character variable names included; the deterministic phases are compared with ChomskySteps.tla "
            "down to the rule list, and ChomskyPipe.tla checks the composed model pipeline on all 28.9k rule lists "
            "with <= 2 rules; (T) observed visiting "
            "orders are replayed through the model's step function down to the exact rule list; (G) every "
            "visiting order TLC enumerates (5.9k) is forced onto the real cfg_eliminate_unit_rules.",
            "trusted: TLC, abstraction.py, CFG.tla; CFG equivalence undecidable - bounded word length",
            "TLA+ model with nondeterministic visiting order (TLC exhaustive) + TLC trace validation"),
    "C02": ("5/C02",
            "TLC checks the enumerators as level-by-level models (Enumerate.tla: NFA frontier, CNF sentential forms; "
            "RegexCode/Simplify: budget splitting) against the reference languages on NFA(2,{a,b}), all CNF grammars with "
            "<= 3 rules, all trees with <= 2 operators.  For objects of all six kinds the real enumerator, "
            "generate_language and the real acceptance test on every word <= n (n = 0..3) are recorded in one event and "
            "judged by TLC: nothing longer than n, equal to own acceptance, equal to the reference language "
            "(saturation semantics / fix-point / step function / denotation), generator returns the same set; PDAs "
            "under explicit closure limits (equality required only when no closure can hit it), TMs under equal step "
            "budgets.",
            "trusted: TLC, abstraction.py, the reference semantics modules; n <= 3",
            "TLA+ models (TLC exhaustive) + TLC trace validation of recorded calls"),
    "C09": ("5/C09",
            "TLC checks PdaRun.tla - closure as a worklist bounded by MaxIter pops with arbitrary pop order, step, "
            "verdict - over all PDAs with <= 2 (3) moves on 2 states x words <= 2 x MaxIter in {1,2,3}: sound always, "
            "complete when every exact closure stays below the limit, the oracle's two formulations agree, "
            "termination.  Real pda_accepts_word verdicts for all words <= n under limits 1..50 (binary-tree PDAs: "
            "500..5000), before and after an in-place change of the automaton, are judged by TLC against the exact "
            "saturation semantics (no stack bound), incl. epsilon-graph PDAs under the boundary limit (= size of the "
            "largest closure needed).  Observed pops of pda_epsilon_closure are validated against the model's Pop "
            "operators, every pop order x limit of the small universe (23k schedules) is forced onto the real loop, "
            "and TLAPS proves (PdaClosureProof.tla, 99 obligations) soundness of every truncated result and "
            "completeness below the limit for any configuration set, limit and pop order.",
            "trusted: TLC, TLAPS, abstraction.py, PDA.tla (saturation vs configuration exploration cross-checked in the model "
            "run); words <= 3 (4)",
            "TLA+ model with nondeterministic pop order (TLC exhaustive, schedules forced onto the code) + TLAPS proof of the "
            "loop + TLC trace validation"),
    "C10": ("5/C10",
            "Every result of the four public transformations (one accepting state, push/pop, accept on empty stack, "
            "PDA->CFG) on the sampled 2-state universe, hand-written PDAs (acceptance with non-empty stack, markers "
            "already in the stack alphabet, replace/no-op moves, several/no accepting states) and random PDAs is judged "
            "by TLC: valid, language equal on all words <= 3 (saturation semantics vs derivability fix-point), "
            "push/pop only, accepting configurations have an empty stack, input unchanged.  TLC also checks "
            "PdaNormal.tla (the three normal forms and the triple construction as phases; all PDAs with <= 2 (3) moves "
            "on 2 states, names clashing with the fresh names): language preserved after every phase; its pinned "
            "variant (no drain state) reproduces the defect that was fixed.  State names like the generated ones (M1, "
            "q_accept1) and with apostrophes (variable-name clash in pda_to_cfg, fixed) are part of the universe.",
            "trusted: TLC, abstraction.py, PDA.tla, CFG.tla; bounded word length (the statement asks for a bound)",
            "TLA+ phase model (TLC exhaustive) + TLC trace validation of recorded calls"),
    "C11": ("5/C11",
            "TLC checks TmRun.tla (the step loop with a budget) over all 169 one-working-state TMs on {a,_} (6859 on "
            "{a,b,_} in thorough) x words <= 2: configuration k equals the reference configuration function, verdict "
            "three-valued, a decided verdict is final.  tm_simulate_word IS a trace: every recorded configuration "
            "sequence (169 + sampled 83521 + random TMs, budgets 0..8) is validated step by step by TLC against the "
            "step function written from the statement, and tm_accepts_word under budgets 0,1,2,3,4,6,8,1000 against the "
            "reference verdict.",
            "trusted: TLC, abstraction.py, TM.tla",
            "TLA+ model (TLC exhaustive) + TLC validation of the implementation's own traces"),
    "C15": ("5/C15",
            "TLC checks EpsPath.tla (forward search with back-pointers, backward walk; every pop and edge order) over "
            "all epsilon graphs on 3 (4) states: the walk is bounded, a returned path is genuine, None iff unreachable; "
            "with Mode = pinned the same model reproduces the hang that was fixed.  Every returned run of "
            "dfa/nfa/pda_simulate_word and every derivation of cfg_derive_word IS a trace and is validated step by "
            "step by TLC against the automaton's / grammar's own step relation (JWIT.tla, CFG.tla), None iff rejected; "
            "8 (32) hash seeds; calls burning more than 4 s of CPU count as non-termination; (T) the pops and examined "
            "edges of nfa_find_epsilon_path reported by hooks are replayed through the same step functions the "
            "model is tied to (PathFixedAgrees); (G) every schedule of the search TLC enumerates on 3 states (Schedules.tla, "
            "Algo = path: 20 k pop / edge orders) is FORCED onto nfa_find_epsilon_path, nfa_simulate_word and "
            "pda_simulate_word and the returned path compared with the model's.  Derive.tla models cfg_derive_word's two worklist loops (all CNF rule "
            "lists <= 3 (4) in every order, both modes: valid derivation, termination) and the same step functions "
            "(DeriveSteps.tla) recompute every recorded derivation, which must be identical.  NfaSim.tla / PdaSim.tla "
            "model nfa_simulate_word / pda_simulate_word as a whole (forward stack of state / configuration sets, backward "
            "reconstruction with every choice of accepting state, epsilon path and move source: never stuck on an "
            "accepted word, partial result always a valid run suffix, result genuine, none iff rejected) and every "
            "recorded run must be a behaviour of that model (IsModelRun / IsModelRunP, binding clause).",
            "trusted: TLC, abstraction.py, FA/PDA/CFG.tla; wall-clock limit for termination",
            "TLA+ model with nondeterministic orders (TLC exhaustive) + TLC validation of the implementation's own traces"),
    "C16": ("5/C16",
            "Each object is printed by the library, parsed back by the library and both projections are handed to TLC: "
            "automata and grammars must be identical field by field; regular expressions (three syntaxes) must denote "
            "the same language (exact, Glushkov + subset product) and re-print identically.  Universes: DFA(3,{a,b}) "
            "under five naming schemes, NFA(2,{a,b}), the PDA/TM universes of C09/C11, empty alphabets, states named "
            "like other formats' keywords, all trees <= 2 (3) operators, simple-format grammars.  TLC also checks "
            "RoundTrip.tla: the printer composed with the line-parser model of C17 gives back every DFA(2/3,{a,b}) "
            "and every 2-state NFA, for every order in which an edge's labels may be printed; RoundTripPT.tla does the "
            "same for print_pda / print_tm with the PDABuilder / TMBuilder models (all 2-state PDAs / TMs with <= 2 (3) "
            "moves), GrammarRT.tla for cfg_print_simple + SimpleCFGParser (all rule lists <= 3 rules; its pinned mode "
            "exhibits the glyph-as-terminal defect that was fixed).  The printers are one module (Printer.tla / "
            "GrammarText.tla) shared with the Judge: every text the REAL printers wrote in the recorded round trips is "
            "validated as a text of the printer model (binding_printed_as_model).",
            "trusted: TLC, abstraction.py, Regex.tla; character-level lexing is exercised, not modelled",
            "TLA+ composition model (TLC exhaustive) + TLC trace validation of recorded round trips"),
    "C17": ("5/C17, Appendix C",
            "Text.tla states declaratively which descriptions are well formed and which automaton one denotes "
            "(order-free, with the documented defaults).  LineParser.tla models parse_line + the DFA/NFA/PDA/TM builders "
            "operationally; TLC checks over every permutation (<= 6 lines), every subset of optional declarations and "
            "every single fault that the operational outcome equals the declarative one (refinement).  (G) every "
            "layout TLC enumerates (99k DFA, 260k NFA, 11k PDA, 30k TM; every 6th in quick) is rendered and parsed by the real parser; "
            "(J) random automata of all four kinds in random layouts with 18 kinds of corruption; each outcome is "
            "judged by TLC against Text.tla: well-formed => exactly the described automaton, malformed => rejected, "
            "class invariants hold.",
            "trusted: TLC, abstraction.py, Text.tla; tokens are classified legal/illegal by the harness with the "
            "documented label expressions; TM descriptions never repeat a (state, symbol)",
            "TLA+ declarative + operational models (TLC refinement check) + spec behaviours replayed + TLC trace validation"),
    "C12": ("5/C12, Appendix B",
            "JCHK.tla states the criterion of each of 23 checker families (language agreement up to the checker's "
            "bound by the reference semantics + the structural requirement the checker states in its messages) and what "
            "a reported counterexample must satisfy (genuine, polarity, minimal length).  The real checkers are given "
            "the library's own answer, 3-6 single mutations of it and ill-formed regular-expression texts; TLC judges "
            "per call: verdict OK => criterion, ill-formed never OK, counterexample clauses; a binding clause compares "
            "each verdict with the operational model's verdict.  Checker.tla checks with TLC that the operational "
            "model of the product checkers (the one family that does not look at exactly its criterion) never says "
            "OK to a wrong answer over every answer of a small universe.",
            "trusted: TLC, abstraction.py, the reference semantics, the printers that render the submitted answers "
            "(C16); bounds 2-4",
            "TLA+ checker model (TLC exhaustive, product family) + TLC trace validation of recorded verdicts against a TLA+ criterion"),
    "C13": ("5/C13",
            "The real chain - notebooks/make_notebook.apply_command on a temporary reference file, then the checker "
            "called as the notebook template calls it - is run for 21 exercise types on random references (DFAs over "
            "letters and over {0,1}, NFAs, non-degenerate simple grammars incl. a declared epsilon symbol, regexps) and "
            "on every shipped example; TLC consumes one event per run and flags every verdict other than OK.  "
            "Inside the specification the same statement is an invariant of the algorithm models: the result of "
            "Subset / Hopcroft / Quotient / GnfaRip / Cyk satisfies the criterion of the corresponding checker "
            "(OwnAnswerPasses...Checker), for all small inputs and all schedules.",
            "trusted: TLC (trivial clause), the harness's reproduction of the template's checker call",
            "TLA+ model invariants (own result satisfies the checker criterion) + recorded end-to-end runs judged by TLC"),
    "C19": ("5/C19, Appendix D",
            "TLC checks the action property OperandsUnchanged of Session.tla (heap cells shared vs copied, hidden "
            "generators) over all histories of <= 3 (4) constructions; the pinned variant of the model violates it; "
            "DfaSession.tla does the same for the DFA API at container level (complement / make_total / "
            "make_total_in_place / union / remove_unreachable / no_extend on every partial 2-state DFA; its pinned mode "
            "reproduces the dfa_complement sharing defect that was fixed).  "
            "(G) every behaviour TLC enumerates from both models is replayed and every existing object projected "
            "before/after each call; the final store is compared with the model's.  "
            "(J) 63 pure operations on seeded arguments are executed in 3 (12) processes with different "
            "PYTHONHASHSEED, different call orders (histories, incl. grammars that differ only in their start variable "
            "meeting in one process) and logging on/off, twice in a row, then the library's in-place operations are applied "
            "to both results; TLC judges: arguments unchanged, same result "
            "when called again, and - on events grouping the runs of one case - identical values / exactly equal "
            "languages (FA, regexp) / equal languages up to 3 (grammars, PDAs) elsewhere.",
            "trusted: TLC, abstraction.py (the projection defines 'observable content'), the reference semantics; "
            "printers' label order is not constrained",
            "TLA+ heap-level model (TLC, action property) + spec behaviours replayed + TLC trace validation across "
            "processes"),
}

REASON_TODO = "check not built yet (work in progress; see DESIGN.md section 5)"


def main():
    ids = ["C%02d" % i for i in range(1, 21)]
    hooks = []
    try:
        out = subprocess.run(["git", "-C", "/repo", "log", "--format=%H %s"], stdout=subprocess.PIPE, text=True).stdout
        hooks = [ln.split()[0] for ln in out.splitlines() if ln.split(" ", 1)[1].startswith("verif-hook:")]
    except Exception:
        pass
    checks = []
    for pid in ids:
        if pid not in CLAIMED:
            continue
        ref, text, note, tech = CLAIMED[pid]
        checks.append({
            "property_id": pid,
            "quick_cmd": "./check %s quick" % pid,
            "thorough_cmd": "./check %s thorough" % pid,
            "evidence_file": "/verif/evidence/%s.json" % pid,
            "replay_cmd_template": "./check %s --replay {path}" % pid,
            "engine": "tlc-judge",
            "level_claimed": {"category": "model_checking", "text": text, "design_ref": "DESIGN.md section " + ref},
            "level_note": note,
            "technique": tech,
        })
    man = {
        "version": 1,
        "setup_cmd": "./setup.sh",
        "hooks": {"guard": "GAMBATOOLS_VERIF",
                  "enable": "GAMBATOOLS_VERIF=1 in the environment of the driver processes (harness/common.py "
                            "worker_env); sources are imported from /repo/src of the current tree",
                  "baseline_off_cmd": "cd /repo && env -u GAMBATOOLS_VERIF /venv/bin/python -m pytest -ra -q "
                                      "-p no:cacheprovider --timeout=900 --continue-on-collection-errors",
                  "source_commits": hooks, "add_only": True},
        "engines": [
            {"name": "tlc-judge", "path": "spec/Judge.tla", "serves_properties": sorted(CLAIMED),
             "kind_free_text": J},
            {"name": "tlc-models", "path": "spec/*.tla + spec/mc/*.cfg", "serves_properties": sorted(CLAIMED),
             "kind_free_text": M},
        ],
        "checks": checks,
        "notes": "exit 0 = held on everything explored; exit 1 + VIOLATION line = violation; exit 2 = machinery "
                 "failure (never a verdict). known_findings.json lists recorded genuine defects.",
        "not_applicable": [{"property_id": p, "reason": REASON_TODO} for p in ids if p not in CLAIMED],
    }
    with open(os.path.join(VERIF, "MANIFEST.json"), "w") as f:
        json.dump(man, f, indent=1)
    print("MANIFEST.json: %d checks, %d not claimed" % (len(checks), len(man["not_applicable"])))


if __name__ == "__main__":
    main()
