"""One projection from real gambatools objects to the abstract JSON values of DESIGN.md 3.1.
Used for recording events AND for comparing spec states during replay.
All strings are made ASCII (TLC mangles non-ASCII); None is "none"."""
import re


def enc(s):
    """ASCII-safe encoding of a state name / symbol (injective)."""
    if s is None:
        return "none"
    out = []
    for ch in str(s):
        o = ord(ch)
        if 32 <= o < 127 and ch not in '~"\\':
            out.append(ch)
        else:
            out.append("~%04x~" % o)
    return "".join(out)


def dec(s):
    return re.sub(r"~([0-9a-f]{4,6})~", lambda m: chr(int(m.group(1), 16)), s)


def word(w):
    return [enc(c) for c in w]


def words(ws):
    return sorted((word(w) for w in ws), key=lambda x: (len(x), x))


def sset(xs):
    return sorted(enc(x) for x in xs)


def dfa(D):
    T = sorted([enc(q), enc(a), enc(q1)] for (q, a), q1 in D.delta.items())
    return {"Q": sset(D.Q), "S": sset(D.Sigma), "T": T, "q0": enc(D.q0), "F": sset(D.F), "eps": "~eps~"}


def nfa(N):
    T = sorted([enc(q), enc(a), enc(q1)] for (q, a), Q1 in list(N.delta.items()) for q1 in Q1)
    return {"Q": sset(N.Q), "S": sset(N.Sigma), "T": T, "q0": enc(N.q0), "F": sset(N.F), "eps": enc(N.epsilon)}


def fa(A):
    from gambatools.dfa import DFA
    return dfa(A) if isinstance(A, DFA) else nfa(A)


def pda(P):
    T = sorted([enc(p), enc(a), enc(u), enc(q), enc(v)] for (p, a, u), Q1 in list(P.delta.items()) for (q, v) in Q1)
    return {"Q": sset(P.Q), "S": sset(P.Sigma), "G": sset(P.Gamma), "T": T, "q0": enc(P.q0), "F": sset(P.F),
            "eps": enc(P.epsilon)}


def tm(T_):
    T = sorted([enc(p), enc(a), enc(q), enc(b), enc(d)] for (p, a), (q, b, d) in T_.delta.items())
    return {"Q": sset(T_.Q), "S": sset(T_.Sigma), "G": sset(T_.Gamma), "T": T, "q0": enc(T_.q0),
            "qa": enc(T_.q_accept), "qr": enc(T_.q_reject), "blank": enc(T_.blank)}


def regexp(r):
    from gambatools import regexp as R
    if isinstance(r, R.Zero):
        return ["zero"]
    if isinstance(r, R.One):
        return ["one"]
    if isinstance(r, R.Symbol):
        return ["sym", enc(r.symbol)]
    if isinstance(r, R.Iteration):
        return ["star", regexp(r.operand)]
    if isinstance(r, R.Sum):
        return ["sum", regexp(r.left), regexp(r.right)]
    if isinstance(r, R.Concat):
        return ["cat", regexp(r.left), regexp(r.right)]
    raise TypeError(r)


def sym(x):
    from gambatools.cfg import Variable
    return ["v", enc(x)] if isinstance(x, Variable) else ["t", enc(x)]


def cfg(G):
    R = [[enc(r.variable), [sym(x) for x in r.alternative.symbols]] for r in G.R]
    return {"V": sset(G.V), "S": sset(G.Sigma), "R": R, "start": enc(G.S)}


def project(x):
    """abstract value of any library object (for C19 snapshots)"""
    from gambatools.dfa import DFA
    from gambatools.nfa import NFA
    from gambatools.pda import PDA
    from gambatools.tm import TM
    from gambatools.cfg import CFG
    from gambatools.regexp import Regexp
    if isinstance(x, DFA):
        return {"kind": "dfa", "v": dfa(x)}
    if isinstance(x, NFA):
        return {"kind": "nfa", "v": nfa(x)}
    if isinstance(x, PDA):
        return {"kind": "pda", "v": pda(x)}
    if isinstance(x, TM):
        return {"kind": "tm", "v": tm(x)}
    if isinstance(x, CFG):
        return {"kind": "cfg", "v": cfg(x)}
    if isinstance(x, Regexp):
        return {"kind": "re", "v": regexp(x)}
    raise TypeError(type(x))
