"""Worker process: imports the real library from /repo/src of the current tree (PYTHONPATH set by
the parent, nothing cached), runs one task of one property's driver and writes NDJSON events.

usage: python -m harness.worker <pid> <task.json> <events.ndjson>"""
import importlib
import json
import signal
import sys
import time
import io
import contextlib


class CallTimeout(Exception):
    pass


def _alarm(signum, frame):
    raise CallTimeout()


def guarded(fn, seconds=10):
    """_guarded, made safe against the one race it has: a timer that expires while fn() is inside a long C-level
    operation is delivered when that operation returns - possibly after fn() has returned, inside the `finally`
    that cancels the timers.  The budget was used up in that case too: the call is reported as a Timeout (this
    used to end the driver with an uncaught CallTimeout, i.e. a machinery failure)."""
    try:
        return _guarded(fn, seconds)
    except CallTimeout:
        pass
    while True:
        try:
            signal.setitimer(signal.ITIMER_VIRTUAL, 0)
            signal.setitimer(signal.ITIMER_REAL, 0)
            return None, "Timeout"
        except CallTimeout:
            continue


def _guarded(fn, seconds=10):
    """Run fn() under a limit of `seconds` of CPU time of this process (ITIMER_VIRTUAL: a library call
    that loops burns CPU and is stopped; a starved process on a loaded machine is NOT mistaken for a
    hanging call), with a generous wall-clock limit (20x) as a fallback for blocking calls.
    Returns (value, exc_name)."""
    signal.signal(signal.SIGVTALRM, _alarm)
    signal.signal(signal.SIGALRM, _alarm)
    signal.setitimer(signal.ITIMER_VIRTUAL, seconds)
    signal.setitimer(signal.ITIMER_REAL, seconds * 20)
    try:
        return fn(), "none"
    except CallTimeout:
        return None, "Timeout"
    except RecursionError:
        return None, "RecursionError"
    except Exception as e:  # noqa
        return None, type(e).__name__
    finally:
        signal.setitimer(signal.ITIMER_VIRTUAL, 0)
        signal.setitimer(signal.ITIMER_REAL, 0)


def quiet(fn):
    """call fn() capturing stdout; returns (value, text)"""
    buf = io.StringIO()
    with contextlib.redirect_stdout(buf):
        v = fn()
    return v, buf.getvalue()


def main():
    pid, tpath, epath = sys.argv[1:4]
    with open(tpath) as f:
        task = json.load(f)
    mod = importlib.import_module("harness.props." + pid.lower())
    base = task["index"] * 1000000
    n = 0
    t0 = time.time()
    counts = {}
    with open(epath, "w") as out:
        gen = mod.redrive(task['src']) if task.get('kind') == '__replay__' else mod.drive(task)
        for ev in gen:
            n += 1
            ev["id"] = base + n
            ev.setdefault("hashseed", task.get("hashseed", 0))
            counts[ev["op"]] = counts.get(ev["op"], 0) + 1
            out.write(json.dumps(ev, sort_keys=True))
            out.write("\n")
    print(json.dumps({"events": n, "ops": counts, "wall_s": round(time.time() - t0, 2)}))


if __name__ == "__main__":
    sys.setrecursionlimit(3000)
    main()
