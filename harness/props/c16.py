"""C16 - printing an object and parsing the text returns the same object."""
import json
import random

from .. import abstraction as ab
from .. import universe as U
from . import base, gen, cfgsrc, pdasrc, tmsrc, c05
from ..worker import guarded

PID = "C16"
PEPS = ["ε", "_", "e"]          # printable epsilon symbols


def tasks(tier, seed):
    q = tier == "quick"
    hs = gen.hashseeds(tier, seed)
    ts = []
    ts += [dict(t, what="dfa") for t in gen.dfa_src_tasks(3, "ab", 2, stride=7 if q else 1, pools=(0, 1, 3, 4, 5))]
    ts += [{"kind": "rnd_dfa", "count": 300 if q else 2000, "seed": seed * 10 + i, "what": "dfa",
            "alphabets": ["a", "ab", "abc", "01", ""]} for i in range(2 if q else 8)]
    ts += [dict(t, what="nfa") for t in gen.nfa_src_tasks(2, "ab", 4, stride=9 if q else 1)]
    ts += [{"kind": "rnd_nfa", "count": 300 if q else 2000, "seed": seed * 10 + i, "what": "nfa"} for i in range(2 if q else 8)]
    ts += [{"kind": "pda", "part": i, "parts": 2, "stride": 20 if q else 2} for i in range(2)]
    ts += [{"kind": "rnd_pda", "count": 300 if q else 2000, "seed": seed * 10 + i} for i in range(2 if q else 8)]
    ts += [{"kind": "tm", "nwork": 1, "gamma": "a_", "lo": 0, "hi": 169, "stride": 1}]
    ts += [{"kind": "rnd_tm", "count": 300 if q else 2000, "seed": seed * 10 + i} for i in range(2 if q else 8)]
    ts += [{"kind": "re", "ops": o, "part": i, "parts": 2} for o in ((0, 1, 2) if q else (0, 1, 2, 3)) for i in range(2)]
    ts += [{"kind": "rnd_re", "count": 400 if q else 3000, "seed": seed * 10 + i} for i in range(2 if q else 8)]
    ts += [{"kind": "cfg", "part": i, "parts": 2, "stride": 15 if q else 1} for i in range(2)]
    ts += [{"kind": "rnd_cfg", "count": 300 if q else 2000, "seed": seed * 10 + i} for i in range(2 if q else 8)]
    return gen.spread(ts, hs)


def cfg_sorted(G):
    a = ab.cfg(G)
    a["R"] = sorted(a["R"])
    return a


def rt(kind, obj, absfn, printer, parser, src):
    A = absfn(obj)
    text, exc = guarded(lambda: printer(obj))
    ev = {"op": "roundtrip", "kind": kind, "obj": A, "exc": exc, "src": src}
    if exc == "none":
        obj2, exc = guarded(lambda: parser(text))
        ev["exc"] = exc
        ev["text"] = ab.enc(text)
        if kind in ("dfa", "nfa", "pda", "tm"):
            ev["plines"] = printed_lines(kind, text)
        if kind == "cfg":
            ev["ptext"] = grammar_lines(text)
            ev["gobj"] = ab.cfg(obj)          # rule list in the grammar's own order (the printer follows it)
        if exc == "none":
            ev["parsed"] = absfn(obj2)
            # history: the first parse result is changed in place, then the SAME text is parsed again - the
            # second result must still be the printed object (a parser must not share structure between results)
            try:
                _clobber(obj2)
                obj3, exc3 = guarded(lambda: parser(text))
                if exc3 != "none":
                    ev["exc"] = "reparse_" + exc3
                elif absfn(obj3) != ev["parsed"] and ev["parsed"] == A:
                    ev["parsed"] = absfn(obj3)        # the first result was right, the second is not: report the second
            except Exception:
                pass
    return ev


KEYWORDS = {"dfa": {"input_symbols"}, "nfa": {"input_symbols", "epsilon"},
            "pda": {"input_symbols", "stack_symbols", "epsilon"},
            "tm": {"input_symbols", "tape_symbols", "blank", "accept", "reject"}}


def printed_lines(kind, text):
    """the printed text as description lines (the line format of Text.tla / Printer.tla)"""
    from . import c17
    out = []
    for ln in text.split("\n"):
        w = ln.split()
        if not w:
            continue
        if w[0] in ("states", "final", "initial"):
            out.append({"k": w[0], "t": [ab.enc(x) for x in w[1:]]})
        elif w[0] in KEYWORDS[kind]:
            out.append({"k": "kw", "t": [ab.enc(x) for x in w]})
        else:
            out.append({"k": "tr", "t": [ab.enc(x) for x in w[:2]] + [c17.lab(kind, x) for x in w[2:]]})
    return out


def quiet_parse(parser, text):
    import contextlib
    import io
    with contextlib.redirect_stderr(io.StringIO()), contextlib.redirect_stdout(io.StringIO()):
        return parser(text)


def grammar_lines(text):
    """a printed simple grammar as the lines of GrammarText.tla"""
    out = []
    for ln in text.split("\n"):
        ln = ln.strip()
        if not ln:
            continue
        if ln.startswith("epsilon"):
            out.append({"k": "decl", "e": ab.enc(ln.split("=")[1].strip())})
        else:
            lhs, rhs = ln.split("->")
            out.append({"k": "rule", "lhs": ab.enc(lhs.strip()), "alts": [[ab.enc(c) for c in a.strip()] for a in rhs.split("|")]})
    return out


def _clobber(x):
    """modify a parsed object in place (it belongs to the caller)"""
    import gambatools.cfg_algorithms as ca
    from gambatools.cfg import CFG
    if isinstance(x, CFG):
        ca.cfg_make_rules_of_length_two_in_place(x)
        ca.cfg_eliminate_terminals_in_place(x)
        for r in x.R:
            r.alternative.symbols.append(r.variable)
        return
    if hasattr(x, "delta"):
        for k in list(x.delta)[:2]:
            v = x.delta[k]
            if isinstance(v, set):
                v.clear()
        if hasattr(x, "F") and isinstance(x.F, set):
            x.F.clear()
        x.Q.add("clobbered")


def events(src, _n=[0]):
    _n[0] += 1
    if _n[0] % 3 == 0:
        src = dict(src, kw=1)
    yield from _events(src)


def _events(src):
    import gambatools.dfa_algorithms as da
    import gambatools.nfa_algorithms as na
    import gambatools.pda_algorithms as pa
    import gambatools.tm_algorithms as ta
    import gambatools.cfg_algorithms as ca
    from gambatools import regexp as R
    from gambatools.regexp_parser import parse_regexp
    from gambatools.regexp_simple_parser import parse_simple_regexp
    k = src["kind"]
    if k in ("exh_dfa", "rnd_dfa"):
        D = gen.build_dfa(src)
        yield rt("dfa", D, ab.dfa, da.print_dfa, da.parse_dfa, src)
        K = U.keyword_named("dfa", D, random.Random(len(D.Q))) if src.get("kw") else None
        if K is not None:
            yield rt("dfa", K, ab.dfa, da.print_dfa, da.parse_dfa, src)
    elif k in ("exh_nfa", "rnd_nfa"):
        N = gen.build_nfa(src)
        if N.epsilon == "":                      # the statement asks for a printable epsilon symbol
            eps = PEPS[len(N.Q) % 3]
            if eps in N.Sigma:
                eps = "ε"
            N = U.rename_fa(N, {q: q for q in N.Q})
            N.delta = type(N.delta)(set, {(q, eps if a == "" else a): v for (q, a), v in N.delta.items()}) \
                if hasattr(N.delta, "default_factory") else {(q, eps if a == "" else a): v for (q, a), v in N.delta.items()}
            N.epsilon = eps
        if any(("," in q or "{" in q) for q in N.Q):
            return                                # not representable in the text format (state labels are \\w+)
        yield rt("nfa", N, ab.nfa, na.print_nfa, na.parse_nfa, src)
        K = U.keyword_named("nfa", N, random.Random(len(N.Q))) if src.get("kw") else None
        if K is not None:
            yield rt("nfa", K, ab.nfa, na.print_nfa, na.parse_nfa, src)
    elif k == "pda_special":
        # stack symbols the label syntax allows besides letters and digits: ~ ! @ # $ % ^ & *
        rng = random.Random(src["seed"])
        P, _ = U.random_pda(rng, rng.randint(1, 3), rng.choice(["a", "ab"]), rng.choice(["X%", "%#", "~&*", "$@", "!^X"]),
                            ntrans=rng.randint(1, 5), eps=src.get("eps", "ε"), prefix=rng.choice(["s", "q"]))
        yield rt("pda", P, ab.pda, pa.print_pda, pa.parse_pda, src)
    elif k == "tm_special":
        rng = random.Random(src["seed"])
        T = U.random_tm(rng, rng.randint(1, 2), rng.choice(["a", "ab"]), rng.choice(["%", "#%", "~&", "$*", "!^@"]),
                        rng.choice(["_", "□", "B"]), rng.choice([0.1, 0.4]))
        yield rt("tm", T, ab.tm, ta.print_tm, ta.parse_tm, src)
    elif k.startswith("pda"):
        P = pdasrc.build(dict(src, eps=src.get("eps", "ε")))
        yield rt("pda", P, ab.pda, pa.print_pda, pa.parse_pda, src)
        K = U.keyword_named("pda", P, random.Random(len(P.Q))) if src.get("kw") else None
        if K is not None:
            yield rt("pda", K, ab.pda, pa.print_pda, pa.parse_pda, src)
    elif k.startswith("tm"):
        T = tmsrc.build(src)
        yield rt("tm", T, ab.tm, ta.print_tm, ta.parse_tm, src)
        K = U.keyword_named("tm", T, random.Random(len(T.Q))) if src.get("kw") else None
        if K is not None:
            yield rt("tm", K, ab.tm, ta.print_tm, ta.parse_tm, src)
    elif k == "re":
        r = c05.from_abs(src["re"])
        A = src["re"]
        if src.get("after_errors"):
            # history: texts both parsers have to reject (illegal characters, unbalanced brackets, dangling operators)
            # are parsed first; a parser must not carry anything over from a rejected text into the next call
            for bad in ("(a + b $", "a)b", "a + + b", "((", "a $ b", "*", "a . . b)", "#(a"):
                for pbad in (parse_regexp, parse_simple_regexp):
                    guarded(lambda: quiet_parse(pbad, bad), 10)
        multi = any(len(x) > 1 for x in c05._syms(A))
        for name, pr, pa_ in (("simple", R.print_regexp_simple, parse_simple_regexp), ("full", R.print_regexp, parse_regexp),
                              ("str", str, parse_regexp)):
            if multi and name == "simple":
                continue          # the simple syntax has one-character symbols only: ab means a.b there
            text, exc = guarded(lambda: pr(r))
            ev = {"op": "roundtrip_re", "syntax": name, "re": A, "exc": exc, "src": src}
            if exc == "none":
                r2, exc = guarded(lambda: pa_(text))
                ev["exc"] = exc if r2 is not None or exc != "none" else "ParsedNone"
                ev["text"] = ab.enc(text)
                if ev["exc"] == "none":
                    ev["parsed"] = ab.regexp(r2)
                    ev["text2"] = ab.enc(pr(r2))
                    if multi:
                        # identifiers with several characters: languages compared over character words
                        ev["sem"], ev["parsed_sem"] = c05.spell(A), c05.spell(ev["parsed"])
            yield ev
    elif k == "cfg_rules":
        G = cfgsrc.build(src)
        # domain: simple format, every variable has a rule, alphabet = used terminals, start = first rule's variable
        if not ca.cfg_is_simple(G) or {r.variable for r in G.R} != set(G.V) or G.R[0].variable != G.S \
                or set().union(*[r.terminals() for r in G.R]) != set(G.Sigma):
            return
        if len(str(src)) % 3 == 0:
            # history: grammar texts the parser has to REJECT are parsed first (nothing to parse; an epsilon declaration
            # followed by a malformed production; a production without an arrow); a parser must not carry its epsilon
            # symbol or anything else over from a rejected text into the next call
            for bad in ("", "% only a comment\n", "epsilon = _\nS -> a | _\nA b\n", "epsilon = e\nS -> aS | e\n-> a\n",
                        "S a\n", "epsilon = _\nS -> _\nS ->-> a\n"):
                guarded(lambda: quiet_parse(ca.parse_simple_cfg, bad), 10)
        yield rt("cfg", G, cfg_sorted, ca.cfg_print_simple, ca.parse_simple_cfg, src)


def drive(task):
    k = task["kind"]
    rng = random.Random(task.get("seed", 1))
    if task.get("what") == "dfa":
        for src in gen.dfa_srcs(task):
            yield from events(src)
    elif task.get("what") == "nfa":
        for src in gen.nfa_srcs(task):
            yield from events(src)
    elif k == "pda":
        for i, src in enumerate(pdasrc.small_pdas(3)):
            if i % task["parts"] == task["part"] and (i // task["parts"]) % task["stride"] == 0:
                yield from events(dict(src, eps=PEPS[i % 3]))
        for src in pdasrc.SPECIAL:
            yield from events(src)
    elif k == "rnd_pda":
        for i in range(task["count"]):
            yield from events({"kind": "pda_special" if i % 5 == 4 else "pda_rnd", "seed": task["seed"] * 100000 + i,
                               "eps": PEPS[i % 3]})
    elif k == "tm":
        for code in range(task["lo"], task["hi"], task["stride"]):
            yield from events({"kind": "tm_code", "nwork": task["nwork"], "gamma": task["gamma"], "code": code})
            yield from events({"kind": "tm_code", "nwork": task["nwork"], "gamma": task["gamma"], "code": code,
                               "sigma": ""})
    elif k == "rnd_tm":
        for i in range(task["count"]):
            yield from events({"kind": "tm_special" if i % 5 == 4 else "tm_rnd", "seed": task["seed"] * 100000 + i})
    elif k == "re":
        for i, r in enumerate(U.all_regexps(task["ops"], c05.LEAVES)):
            if i % task["parts"] == task["part"]:
                yield from events({"kind": "re", "re": ab.regexp(r), "after_errors": 1 if i % 5 == 2 else 0})
    elif k == "rnd_re":
        for i in range(task["count"]):
            syms = rng.choice(["ab", "abc", "a", "xyz", "01"])
            if i % 5 == 4:
                syms = rng.choice([["ab", "a", "b"], ["q1", "q", "x_1"], ["aa", "a"], ["A", "Ab", "b"]])    # identifiers
            r = U.random_regexp(rng, rng.choice([2, 3, 4, 5, 6, 8]), syms)
            yield from events({"kind": "re", "re": ab.regexp(r), "after_errors": 1 if i % 4 == 1 else 0})
    elif k == "cfg":
        for i, rules in enumerate(cfgsrc.small_grammars(3)):
            if i % task["parts"] == task["part"] and (i // task["parts"]) % task["stride"] == 0:
                yield from events({"kind": "cfg_rules", "rules": [list(r) for r in rules]})
        for rules in cfgsrc.SPECIAL:
            yield from events({"kind": "cfg_rules", "rules": [list(r) for r in rules]})
            yield from events({"kind": "cfg_rules", "rules": [list(r) for r in rules], "eps": "e"})
            # the glyph as an ORDINARY terminal (the grammar's epsilon being "_"): still a simple-format grammar
            yield from events(cfgsrc.eps_as_terminal({"kind": "cfg_rules", "rules": [list(r) for r in rules]}))
    elif k == "rnd_cfg":
        for i in range(task["count"]):
            src = dict(cfgsrc.random_src(rng), eps=rng.choice(["ε", "_", "e"]))
            yield from events(cfgsrc.eps_as_terminal(src) if i % 6 == 5 else src)


def redrive(src):
    yield from _events(src)


MODELS = {"quick": [("RoundTrip", "RoundTrip_dfa.cfg", "print_dfa then the line parser + builder model, all DFA(2,{a,b}) x all "
                     "label orders", {"allow_untaken": True}),
                    ("RoundTrip", "RoundTrip_nfa.cfg", "print_nfa then parser, all NFAs on 2 states over {a} with epsilon",
                     {"allow_untaken": True}),
                    ("RoundTripPT", "RoundTripPT_pda.cfg", "print_pda then parser + PDABuilder, all PDAs on 2 states over {a} / "
                     "{X} with <= 2 moves, all label orders", {"allow_untaken": True}),
                    ("RoundTripPT", "RoundTripPT_tm.cfg", "print_tm then parser + TMBuilder, all TMs on 2 states over {a} with "
                     "<= 2 moves", {"allow_untaken": True}),
                    ("GrammarRT", "GrammarRT_fixed.cfg", "cfg_print_simple then SimpleCFGParser line by line: all rule lists with "
                     "<= 3 rules, right-hand sides <= 2 over {S,A,a,glyph}; the glyph is also a terminal", {"allow_untaken": True})],
          "thorough": [("RoundTrip", "RoundTrip_dfa3.cfg", "all DFA(3,{a,b})", {"allow_untaken": True}),
                       ("RoundTrip", "RoundTrip_nfa2ab.cfg", "all NFAs on 2 states over {a,b} with epsilon", {"allow_untaken": True}),
                       ("RoundTripPT", "RoundTripPT_pda_t.cfg", "all PDAs on 2 states with <= 3 moves", {"allow_untaken": True}),
                       ("RoundTripPT", "RoundTripPT_tm_t.cfg", "all TMs on 3 states over {a}, tape {a,x,blank}, <= 2 moves",
                        {"allow_untaken": True}),
                       ("GrammarRT", "GrammarRT_t.cfg", "grammar round trip, <= 3 rules over {S,A,a,b,glyph}", {"allow_untaken": True})]}
RULE = ("DFAs (DFA(3,{a,b}) under five naming schemes, random incl. empty alphabet and digits), NFAs (NFA(2,{a,b}), "
        "random; epsilon in {U+03B5,_,e}), PDAs (2-state universe, hand-written, random), TMs (all 169 one-state "
        "machines also with empty input alphabet, random with blank in {_,U+25A1,B}), regular expressions (all trees "
        "<= 2 (3) operators, random; every fifth random tree with identifiers of 2-3 characters, in the two syntaxes that "
        "have identifiers) in three syntaxes (every fourth / fifth after a series of texts both parsers must reject), "
        "simple-format grammars (also with the glyph as an ordinary terminal), PDAs / TMs with the special characters the "
        "label syntax allows as stack / tape symbols; print -> parse -> project; "
        "non-trivial = object has >= 2 transitions / operators / rules; distinct = distinct (kind, object)")


def nontrivial(e):
    if e["op"] == "roundtrip_re":
        return str(e["re"]).count("[") > 2
    o = e["obj"]
    return len(o.get("T", o.get("R", []))) >= 2


def symbol_named_0_or_1(e):
    """the expression contains a SYMBOL written 0 or 1 (the digits also denote the constants)"""
    return '["sym", "0"]' in json.dumps(e["re"]) or '["sym", "1"]' in json.dumps(e["re"])


MATCHERS = {"symbol_named_0_or_1": symbol_named_0_or_1}


def check(tier, seed):
    return base.standard_check(PID, tier, seed, tasks(tier, seed), MODELS[tier], RULE, nontrivial, matchers=MATCHERS,
                               assumptions=["state and symbol names the text formats can represent (\\w+ labels, "
                                            "single-character symbols, printable epsilon/blank)",
                                            "character-level lexing (ANTLR, label regexes) is exercised, not modelled"])


def replay(path, seed):
    return base.standard_replay(PID, path, redrive)
