"""C06 - regexp-to-NFA and DFA-to-regexp conversions preserve the language exactly."""
import random

from .. import abstraction as ab
from .. import universe as U
from . import base, gen, c05
from ..worker import guarded

PID = "C06"


def tasks(tier, seed):
    hs = gen.hashseeds(tier, seed)
    ts = []
    if tier == "quick":
        ts += [{"kind": "exh_re", "ops": o, "part": i, "parts": 2} for o in (0, 1, 2) for i in range(2)]
        ts += [{"kind": "rnd_re", "count": 400, "seed": seed * 10 + i} for i in range(2)]
        ts += [{"kind": "rel_re", "count": 100, "seed": seed * 10 + i} for i in range(2)]
        ts += [{"kind": "ctx_re", "which": "star_nullable", "part": i, "parts": 2} for i in range(2)]
        ts += [{"kind": "ctx_re", "which": "rest", "part": i, "parts": 2, "stride": 37} for i in range(2)]
        ts += [dict(t, what="d2r") for t in gen.dfa_src_tasks(3, "ab", 8, stride=3, pools=(0, 1, 2, 3))]
        ts += [dict(t, what="d2r") for t in gen.dfa_src_tasks(2, "abc", 2, stride=7, pools=(0, 2))]
        ts += [{"kind": "rnd_dfa", "count": 250, "seed": seed * 10 + i, "what": "d2r", "maxk": 4,
                "alphabets": ["ab", "abc", "01"]} for i in range(2)]
        ts += [dict(t, what="orders") for t in gen.dfa_src_tasks(3, "ab", 4, stride=41, pools=(0,))]
        ts += [dict(t, what="orders") for t in gen.dfa_src_tasks(2, "ab", 1, stride=1, pools=(0,))]
    else:
        ts += [{"kind": "exh_re", "ops": o, "part": i, "parts": 4} for o in (0, 1, 2) for i in range(4)]
        ts += [{"kind": "exh_re", "ops": 3, "part": i, "parts": 16} for i in range(16)]
        ts += [{"kind": "rnd_re", "count": 2000, "seed": seed * 10 + i} for i in range(16)]
        ts += [{"kind": "rel_re", "count": 400, "seed": seed * 10 + i} for i in range(8)]
        ts += [{"kind": "ctx_re", "which": "star_nullable", "part": i, "parts": 4} for i in range(4)]
        ts += [{"kind": "ctx_re", "which": "rest", "part": i, "parts": 16, "stride": 2} for i in range(16)]
        ts += [dict(t, what="d2r") for t in gen.dfa_src_tasks(3, "ab", 16, pools=(0, 1, 2, 3))]
        ts += [dict(t, what="d2r") for t in gen.dfa_src_tasks(2, "abc", 8, pools=(0, 2))]
        ts += [dict(t, what="d2r") for t in gen.dfa_src_tasks(4, "ab", 32, stride=331, pools=(0, 1, 2, 3))]
        ts += [{"kind": "rnd_dfa", "count": 1200, "seed": seed * 10 + i, "what": "d2r", "maxk": 5,
                "alphabets": ["ab", "abc", "01"]} for i in range(16)]
        ts += [dict(t, what="orders") for t in gen.dfa_src_tasks(3, "ab", 16, stride=3, pools=(0,))]
        ts += [dict(t, what="orders") for t in gen.dfa_src_tasks(2, "ab", 1, stride=1, pools=(0,))]
        ts += [dict(t, what="orders") for t in gen.dfa_src_tasks(4, "ab", 16, stride=4001, pools=(0,))]
    return gen.spread(ts, hs)


def re_events(r, src):
    from gambatools.regexp_algorithms import regexp_to_nfa
    A = ab.regexp(r)
    N, exc = guarded(lambda: regexp_to_nfa(r))
    ev = {"op": "re_to_nfa", "re": A, "exc": exc, "src": dict(src, re=A)}
    if exc == "none":
        ev["res"] = ab.nfa(N)
    yield ev


def dfa_events(src):
    from gambatools.regexp_algorithms import dfa_to_regexp
    D = gen.build_dfa(src)
    if src.get("clash"):
        # states named like the two states state elimination adds
        Q = sorted(D.Q)
        m = {Q[0]: "start"}
        if len(Q) > 1 and src["clash"] > 1:
            m[Q[-1]] = "accept"
        if src["clash"] == 3:
            m = {Q[-1]: "accept"}
        D = U.rename_fa(D, {q: m.get(q, q) for q in D.Q})
    from gambatools import _verif
    pre = ab.dfa(D)
    _verif.take()
    r, exc = guarded(lambda: dfa_to_regexp(D), 30)
    order = [ab.enc(t["q"]) for t in _verif.take() if t["ev"] == "rip"]
    ev = {"op": "dfa_to_re", "fa": pre, "exc": exc, "src": src, "rip_order": order}
    if exc == "none":
        ev["res"] = ab.regexp(r)
    yield ev
    if len(D.Q) <= 3:
        yield from rip_trace(D, pre, src)


def rip_trace(D, pre, src):
    """the two halves of dfa_to_regexp called separately: the labels after dfa_to_gnfa, every ripped state (hook),
    the final label - validated by TLC as a behaviour of the GnfaRip model (same step operator RipLabels)"""
    from gambatools.regexp_algorithms import dfa_to_gnfa, gnfa_minimize
    from gambatools import _verif

    def run():
        G = dfa_to_gnfa(D)
        labels = [[ab.enc(p), ab.enc(q), ab.regexp(t)] for (p, q), t in list(G.delta.items())]
        _verif.take()
        gnfa_minimize(G)
        rips = [ab.enc(t["q"]) for t in _verif.take() if t["ev"] == "rip"]
        return labels, rips, ab.regexp(G.delta[G.q_start, G.q_accept]), ab.enc(G.q_start), ab.enc(G.q_accept)
    out, exc = guarded(run, 30)
    if exc != "none":
        return
    yield {"op": "rip_trace", "fa": pre, "gnfa": out[0], "rips": out[1], "res": out[2], "qs": out[3], "qa": out[4],
           "src": src}


ORDER_NAMES = ["s0", "s1", "s2", "q", "p", "r", "x", "y", "z", "A", "B", "u1", "v2", "w3", "n", "m"]


def all_orders_events(src):
    """(G) every elimination order of a small DFA forced onto the real gnfa_minimize WITHOUT touching the code:
    `for q_rip in Q - {start, accept}` follows the hash order of the state names, so the states are renamed
    (an isomorphic DFA) until the hook has reported each of the k! orders.  Every run is judged like any other
    dfa_to_re / rip_trace event; src records the renaming, so a replay takes the same order."""
    import itertools
    D0 = gen.build_dfa(src)
    Q = sorted(D0.Q)
    want = set(itertools.permutations(range(len(Q))))
    seen = set()
    tries = 0
    if src.get("rename"):
        cands = [tuple(src["rename"])]
    else:
        cands = itertools.permutations(ORDER_NAMES, len(Q))
    for names in cands:
        if seen == want or tries >= 400:
            break
        tries += 1
        D = U.rename_fa(D0, dict(zip(Q, names)))
        pre = ab.dfa(D)
        evs = list(rip_trace(D, pre, dict(src, rename=list(names))))
        if not evs:
            continue
        inv = {ab.enc(n): i for i, n in enumerate(names)}
        order = tuple(inv[q] for q in evs[0]["rips"])
        if order in seen and not src.get("rename"):
            continue
        seen.add(order)
        e = evs[0]
        e["forced_order"] = list(order)
        e["orders_wanted"] = len(want)
        yield e
        # the regexp of the one-call API for the same automaton under the same names: judged for equivalence
        from gambatools.regexp_algorithms import dfa_to_regexp
        r, exc = guarded(lambda: dfa_to_regexp(D), 30)
        ev = {"op": "dfa_to_re", "fa": pre, "exc": exc, "src": dict(src, rename=list(names)), "rip_order": e["rips"]}
        if exc == "none":
            ev["res"] = ab.regexp(r)
        yield ev


def thompson_line(line):
    """(G) one (tree, automaton) pair of spec/Thompson.tla replayed into regexp_to_nfa: property clauses as for
    every re_to_nfa event, plus a binding clause comparing the automaton with the model's, names included"""
    import json
    from gambatools.regexp_algorithms import regexp_to_nfa
    tr = json.loads(line) if isinstance(line, str) else line
    src = {"kind": "thompson_line", "line": tr}
    r = c05.from_abs(tr["re"])
    N, exc = guarded(lambda: regexp_to_nfa(r))
    ev = {"op": "re_to_nfa", "re": ab.regexp(r), "exc": exc, "src": src}
    if exc == "none":
        ev["res"] = ab.nfa(N)
    yield ev
    if exc != "none":
        yield {"op": "sched_replay", "algo": "thompson", "followed": True, "expected": ["ok"], "actual": [exc], "src": src}
        return
    m = tr["res"]
    e = ab.enc(N.epsilon)
    A = ev["res"]
    want = {"Q": sorted(m["Q"]), "S": sorted(m["S"]), "T": sorted([t[0], "eps" if t[1] == "eps" else t[1], t[2]] for t in m["T"]),
            "q0": m["q0"], "F": sorted(m["F"])}
    got = {"Q": sorted(A["Q"]), "S": sorted(A["S"]), "T": sorted([t[0], "eps" if t[1] == e else t[1], t[2]] for t in A["T"]),
           "q0": A["q0"], "F": sorted(A["F"])}
    yield {"op": "sched_replay", "algo": "thompson", "followed": True, "expected": [json.dumps(want, sort_keys=True)],
           "actual": [json.dumps(got, sort_keys=True)], "src": src}


def thompson_tasks(tier, info, parts=4):
    import os
    from .. import tlc, common
    cfg = "Thompson_q.cfg" if tier == "quick" else "Thompson_t.cfg"
    path = os.path.join(common.outdir(PID, "gen"), cfg.replace(".cfg", ".ndjson"))
    n, dist, g = tlc.generate_behaviours("Thompson", cfg, path)
    info[cfg] = n
    step = (n + parts - 1) // parts
    return [{"kind": "thompson_replay", "path": path, "lo": i * step, "hi": min(n, (i + 1) * step), "hashseed": i % 3}
            for i in range(parts) if i * step < n]


def drive(task):
    if task["kind"] == "thompson_replay":
        with open(task["path"]) as f:
            for i, ln in enumerate(f):
                if task["lo"] <= i < task["hi"]:
                    yield from thompson_line(ln)
        return
    if task["kind"] == "exh_re":
        for i, r in enumerate(U.all_regexps(task["ops"], c05.LEAVES)):
            if i % task["parts"] == task["part"]:
                yield from re_events(r, {"kind": "re"})
    elif task["kind"] == "ctx_re":
        for i, r in enumerate(U.context_regexps(task["which"])):
            if i % task["parts"] == task["part"] and (i // task["parts"]) % task.get("stride", 1) == 0:
                yield from re_events(r, {"kind": "re"})
    elif task["kind"] == "rel_re":
        rng = random.Random(task["seed"])
        for i in range(task["count"]):
            for r in U.related_regexps(rng, rng.choice(["ab", "01", "abc"])):
                yield from re_events(r, {"kind": "re"})
    elif task["kind"] == "rnd_re":
        rng = random.Random(task["seed"])
        for i in range(task["count"]):
            r = U.random_regexp(rng, rng.choice([2, 3, 4, 5, 6, 8]), rng.choice(["ab", "abc", "a", "01"]))
            yield from re_events(r, {"kind": "re"})
    elif task.get("what") == "orders":
        for src in gen.dfa_srcs(task):
            yield from all_orders_events(dict(src, orders=1))
    else:
        for i, src in enumerate(gen.dfa_srcs(task)):
            if i % 7 == 6:
                src = dict(src, clash=1 + (i // 7) % 3)
            yield from dfa_events(src)


def redrive(src):
    if src["kind"] == "thompson_line":
        yield from thompson_line(src["line"])
    elif src["kind"] == "re":
        yield from re_events(c05.from_abs(src["re"]), {"kind": "re"})
    elif src.get("orders"):
        yield from all_orders_events(src)
    else:
        yield from dfa_events(src)


_TH = {"allow_untaken": True}
MODELS = {"quick": [("GnfaRip", "GnfaRip_q.cfg", "all DFA(2,{a,b}) x all elimination orders, symbolic edge languages"), ("GnfaRip", "GnfaRip_t2.cfg", "all DFA(3,{a,b}) x all 6 elimination orders"),
                    ("Thompson", "ThompsonM_q.cfg", "regexp_to_nfa as the code builds it (generator names, shared alphabet) on all "
                     "trees with <= 2 operators: valid, same language, names never clash", _TH)],
          "thorough": [("GnfaRip", "GnfaRip_q.cfg", "all DFA(2,{a,b}) x all elimination orders"),
                       ("Thompson", "ThompsonM_t.cfg", "regexp_to_nfa model on all trees with <= 3 operators", _TH),
                       ("GnfaRip", "GnfaRip_t.cfg", "all DFA(3,{a}) x all 6 elimination orders"), ("GnfaRip", "GnfaRip_t2.cfg", "all DFA(3,{a,b}) x all 6 elimination orders")]}
RULE = ("regexp->NFA on all trees with <= 2 (3) operators over {0,1,a,b}, CONTEXT[CORE] trees of depth <= 4 (every core with "
        "1-2 operators in every one-hole context with 1-2 operators over {1,a,b}: all of them for cores that are a star over "
        "a nullable expression, every 37th (2nd) otherwise) and random trees up to 8 operators (alphabets "
        "incl. {0,1}); DFA->regexp on DFA(3,{a,b}) (strided in quick), DFA(2,{a,b,c}), random DFAs up to 5 states, under "
        "four state-naming schemes and several hash seeds (= elimination orders); equivalence decided exactly; for DFAs "
        "with <= 3 states the labels after dfa_to_gnfa, every ripped state (hook) and the final label are validated "
        "as a behaviour of GnfaRip.tla (operator RipLabels, exact regexp trees); every (tree, automaton) pair of "
        "Thompson.tla replayed into regexp_to_nfa and compared structurally; "
        "non-trivial = more than one operator / DFA with >= 2 states; distinct = distinct input")


def nontrivial(e):
    if e["op"] == "sched_replay":
        return True
    if e["op"] == "re_to_nfa":
        return str(e["re"]).count("[") > 2
    return len(e["fa"]["Q"]) >= 2


def _rip_lines(done):
    for _, path, _ in done:
        with open(path) as f:
            for ln in f:
                if '"rip_trace"' in ln:
                    yield ln


def rip_orders(res, done):
    """which elimination orders (as permutations of the sorted state names) were observed"""
    import json
    seen = {}
    for _, path, _ in done:
        with open(path) as f:
            for ln in f:
                if '"dfa_to_re"' not in ln:
                    continue
                e = json.loads(ln)
                Q = sorted(e["fa"]["Q"])
                if len(Q) in (2, 3) and len(e.get("rip_order", [])) == len(Q):
                    perm = tuple(Q.index(q) for q in e["rip_order"])
                    seen.setdefault(len(Q), {}).setdefault(str(perm), 0)
                    seen[len(Q)][str(perm)] += 1
    forced = {}
    for ln in _rip_lines(done):
        if '"forced_order"' in ln:
            e = json.loads(ln)
            key = json.dumps({k: v for k, v in e["src"].items() if k != "rename"}, sort_keys=True)
            forced.setdefault(key, [e["orders_wanted"], set()])[1].add(tuple(e["forced_order"]))
    res.notes["elimination_orders_forced_by_renaming"] = {
        "automata": len(forced), "orders_wanted": sum(v[0] for v in forced.values()),
        "orders_taken_by_the_code": sum(len(v[1]) for v in forced.values()),
        "note": "for each of these DFAs the states were renamed until gnfa_minimize (unchanged code) had eliminated them in "
                "every one of the k! orders; each run validated against GnfaRip!RipLabels and judged for equivalence"}
    if forced and sum(len(v[1]) for v in forced.values()) < sum(v[0] for v in forced.values()):
        res.notes["elimination_orders_forced_by_renaming"]["incomplete"] = True
    res.notes["rip_traces_validated_against_GnfaRip"] = sum(1 for _ in _rip_lines(done))
    res.notes["elimination_orders_observed"] = {"by_number_of_states": seen,
                                                "note": "GnfaRip.tla checks ALL orders; the hook reports which ones the hash "
                                                        "seeds and naming schemes of this run produced"}


def check(tier, seed):
    info = {}
    ts = tasks(tier, seed) + thompson_tasks(tier, info)

    def extra(res, done):
        rip_orders(res, done)
        res.notes["model_behaviours_replayed_into_impl"] = info

    return base.standard_check(PID, tier, seed, ts, MODELS[tier], RULE, nontrivial, extra=extra,
                               assumptions=[                                            "single-character symbols"])


def replay(path, seed):
    return base.standard_replay(PID, path, redrive)
