"""EXTRA - growth beyond the listed properties (not registered in MANIFEST.json; properties.jsonl is fixed):
public functions no listed property covers, judged against spec/JEXTRA.tla.  ./check EXTRA quick"""
import random

from .. import abstraction as ab
from .. import universe as U
from . import base, gen, cfgsrc, pdasrc
from ..worker import guarded

PID = "EXTRA"


def tasks(tier, seed):
    hs = gen.hashseeds(tier, seed)
    n = 300 if tier == "quick" else 3000
    return gen.spread([{"kind": "mix", "count": n, "seed": seed * 10 + i} for i in range(4 if tier == "quick" else 16)], hs)


def right_linear(rng):
    vars_ = "SAB"[: rng.randint(1, 3)]
    rules = []
    for _ in range(rng.randint(1, 6)):
        lhs = rng.choice(vars_)
        c = rng.random()
        if c < 0.2:
            rules.append((lhs, ""))
        elif c < 0.35:
            rules.append((lhs, rng.choice(vars_)))
        else:
            rules.append((lhs, rng.choice("ab") + rng.choice(vars_)))
    if not any(l == "S" for l, _ in rules):
        rules.insert(0, ("S", ""))
    i = next(i for i, (l, _) in enumerate(rules) if l == "S")
    rules.insert(0, rules.pop(i))
    return rules


def events(seed):
    import gambatools.cfg_algorithms as ca
    import gambatools.dfa_algorithms as da
    import gambatools.nfa_algorithms as na
    import gambatools.regexp_algorithms as ra
    import gambatools.pda_algorithms as pa
    import gambatools.automata_checker as ac
    rng = random.Random(seed)
    src = {"kind": "extra", "seed": seed}
    # grammar clean-up
    G = cfgsrc.build(cfgsrc.random_src(rng))
    for name, fn in (("remove_inproductive", ca.cfg_remove_inproductive_variables), ("remove_useless", ca.cfg_remove_useless_rules)):
        pre = ab.cfg(G)
        R, exc = guarded(lambda: fn(G))
        ev = {"op": "cfg_cleanup", "name": name, "pre": pre, "post": ab.cfg(G), "exc": exc, "n": 3, "src": src}
        if exc == "none":
            ev["res"] = ab.cfg(R)
        yield ev
    # right-linear grammar -> NFA
    H = U.make_cfg(right_linear(rng), Sigma="ab")
    N, exc = guarded(lambda: ca.cfg_to_nfa(H))
    ev = {"op": "cfg_to_fa", "kind": "nfa", "cfg": ab.cfg(H), "exc": exc, "n": 3, "src": src}
    if exc == "none":
        ev["res"] = ab.nfa(N)
    yield ev
    # random generators
    random.seed(seed)
    k = rng.randint(1, 5)
    S = set(rng.choice(["a", "ab", "abc"]))
    D, exc = guarded(lambda: da.random_dfa(S, k))
    if exc == "none":
        yield {"op": "random_obj", "kind": "dfa", "obj": ab.dfa(D), "size": k, "src": src}
    N2, exc = guarded(lambda: na.random_nfa(S, k))
    if exc == "none":
        yield {"op": "random_obj", "kind": "nfa", "obj": ab.nfa(N2), "size": k, "src": src}
    size = rng.randint(0, 7)
    r, exc = guarded(lambda: ra.random_regexp(S, size))
    if exc == "none":
        yield {"op": "random_obj", "kind": "re", "obj": ab.regexp(r), "size": size, "sigma": sorted(S),
               "libsize": ra.regexp_size(r), "libsyms": sorted(ab.enc(x.symbol) for x in ra.regexp_symbols(r)), "src": src}
    # automata_checker
    D2 = U.random_dfa(rng, rng.randint(1, 3), "ab")
    n = 3
    lang = da.dfa_words_up_to_n(D2, n)
    if rng.random() < 0.5 and lang:
        lang = set(lang) - {rng.choice(sorted(lang))}
    elif rng.random() < 0.3:
        lang = set(lang) | {"abab"[: rng.randint(1, 3)]}
    trans = [(p, a, q) for (p, a), q in D2.delta.items()]
    res, exc = guarded(lambda: ac.check_dfa_for_given_language(set(D2.Q), trans, {D2.q0}, set(D2.F),
                                                               " ".join(w if w else "ε" for w in sorted(lang)), n))
    if exc == "none":
        yield {"op": "automata_checker", "fa": ab.dfa(D2), "expected": ab.words(lang), "n": n,
               "correct": bool(res["correct"]), "src": src}
    # dfa_reachable_states
    q = rng.choice(sorted(D2.Q))
    for depth in (0, 1):
        R, exc = guarded(lambda: da.dfa_reachable_states(D2, q, depth))
        if exc == "none":
            yield {"op": "reachable", "fa": ab.dfa(D2), "q": ab.enc(q), "depth": depth, "res": ab.sset(R), "src": src}
    # pda_is_push_pop
    P = pdasrc.build({"kind": "pda_rnd", "seed": seed})
    v, exc = guarded(lambda: pa.pda_is_push_pop(P))
    if exc == "none":
        yield {"op": "is_push_pop", "pda": ab.pda(P), "res": bool(v), "src": src}

    # right-linear grammar -> DFA (deterministic ones only: one move per (variable, letter))
    det = []
    seen = set()
    for lhs, rhs in right_linear(rng):
        if len(rhs) == 2 and (lhs, rhs[0]) in seen:
            continue
        if len(rhs) == 1:
            continue                       # unit rules are not transitions of a DFA
        if len(rhs) == 2:
            seen.add((lhs, rhs[0]))
        det.append((lhs, rhs))
    if not any(l == "S" for l, _ in det):
        det.insert(0, ("S", ""))
    i = next(i for i, (l, _) in enumerate(det) if l == "S")
    det.insert(0, det.pop(i))
    H2 = U.make_cfg(det, Sigma="ab")
    D3, exc = guarded(lambda: ca.cfg_to_dfa(H2, False))
    if exc == "none":
        # cfg_to_dfa(check_validity=False) may return a partial DFA: it is judged as an automaton (missing move = reject)
        yield {"op": "cfg_to_fa", "kind": "nfa", "via": "cfg_to_dfa", "cfg": ab.cfg(H2), "exc": exc, "n": 3, "src": src,
               "res": ab.dfa(D3)}
    # automata_checker for NFAs
    N3 = U.random_nfa(rng, rng.randint(1, 3), "ab", eps="ε", prefix="q")
    lang3 = na.nfa_words_up_to_n(N3, n)
    if rng.random() < 0.5 and lang3:
        lang3 = set(lang3) - {rng.choice(sorted(lang3))}
    elif rng.random() < 0.3:
        lang3 = set(lang3) | {"abab"[: rng.randint(1, 3)]}
    trans3 = [(p, a, q) for (p, a), qs in N3.delta.items() for q in qs]
    res, exc = guarded(lambda: ac.check_nfa_for_given_language(set(N3.Q), trans3, {N3.q0}, set(N3.F),
                                                               " ".join(w if w else "ε" for w in sorted(lang3)), n))
    if exc == "none":
        yield {"op": "automata_checker", "fa": ab.nfa(N3), "expected": ab.words(lang3), "n": n,
               "correct": bool(res["correct"]), "src": src}
    # the notebook's convenience wrappers: text in, answer out
    import io, contextlib
    import gambatools.notebook as nb
    from . import chk
    kind = rng.choice(["dfa", "nfa", "re", "cfg", "pda", "tm"])
    X, pr, _, absfn, _ = chk._kind_obj(rng, kind)
    fn = {"dfa": nb.dfa_language, "nfa": nb.nfa_language, "re": nb.regexp_language, "cfg": nb.cfg_language,
          "pda": nb.pda_language, "tm": nb.tm_language}[kind]
    length = rng.randint(0, 3)
    buf = io.StringIO()

    def call_lang():
        with contextlib.redirect_stdout(buf):
            return fn(pr(X), length)
    representable = kind != "pda" or all(len(str(g)) == 1 for g in X.Gamma)   # the text format has one-character symbols
    txt, exc = guarded(call_lang) if representable else (None, "none")
    if not representable:
        pass
    elif exc == "none" and isinstance(txt, str) and txt.startswith("{") and txt.endswith("}"):
        ws = [w for w in txt[1:-1].split(", ") if w != ""]
        yield {"op": "nb_language", "kind": kind, "obj": absfn(X), "length": length,
               "words": [ab.word("" if w == "ε" else w) for w in ws], "exc": "none", "src": src}
    elif exc != "none" or txt is None:
        yield {"op": "nb_language", "kind": kind, "obj": absfn(X), "length": length, "words": [],
               "exc": exc if exc != "none" else "Error_" + ab.enc(buf.getvalue()[:60]), "src": src}
    kind2 = rng.choice(["nfa", "re"])
    Y, prY, _, absY, _ = chk._kind_obj(rng, kind2)
    w = "".join(rng.choice("ab") for _ in range(rng.randint(0, 4)))
    res, exc = guarded(lambda: (nb.nfa_accepts if kind2 == "nfa" else nb.regexp_accepts)(prY(Y), w))
    if exc == "none" and res is not None:
        yield {"op": "nb_accepts", "kind": kind2, "obj": absY(Y), "word": ab.word(w), "res": bool(res), "exc": "none", "src": src}
    N4 = U.random_nfa(rng, rng.randint(1, 4), "ab", eps="ε", prefix="q")
    cnt = len(N4.Q) + rng.choice([0, 0, 1, -1])
    v, _, exc, out = chk.run_checker(nb.check_number_of_nfa_states, na.print_nfa(N4), cnt)
    yield {"op": "nb_count", "obj": ab.nfa(N4), "count": cnt, "verdict": v, "exc": exc, "src": src}


    # fresh names
    rng = random.Random(seed + 5)
    hint = rng.choice(["q", "P", "trap", "M", "q_accept"])
    n_used = rng.choice([0, 1, 3, 9, 10, 11, 12])
    used = {"%s%d" % (hint, i) for i in range(1, n_used + 1)} | set(rng.sample(["a", "q", "P", hint, hint + "0", hint + "01"], 2))
    if rng.random() < 0.4 and n_used > 2:
        used.discard("%s%d" % (hint, rng.randint(1, n_used)))          # a gap
    r, exc = guarded(lambda: da.fresh_state(set(used), hint))
    if exc == "none":
        yield {"op": "fresh", "fn": "fresh_state", "used": sorted(used), "hint": hint, "plain_first": False, "res": r, "src": src}
    from gambatools.automaton_algorithms import AutomatonBuilder, default_state_label_regex
    try:
        B = AutomatonBuilder(default_state_label_regex(), None, None)
        r, exc = guarded(lambda: B._fresh_state(set(used), hint))
        if exc == "none":
            yield {"op": "fresh", "fn": "_fresh_state", "used": sorted(used), "hint": hint, "plain_first": True, "res": r, "src": src}
    except TypeError:
        pass
    from gambatools.identifier_generator import IdentifierGenerator
    start = rng.choice([0, 1, 8, 9, 10, 99])
    g = IdentifierGenerator(start)
    hints = [rng.choice(["q", "s", "x1"]) for _ in range(rng.randint(1, 4))]
    res, exc = guarded(lambda: [g.generate(h) for h in hints])
    if exc == "none":
        yield {"op": "idgen", "start": start, "hints": hints, "res": res, "index_after": g.index, "src": src}


def drive(task):
    for i in range(task["count"]):
        yield from events(task["seed"] * 100000 + i)


def redrive(src):
    yield from events(src["seed"])


RULE = ("seeded mix: grammar clean-up functions, right-linear grammar -> NFA, the random object generators, "
        "automata_checker, dfa_reachable_states, pda_is_push_pop, the fresh-name functions (fresh_state, "
        "AutomatonBuilder._fresh_state, IdentifierGenerator) with 0-12 used names; non-trivial = result differs from input / answer not "
        "trivially true; distinct = distinct event")


def nontrivial(e):
    return e.get("res") != e.get("pre")


def check(tier, seed):
    return base.standard_check(PID, tier, seed, tasks(tier, seed), [], RULE, nontrivial,
                               assumptions=["not a listed property: growth of the specification's coverage"])


def replay(path, seed):
    return base.standard_replay(PID, path, redrive)
