"""C01 - DFA and NFA word acceptance equals the textbook language definition."""
import random

from .. import abstraction as ab
from .. import universe as U
from . import base

PID = "C01"
EPSS = ["", "ε", "_", "e"]


def tasks(tier, seed):
    ts = []
    hs = [0, 1, seed % 1000 + 2]
    if tier == "quick":
        total = U.nfa_count(2, "ab")
        step = total // 12
        for i in range(12):
            ts.append({"kind": "exh_nfa", "k": 2, "S": "ab", "lo": i * step, "hi": (i + 1) * step, "stride": 1,
                       "eps": EPSS[i % 4], "n": 3, "hashseed": hs[i % 3]})
        for i in range(4):
            ts.append({"kind": "rnd", "count": 1200, "seed": seed * 100 + i, "n": 4, "hashseed": hs[i % 3]})
    else:
        total = U.nfa_count(2, "ab")
        step = total // 16
        for i in range(16):
            ts.append({"kind": "exh_nfa", "k": 2, "S": "ab", "lo": i * step, "hi": (i + 1) * step, "stride": 1,
                       "eps": EPSS[i % 4], "n": 4, "hashseed": i})
        total = U.nfa_count(3, "a")
        step = total // 32
        for i in range(32):
            ts.append({"kind": "exh_nfa", "k": 3, "S": "a", "lo": i * step, "hi": (i + 1) * step, "stride": 7,
                       "eps": EPSS[i % 4], "n": 4, "hashseed": i % 16})
        for i in range(32):
            ts.append({"kind": "rnd", "count": 3000, "seed": seed * 100 + i, "n": 4, "hashseed": i % 16})
    return ts


def _events_for(N, n, src, rng):
    from gambatools.nfa_algorithms import epsilon_closure, nfa_accepts_word
    from gambatools.dfa_algorithms import dfa_accepts_word
    from gambatools.dfa import DFA
    if isinstance(N, DFA):
        acc = [w for w in U.words_upto(N.Sigma, n) if dfa_accepts_word(N, w)]
        yield {"op": "accepts_all", "kind": "dfa", "fa": ab.dfa(N), "n": n, "accepted": ab.words(acc), "src": src}
        return
    Q = sorted(N.Q)
    cases = []
    for q in Q:
        r1 = N.E(q)
        keep = set(r1)
        r1.clear()                       # a caller may do what it likes with a returned set
        r2 = N.E(q)                      # asked again through the same object
        r3 = epsilon_closure(N, q)
        cases.append({"arg": [ab.enc(q)], "res": ab.sset(keep)})
        cases.append({"arg": [ab.enc(q)], "res": ab.sset(r2)})
        cases.append({"arg": [ab.enc(q)], "res": ab.sset(r3)})
    sets = list(U.subsets(Q)) if len(Q) <= 3 else [set(rng.sample(Q, rng.randint(0, len(Q)))) for _ in range(6)]
    for X in sets:
        arg = set(X)
        r = N.E(arg)
        cases.append({"arg": ab.sset(X), "res": ab.sset(r)})
        r.add("<clobbered>")
        cases.append({"arg": ab.sset(X), "res": ab.sset(N.E(set(X)))})
        if arg != X:
            cases.append({"arg": ab.sset(X), "res": ["<argument mutated>"]})
    yield {"op": "eclose", "fa": ab.nfa(N), "cases": cases, "src": src}
    # (T) one observed execution of the closure loop, choice by choice (hooks of gambatools/_verif.py)
    from gambatools import _verif
    if _verif.ON and Q:
        q = Q[rng.randrange(len(Q))] if len(Q) > 3 else None
        X = {q} if q else set(rng.sample(Q, rng.randint(1, len(Q))))
        _verif.take()
        r = epsilon_closure(N, set(X))
        tr = _verif.take()
        if tr and tr[0]["ev"] == "ec.start":
            yield {"op": "ec_trace", "fa": ab.nfa(N), "start": [ab.enc(x) for x in tr[0]["start"]],
                   "pops": [{"q": ab.enc(t["q"]), "result": [ab.enc(x) for x in t["result"]],
                             "todo": [ab.enc(x) for x in t["todo"]]} for t in tr[1:] if t["ev"] == "ec.pop"],
                   "res": ab.sset(r), "src": src}
    acc = [w for w in U.words_upto(N.Sigma, n) if nfa_accepts_word(N, w)]
    yield {"op": "accepts_all", "kind": "nfa", "fa": ab.nfa(N), "n": n, "accepted": ab.words(acc), "src": src}
    # history: the same object is changed in place (one target of one move replaced, so all sizes stay
    # the same) and asked again
    keys = [k for k, v in N.delta.items() if v]
    if keys and len(Q) >= 2 and "mut" not in src:
        k = keys[rng.randrange(len(keys))]
        old = sorted(N.delta[k])[0]
        new = [q for q in Q if q not in N.delta[k]]
        if new:
            N.delta[k].discard(old)
            N.delta[k].add(new[rng.randrange(len(new))])
            cases2 = [{"arg": [ab.enc(q)], "res": ab.sset(N.E(q))} for q in Q]
            yield {"op": "eclose", "fa": ab.nfa(N), "cases": cases2, "src": dict(src, mut=1)}
            acc = [w for w in U.words_upto(N.Sigma, n) if nfa_accepts_word(N, w)]
            yield {"op": "accepts_all", "kind": "nfa", "fa": ab.nfa(N), "n": n, "accepted": ab.words(acc),
                   "src": dict(src, mut=1)}


def build(src):
    """reconstruct the concrete object of a case from its src record"""
    if src["kind"] == "exh_nfa":
        return U.nfa_from_code(src["k"], src["S"], src["code"], src["eps"])
    rng = random.Random(src["seed"])
    return _random_obj(rng)


def _random_obj(rng):
    c = rng.random()
    S = rng.choice(["a", "ab", "ab", "abc", "01"])
    if c < 0.25:
        D = U.random_dfa(rng, rng.randint(1, 6), S, prefix=rng.choice(["s", "q", ""]))
        if rng.random() < 0.3:
            old = rng.choice(sorted(D.Q))           # the empty string is a legal state name
            D = U.rename_fa(D, {q: ("" if q == old else q) for q in D.Q})
        return D
    k = rng.randint(1, 6)
    eps = rng.choice(EPSS)
    if eps in S:
        eps = ""
    if c < 0.35:
        return U.chain_nfa(rng, rng.choice([5, 6, 7, 8, 10, 11, 13, 16]), S[:2], eps=eps, prefix=rng.choice(["s", "q", "x"]))
    N = U.random_nfa(rng, k, S, eps=eps, prefix=rng.choice(["s", "q", "x"]), total=rng.random() < 0.3)
    if rng.random() < 0.15:
        old = rng.choice(sorted(N.Q))
        N = U.rename_fa(N, {q: ("" if q == old else q) for q in N.Q})
    return N


def drive(task):
    if task["kind"] == "sched_replay":
        from .. import schedule_replay
        yield from schedule_replay.drive_file(task["path"], task["lo"], task["hi"], task.get("stride", 1))
        return
    rng = random.Random(task.get("seed", 0))
    if task["kind"] == "exh_nfa":
        for code in range(task["lo"], task["hi"], task.get("stride", 1)):
            src = {"kind": "exh_nfa", "k": task["k"], "S": task["S"], "code": code, "eps": task["eps"], "n": task["n"]}
            yield from _events_for(build(src), task["n"], src, rng)
    else:
        for i in range(task["count"]):
            src = {"kind": "rnd", "seed": task["seed"] * 100000 + i, "n": task["n"]}
            N = build(src)
            n = task["n"] if len(N.Sigma) <= 2 else min(task["n"], 3)
            src["n"] = n
            yield from _events_for(N, n, src, rng)


def redrive(src):
    if src["kind"] == "gen_line":
        from .. import schedule_replay
        yield from schedule_replay.replay_line(src["line"])
        return
    rng = random.Random(0)
    yield from _events_for(build(src), src["n"], src, rng)


MODELS = {
    "quick": [("EpsClosure", "EpsClosure_q.cfg", "NFA graphs on 3 states, all start sets, all pop orders"),
              ("NfaRun", "NfaRun_q.cfg", "all NFA(2,{a,b}) x words <= 2")],
    "thorough": [("EpsClosure", "EpsClosure_t.cfg", "eps graphs on 4 states, all start sets, all pop orders"),
                 ("NfaRun", "NfaRun_t.cfg", "all NFA(2,{a,b}) x words <= 3")],
}

RULE = ("every NFA of NFA(2,{a,b}) (exhaustive) + seeded random NFAs/DFAs with 1-6 states, 1-3 symbols, "
        "eps in {'', U+03B5, _, e}, defaultdict-partial and total tables; per automaton one 'eclose' event "
        "(closure of every state twice with the first result clobbered, of every/sampled state set) and one "
        "'accepts_all' event (verdict for every word up to n); non-trivial = automaton has at least one "
        "epsilon edge or is a DFA with >= 2 states; distinct = distinct abstract automaton")


def nontrivial(e):
    if e["op"] == "sched_replay":
        return True
    if e["op"] == "ec_trace":
        return len(e["pops"]) >= 2
    fa = e["fa"]
    return any(t[1] == fa["eps"] for t in fa["T"]) or len(fa["Q"]) >= 2


def check(tier, seed):
    from .. import tlc

    def extra(res, done):
        # unbounded partial correctness of the closure loop (any Q, any E): TLAPS, spec/proofs/EpsClosureProof.tla
        n = tlc.run_tlaps("EpsClosureProof")
        res.notes["tlaps"] = {"module": "spec/proofs/EpsClosureProof.tla", "obligations_proved": n,
                              "theorems": ["InitInv", "NextInv", "Invariance", "ExactAtTermination"],
                              "meaning": "for every state set, edge relation and start set the closure loop's result is "
                                         "exactly the least E-closed superset of the start set when it stops"}

    from .. import schedule_replay
    info = {}
    ts = tasks(tier, seed) + schedule_replay.gen_tasks(PID, "ec", tier, info, quick_stride=2)
    extra0 = extra

    def extra(res, done):            # noqa
        extra0(res, done)
        res.notes["model_schedules_forced_onto_impl"] = info

    return base.standard_check(PID, tier, seed, ts, MODELS[tier], RULE, nontrivial, extra=extra,
                               assumptions=["single-character symbols (words are strings)",
                                            "bounded universes: <= 6 states, words <= 4"])


def replay(path, seed):
    return base.standard_replay(PID, path, redrive)
