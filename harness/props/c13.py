"""C13 - the library's own answers pass its checkers (generator + printer + parser + checker composed)."""
import os
import random

from .. import abstraction as ab
from .. import universe as U
from . import base, gen, chk, cfgsrc
from ..worker import guarded

PID = "C13"
TYPES = ["nfa2dfa", "dfa2regexp", "dfa_union", "dfa_intersection", "dfa_symmetric_difference", "dfa_complement",
         "dfa_reverse", "dfa_minimize", "dfa_hopfcroft", "chomsky1", "chomsky2", "chomsky3", "chomsky4", "chomsky5",
         "cfg_cyk_matrix", "cfg_leftmost_derivation", "cfg_rightmost_derivation", "generate/dfa", "generate/nfa",
         "generate/cfg", "generate/regexp"]
EXAMPLES = "/repo/examples"


def tasks(tier, seed):
    hs = gen.hashseeds(tier, seed)
    n = 25 if tier == "quick" else 200
    ts = [{"kind": "type", "type": t, "lo": seed * 100000, "count": n * 3 if t in ("nfa2dfa", "dfa_minimize", "dfa_hopfcroft") else n} for t in TYPES]
    ts.append({"kind": "examples"})
    return gen.spread(ts, hs)


def dfa_text(rng, alphabets=("a", "ab", "ab", "abc", "01")):
    import gambatools.dfa_algorithms as da
    D = U.random_dfa(rng, rng.randint(1, 4), rng.choice(alphabets), prefix=rng.choice(["s", "q", "p"]))
    if rng.random() < 0.3:
        # a declared state nothing leads to, with moves and acceptance of its own (the exercises are about the DECLARED
        # automaton: the minimisation checkers count the classes of all its states)
        qs = sorted(D.Q)
        for a in sorted(D.Sigma):
            D.delta["zz", a] = rng.choice(qs + ["zz"])
        D.Q.add("zz")
        if rng.random() < 0.5:
            D.F.add("zz")
    return D, da.print_dfa(D)


def cloned_dfa_text(rng):
    """5-9 states in classes of 2-3 EQUIVALENT states: a small DFA whose every state is cloned, each clone moving to
    a random clone of the original target (so equivalent states move among themselves, and the refinement has to
    keep whole classes together while it splits the blocks around them)"""
    import gambatools.dfa_algorithms as da
    from gambatools.dfa import DFA
    B = U.random_dfa(rng, rng.randint(2, 4), rng.choice(["ab", "abc", "abc"]), prefix="b")
    copies = {q: ["%s%s" % (q, "xyz"[i]) for i in range(rng.randint(2, 3) if len(B.Q) < 4 else rng.randint(1, 2) + (q == B.q0))]
              for q in sorted(B.Q)}
    names = [c for q in sorted(copies) for c in copies[q]]
    alias = dict(zip(names, rng.sample(["s%d" % i for i in range(len(names))], len(names))))
    delta = {}
    for q in sorted(B.Q):
        for c in copies[q]:
            for a in sorted(B.Sigma):
                delta[alias[c], a] = alias[rng.choice(copies[B.delta[q, a]])]
    D = DFA({alias[c] for c in names}, set(B.Sigma), delta, alias[copies[B.q0][0]],
            {alias[c] for q in B.F for c in copies[q]})
    return D, da.print_dfa(D)


def one(typ, seed):
    import make_notebook as mk
    import gambatools.dfa_algorithms as da
    import gambatools.nfa_algorithms as na
    import gambatools.cfg_algorithms as ca
    import gambatools.notebook as nb
    import gambatools.notebook_dfa as nd
    import gambatools.notebook_nfa2dfa as nn
    import gambatools.notebook_cfg as nc
    import gambatools.notebook_chomsky as nch
    from gambatools.regexp import print_regexp_simple
    rng = random.Random("%s/%d" % (typ, seed))
    src = {"kind": "c13", "type": typ, "seed": seed}
    tag = "%s_%d_%d" % (typ.replace("/", "_"), seed, os.getpid())
    ref = {}

    def finish(verdict, out, exc):
        return {"op": "selfcheck", "family": typ, "verdict": verdict if exc == "none" else "raised_" + exc,
                "out": ab.enc(out), "ref": ref, "src": src}

    def chain(cmd, args, checker, mkargs):
        ans, exc = guarded(lambda: mk.apply_command(cmd, args), 60)
        if exc != "none":
            return finish("generator", "", exc)
        if seed % 3 == 1:
            # history: the same checker is first given an empty, a garbled and a truncated answer (a student's earlier
            # attempts; what it says about them is C12's business) - then the library's own answer
            for bogus in ("", "@@ -> ( $", ans[: len(ans) // 2]):
                try:
                    chk.run_checker(checker, *mkargs(bogus))
                except Exception:
                    pass
            ref["after_wrong_attempts"] = 1
        v, cex, exc, out = chk.run_checker(checker, *mkargs(ans))
        ref["answer"] = ab.enc(ans)[:400]
        return finish(v, out, exc)

    if typ == "nfa2dfa":
        N = U.random_nfa(rng, rng.randint(1, 4), rng.choice(["a", "ab", "01"]), eps=rng.choice(["ε", "_"]), prefix="q")
        if rng.random() < 0.5:
            # state names that are substrings / prefixes of each other (generated names beyond q9 look like this)
            pool = rng.choice([["q1", "q10", "q11", "q"], ["q", "q1", "qq", "q1q"], ["s2", "s", "s22", "2s"], ["x", "xy", "y", "yx"]])
            N = U.rename_fa(N, {q: pool[i] for i, q in enumerate(sorted(N.Q))})
            if rng.random() < 0.6:
                # exactly the states whose name is a proper substring of another state's name are accepting
                sub = {q for q in N.Q if any(q != r and q in r for r in N.Q)}
                if sub and sub != set(N.Q):
                    N.F = set(sub)
        t = na.print_nfa(N)
        ref["nfa"] = ab.nfa(N)
        f = chk.write(tag + ".nfa", t)
        return chain("nfa2dfa", [f], nn.check_nfa2dfa, lambda a: (t, a))
    if typ == "dfa2regexp":
        D, t = dfa_text(rng)
        ref["dfa"] = ab.dfa(D)
        f = chk.write(tag + ".dfa", t)
        return chain("dfa2regexp", [f], nb.check_dfa2regexp, lambda a: (t, a))
    if typ in ("dfa_union", "dfa_intersection", "dfa_symmetric_difference"):
        S = rng.choice(["a", "ab", "01"])
        D1 = U.random_dfa(rng, rng.randint(1, 3), S, prefix="p")
        D2 = U.random_dfa(rng, rng.randint(1, 3), S, prefix="r")
        t1, t2 = da.print_dfa(D1), da.print_dfa(D2)
        ref["d1"], ref["d2"] = ab.dfa(D1), ab.dfa(D2)
        f1, f2 = chk.write(tag + "_1.dfa", t1), chk.write(tag + "_2.dfa", t2)
        checker = {"dfa_union": nd.check_dfa_union, "dfa_intersection": nd.check_dfa_intersection,
                   "dfa_symmetric_difference": nd.check_dfa_symmetric_difference}[typ]
        return chain(typ, [f1, f2], checker, lambda a: (a, t1, t2))
    if typ in ("dfa_complement", "dfa_reverse", "dfa_minimize", "dfa_hopfcroft"):
        D, t = dfa_text(rng)
        if typ in ("dfa_minimize", "dfa_hopfcroft") and seed % 2:
            D, t = cloned_dfa_text(rng)
        ref["dfa"] = ab.dfa(D)
        f = chk.write(tag + ".dfa", t)
        if typ == "dfa_complement":
            return chain(typ, [f], nd.check_dfa_complement, lambda a: (t, a))
        if typ == "dfa_reverse":
            return chain(typ, [f], nd.check_dfa_reverse, lambda a: (t, a, 8))
        return chain(typ, [f], nd.check_dfa_minimal, lambda a: (t, a))
    if typ.startswith("chomsky") or typ.startswith("cfg_") or typ == "generate/cfg":
        cnf = typ.startswith("cfg_")
        G = chk.simple_grammar(rng, cnf=cnf)
        if G is None:
            return None
        t = ca.cfg_print_simple(G)
        if not cnf and rng.random() < 0.4 and any(not r.alternative.symbols for r in G.R):
            # the reference file declares its own epsilon symbol (epsilon = x)
            sym = next(c for c in "exyz" if c not in G.Sigma)
            t = "epsilon = %s\n" % sym + t.replace("ε", sym)
            ref["epsilon"] = sym
        ref["cfg"] = ab.cfg(G)
        f = chk.write(tag + ".cfg", t)
        if typ.startswith("chomsky"):
            start = next(c for c in "TZYXW" if c not in G.V)
            return chain(typ, [f, start], nch.cfg_check_chomsky, lambda a: (t, a, int(typ[-1]), start, 4))
        if typ == "generate/cfg":
            return chain("generate", [f, "4"], nb.check_cfg_language_from_words, lambda a: (t, a, 4))
        ws = sorted(w for w in ca.cfg_words_up_to_n(G, 4) if w)
        if not ws:
            return None
        w = rng.choice(ws)
        ref["w"] = w
        if typ == "cfg_cyk_matrix":
            return chain(typ, [f, w], nc.check_cyk_matrix, lambda a: (t, w, a))
        mode = "leftmost" if "leftmost" in typ else "rightmost"
        return chain(typ, [f, w], nc.check_cfg_derivation, lambda a: (t, a, w, mode))
    if typ == "generate/dfa":
        D, t = dfa_text(rng)
        ref["dfa"] = ab.dfa(D)
        f = chk.write(tag + ".dfa", t)
        return chain("generate", [f, "5"], nb.check_dfa_language_from_words, lambda a: (t, a, 5, 0))
    if typ == "generate/nfa":
        N = U.random_nfa(rng, rng.randint(1, 4), rng.choice(["a", "ab"]), eps=rng.choice(["ε", "_"]), prefix="q")
        t = na.print_nfa(N)
        ref["nfa"] = ab.nfa(N)
        f = chk.write(tag + ".nfa", t)
        return chain("generate", [f, "5"], nb.check_nfa_language_from_words, lambda a: (t, a, 5, 0))
    if typ == "generate/regexp":
        r = U.random_regexp(rng, rng.randint(0, 5), rng.choice([["a", "b"], ["a"], ["0", "1"]]))
        t = print_regexp_simple(r)
        ref["re"] = ab.regexp(r)
        f = chk.write(tag + ".regexp", t)
        return chain("generate", [f, "4"], nb.check_regexp_language_from_words, lambda a: (t, a, 4))
    raise ValueError(typ)


def example_events():
    """the shipped examples through the same chain (as notebooks.batch does)"""
    import make_notebook as mk
    import gambatools.notebook as nb
    import gambatools.notebook_dfa as nd
    import gambatools.notebook_nfa2dfa as nn
    from gambatools.text_utility import read_utf8_text
    jobs = []
    for fn in sorted(os.listdir(EXAMPLES)):
        p = os.path.join(EXAMPLES, fn)
        if fn.endswith(".dfa"):
            t = read_utf8_text(p)
            jobs.append(("dfa2regexp", fn, lambda p=p, t=t: (mk.apply_command("dfa2regexp", [p]), nb.check_dfa2regexp, lambda a: (t, a))))
            jobs.append(("dfa_minimize", fn, lambda p=p, t=t: (mk.apply_command("dfa_minimize", [p]), nd.check_dfa_minimal, lambda a: (t, a))))
            jobs.append(("dfa_complement", fn, lambda p=p, t=t: (mk.apply_command("dfa_complement", [p]), nd.check_dfa_complement, lambda a: (t, a))))
            jobs.append(("dfa_reverse", fn, lambda p=p, t=t: (mk.apply_command("dfa_reverse", [p]), nd.check_dfa_reverse, lambda a: (t, a, 8))))
        if fn.endswith(".nfa"):
            t = read_utf8_text(p)
            jobs.append(("nfa2dfa", fn, lambda p=p, t=t: (mk.apply_command("nfa2dfa", [p]), nn.check_nfa2dfa, lambda a: (t, a))))
    for typ, fn, job in jobs:
        r, exc = guarded(job, 60)
        src = {"kind": "c13_example", "type": typ, "file": fn}
        if exc != "none":
            yield {"op": "selfcheck", "family": typ, "verdict": "raised_" + exc, "out": "", "ref": {"file": fn}, "src": src}
            continue
        ans, checker, mkargs = r
        v, cex, exc, out = chk.run_checker(checker, *mkargs(ans))
        yield {"op": "selfcheck", "family": typ, "verdict": v if exc == "none" else "raised_" + exc, "out": ab.enc(out),
               "ref": {"file": fn, "answer": ab.enc(ans)[:300]}, "src": src}


def drive(task):
    if task["kind"] == "examples":
        yield from example_events()
        return
    for s in range(task["lo"], task["lo"] + task["count"]):
        e = one(task["type"], s)
        if e is not None:
            yield e


def redrive(src):
    if src["kind"] == "c13_example":
        for e in example_events():
            if e["src"] == src:
                yield e
        return
    e = one(src["type"], src["seed"])
    if e is not None:
        yield e


_M = [("Subset", "C13_Subset.cfg", "the subset construction's own result satisfies the NFA->DFA checker's criterion "
       "(all NFA(2,{a,b}))", {"allow_untaken": True}),
      ("Hopcroft", "C13_Hopcroft.cfg", "Hopcroft's result passes the minimal-DFA checker's criterion (all DFA(3,{a,b}), all "
       "schedules)", {"allow_untaken": True}),
      ("Quotient", "C13_Quotient.cfg", "the quotient's result passes it too", {"allow_untaken": True}),
      ("GnfaRip", "C13_GnfaRip.cfg", "state elimination's expression passes the DFA->regexp checker's criterion (all "
       "DFA(3,{a,b}), all orders)", {"allow_untaken": True}),
      ("Cyk", "C13_Cyk.cfg", "the CYK table passes the table checker's criterion", {"allow_untaken": True})]
MODELS = {"quick": _M, "thorough": _M}
RULE = ("21 exercise types x seeded random references (DFAs with 1-4 states over {a},{a,b},{a,b,c},{0,1}; NFAs; "
        "non-degenerate simple-format grammars; regexps) + every shipped example file: the answer text is produced by "
        "notebooks/make_notebook.apply_command on a temporary reference file and handed to the checker exactly as the "
        "notebook template does; every third instance first submits an empty, a garbled and a truncated answer to the same "
        "checker (earlier attempts), then the own answer; non-trivial = reference with >= 2 states / rules; distinct = distinct (type, reference)")


def nontrivial(e):
    r = e.get("ref", {})
    for k in ("dfa", "nfa", "d1"):
        if k in r:
            return len(r[k]["Q"]) >= 2
    if "cfg" in r:
        return len(r["cfg"]["R"]) >= 2
    return True


def alphabet_has_0_or_1(e):
    """dfa-to-regexp exercise over an alphabet containing 0 or 1: the printed symbols re-parse as constants"""
    r = e.get("ref", {})
    if e["family"] != "dfa2regexp":
        return False
    if "dfa" in r:
        return bool({"0", "1"} & set(r["dfa"]["S"]))
    if "file" in r:
        from gambatools.text_utility import read_utf8_text
        from gambatools.dfa_algorithms import parse_dfa
        return bool({"0", "1"} & set(parse_dfa(read_utf8_text(os.path.join(EXAMPLES, r["file"]))).Sigma))
    return False


MATCHERS = {"alphabet_has_0_or_1": alphabet_has_0_or_1}


def check(tier, seed):
    return base.standard_check(PID, tier, seed, tasks(tier, seed), MODELS[tier], RULE, nontrivial, matchers=MATCHERS,
                               assumptions=["domain of the statement: non-degenerate grammars in simple format, start "
                                            "variable not already used, CNF grammar + generated word for CYK/derivations"])


def replay(path, seed):
    return base.standard_replay(PID, path, redrive)
