"""C07 - CYK membership and the CYK table are exact for arbitrary grammars."""
import random

from .. import abstraction as ab
from .. import universe as U
from . import base, gen, cfgsrc
from ..worker import guarded

PID = "C07"


def tasks(tier, seed):
    hs = gen.hashseeds(tier, seed)
    ts = []
    if tier == "quick":
        ts += [{"kind": "small", "part": i, "parts": 8, "stride": 5, "n": 3} for i in range(8)]
        ts += [{"kind": "rnd", "count": 300, "seed": seed * 10 + i, "n": 3} for i in range(6)]
    else:
        ts += [{"kind": "small", "part": i, "parts": 32, "stride": 1, "n": 3} for i in range(32)]
        ts += [{"kind": "rnd", "count": 1500, "seed": seed * 10 + i, "n": 4} for i in range(32)]
    return gen.spread(ts, hs)


def events(src, n):
    from gambatools.cfg_algorithms import cfg_accepts_word, cfg_cyk_matrix, cfg_to_chomsky
    G = cfgsrc.build(src)
    A = ab.cfg(G)
    sigma = sorted(G.Sigma)
    acc, exc = guarded(lambda: [w for w in U.words_upto(sigma, n) if cfg_accepts_word(G, w)], 60)
    yield {"op": "cfg_accepts", "cfg": A, "n": n, "accepted": ab.words(acc or []), "exc": exc, "src": dict(src, n=n),
           "post_equal": ab.cfg(G) == A}
    if len(str(A)) % 4 == 0:
        # the optional flag: verbose=True prints the table construction and must not change the verdicts
        import contextlib
        import io
        with contextlib.redirect_stdout(io.StringIO()):
            acc, exc = guarded(lambda: [w for w in U.words_upto(sigma, min(n, 2)) if cfg_accepts_word(G, w, verbose=True)], 60)
        yield {"op": "cfg_accepts", "cfg": A, "n": min(n, 2), "accepted": ab.words(acc or []), "exc": exc,
               "src": dict(src, n=n), "post_equal": ab.cfg(G) == A, "verbose": 1}
    # the table, on the CNF form (a grammar that already is in CNF is used as it is)
    C, exc = guarded(lambda: G if G.is_chomsky() else cfg_to_chomsky(G))
    if exc != "none":
        return
    AC = ab.cfg(C)
    rng = random.Random(len(str(A)))
    ws = [w for w in U.words_upto(sigma, n) if w]
    for w in rng.sample(ws, min(len(ws), 4)):
        if len(w) % 2:
            X, exc = guarded(lambda: cfg_cyk_matrix(C, w))
        else:
            import contextlib
            import io
            with contextlib.redirect_stdout(io.StringIO()):
                X, exc = guarded(lambda: cfg_cyk_matrix(C, w, verbose=True))
        cells = []
        if exc == "none":
            m = len(w)
            for i in range(m):
                for j in range(i, m):
                    cells.append([i, j, sorted(ab.enc(v) for v in (X[i, j] if (i, j) in X else set()))])
        yield {"op": "cyk_matrix", "cfg": AC, "w": ab.word(w), "cells": cells, "exc": exc, "src": dict(src, n=n)}
    # a letter of the alphabet that NO rule produces (an unused terminal), next to sub-words that are derivable: the
    # cells of the other sub-words must still be exact
    import copy
    u = next(c for c in "zyxwvu" if c not in G.Sigma and c not in {str(v) for v in C.V})
    C2 = copy.deepcopy(C)
    C2.Sigma = set(C2.Sigma) | {u}
    if not C2.is_valid() or not C2.is_chomsky():
        return
    AC2 = ab.cfg(C2)
    long_ws = [w for w in ws if len(w) >= 2] or ws
    for w0 in rng.sample(long_ws, min(len(long_ws), 1)):
        k = rng.randrange(3)
        w = w0 + u if k == 0 else u + w0 if k == 1 else w0[:2] + u + w0[:2]
        X, exc = guarded(lambda: cfg_cyk_matrix(C2, w))
        cells = []
        if exc == "none":
            m = len(w)
            for i in range(m):
                for j in range(i, m):
                    cells.append([i, j, sorted(ab.enc(v) for v in (X[i, j] if (i, j) in X else set()))])
        yield {"op": "cyk_matrix", "cfg": AC2, "w": ab.word(w), "cells": cells, "exc": exc, "src": dict(src, n=n, unused=u)}


def unit_order_events(src, n, rng, orders=4, only=None):
    """cfg_accepts_word converts the grammar on the fly; the unit-rule phase visits the variables in set order.
    The membership question is asked under FORCED visiting orders (hook _verif.ordered)"""
    import itertools
    from gambatools.cfg_algorithms import cfg_accepts_word
    from gambatools import _verif
    from ..schedule_replay import OrderChooser
    if not _verif.ON:
        return
    G = cfgsrc.build(src)
    A = ab.cfg(G)
    sigma = sorted(G.Sigma)
    names = sorted(str(v) for v in G.V)
    perms = [tuple(only)] if only is not None else list(itertools.permutations(names))
    if only is None:
        rng.shuffle(perms)

    class Ch(OrderChooser):
        def __call__(self, site, xs):            # the conversion adds a start variable: it is visited first
            if site != self.site:
                return None
            by = {str(x): x for x in xs}
            rest = [k for k in sorted(by) if k not in self.schedule]
            return [by[k] for k in rest] + [by[k] for k in self.schedule if k in by]
    for perm in perms[:orders]:
        _verif.CHOOSER = Ch("unit.var", list(perm))
        try:
            acc, exc = guarded(lambda: [w for w in U.words_upto(sigma, n) if cfg_accepts_word(G, w)], 60)
        finally:
            _verif.CHOOSER = None
        _verif.take()
        yield {"op": "cfg_accepts", "cfg": A, "n": n, "accepted": ab.words(acc or []), "exc": exc,
               "src": dict(src, n=n, unit_order=list(perm)), "post_equal": ab.cfg(G) == A}


def history_events(src, n):
    """history: compute a table for a CNF grammar, append a rule to the SAME object, ask again; and derive a
    grammar from it (new start variable) and ask that one"""
    import gambatools.cfg_algorithms as ca
    from gambatools.cfg import Rule, Alternative, Terminal
    G = cfgsrc.build(src)
    if not G.is_chomsky() or not G.Sigma or "mut" in src:
        return
    sigma = sorted(G.Sigma)
    ca.cfg_cyk_matrix(G, sigma[0])
    A = sorted(G.V)[-1]
    t = sigma[-1]
    r = Rule(A, Alternative([Terminal(t)]))
    if r in G.R:
        return
    G.R.append(r)
    A2 = ab.cfg(G)
    acc, exc = guarded(lambda: [w for w in U.words_upto(sigma, n) if ca.cfg_accepts_word(G, w)], 60)
    yield {"op": "cfg_accepts", "cfg": A2, "n": n, "accepted": ab.words(acc or []), "exc": exc,
           "src": dict(src, n=n, mut=1), "post_equal": True}
    w = "".join(sigma[: 2] * 2)[: max(1, n)]
    X, exc = guarded(lambda: ca.cfg_cyk_matrix(G, w))
    cells = []
    if exc == "none":
        m = len(w)
        cells = [[i, j, sorted(ab.enc(v) for v in (X[i, j] if (i, j) in X else set()))] for i in range(m) for j in range(i, m)]
    yield {"op": "cyk_matrix", "cfg": A2, "w": ab.word(w), "cells": cells, "exc": exc, "src": dict(src, n=n, mut=1)}
    H, exc = guarded(lambda: ca.cfg_add_new_start_variable(G))
    if exc == "none":
        acc, exc = guarded(lambda: [w for w in U.words_upto(sigma, n) if ca.cfg_accepts_word(H, w)], 60)
        yield {"op": "cfg_accepts", "cfg": ab.cfg(H), "n": n, "accepted": ab.words(acc or []), "exc": exc,
               "src": dict(src, n=n, mut=1), "post_equal": True}


def other_start_events(src, n):
    """history: the same rule list asked again in the same process with ANOTHER start variable"""
    G = cfgsrc.build(src)
    others = sorted(v for v in G.V if v != G.S and any(r.variable == v for r in G.R))
    if not others or "start" in src:
        return
    inv = {v: k for k, v in (U.VAR_NAME_POOLS[src["vnames"]] if src.get("vnames") is not None else {}).items()}
    yield from events(dict(src, start=inv.get(others[0], others[0])), n)


def drive(task):
    if task["kind"] == "small":
        for i, rules in enumerate(cfgsrc.small_grammars(3)):
            if i % task["parts"] == task["part"] and (i // task["parts"]) % task["stride"] == 0:
                yield from events({"kind": "cfg_rules", "rules": [list(r) for r in rules]}, task["n"])
        if task["part"] == 0:
            for rules in cfgsrc.SPECIAL:
                yield from events({"kind": "cfg_rules", "rules": [list(r) for r in rules]}, task["n"] + 1)
        if task["part"] in (1, 2):
            # unit-rule cycles with exits, roles played by different letters, forced visiting orders
            rng = random.Random(task["part"])
            for src in cfgsrc.unit_cycle_srcs(rng, 18 if task["stride"] > 1 else 72):
                yield from events(src, task["n"])
                yield from unit_order_events(src, task["n"], rng)
        if task["part"] == 3:
            for rules in cfgsrc.LONG_RHS:
                yield from events({"kind": "cfg_rules", "rules": [list(r) for r in rules]}, task["n"] + 1)
            for src in cfgsrc.nullable_order_srcs(random.Random(7), 12 if task["stride"] > 1 else 60):
                yield from events(src, task["n"])
    else:
        rng = random.Random(task["seed"])
        for i in range(task["count"]):
            src = cfgsrc.random_src(rng, cnf=rng.random() < 0.35)
            if i % 4 == 3:
                src["vnames"] = rng.randrange(len(U.VAR_NAME_POOLS))     # multi-character variable names
            if i % 6 == 1:
                src = cfgsrc.eps_as_terminal(src)                       # the glyph ε is an ordinary terminal here
            yield from events(src, task["n"])
            yield from history_events(src, task["n"])
            if i % 3 == 2:
                yield from other_start_events(src, task["n"])
        for i in range(task["count"] // 6):
            src = dict(cfgsrc.dense_src(rng), vnames=rng.randrange(len(U.VAR_NAME_POOLS)))
            yield from events(src, task["n"] + 1)


def redrive(src):
    n = src.pop("n", 3)
    if src.pop("mut", None):
        yield from history_events(src, n)
        return
    src.pop("unused", None)
    order = src.pop("unit_order", None)
    if order is not None:
        yield from unit_order_events(src, n, None, only=order)
        return
    yield from events(src, n)


MODELS = {"quick": [("Cyk", "Cyk_q.cfg", "all CNF grammars with <= 3 rules over S,A / a,b x words <= 3: every cell")],
          "thorough": [("Cyk", "Cyk_t.cfg", "all CNF grammars with <= 4 rules x words <= 3")]}
RULE = ("grammars over variables {S,A}, terminals {a,b}: all rule sets of <= 3 rules with right-hand sides of length "
        "<= 2 (every 5th in quick), 13 hand-written grammars with epsilon/unit/cyclic/useless rules, random grammars "
        "with 2-4 variables and rules up to length 4 (every fourth with multi-character variable names that are "
        "prefixes / concatenations of each other; every third asked again with another start variable), dense CNF "
        "grammars with such names and words <= n+1; membership of every word <= n (3/4) and the full CYK table of the "
        "CNF form for sampled words; non-trivial = grammar has an epsilon or unit rule or >= 3 rules; distinct = "
        "distinct abstract grammar (+ word)")


def nontrivial(e):
    R = e["cfg"]["R"]
    return len(R) >= 3 or any(len(r[1]) == 0 or (len(r[1]) == 1 and r[1][0][0] == "v") for r in R)


def check(tier, seed):
    return base.standard_check(PID, tier, seed, tasks(tier, seed), MODELS[tier], RULE, nontrivial,
                               assumptions=["single-character terminals", "words <= 3 (4)"])


def replay(path, seed):
    return base.standard_replay(PID, path, redrive)
