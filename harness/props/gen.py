"""Case generators shared by the drivers: every case is a small JSON 'src' record from which the
concrete library object can be rebuilt (for replay)."""
import random

from .. import universe as U

EPSS = ["", "ε", "_", "e"]


def split_range(total, parts):
    step = (total + parts - 1) // parts
    return [(i * step, min(total, (i + 1) * step)) for i in range(parts) if i * step < total]


# ---------------------------------------------------------------- DFA sources
def dfa_src_tasks(k, S, parts, stride=1, pools=(0,), **extra):
    ts = []
    for i, (lo, hi) in enumerate(split_range(U.dfa_count(k, S), parts)):
        ts.append(dict(kind="exh_dfa", k=k, S=S, lo=lo, hi=hi, stride=stride, pool=pools[i % len(pools)], **extra))
    return ts


def build_dfa(src):
    return U.reorder_delta(_build_dfa(src), src)


def _build_dfa(src):
    if src["kind"] == "exh_dfa":
        D = U.dfa_from_code(src["k"], src["S"], src["code"])
    elif src["kind"] == "rnd_dfa":
        rng = random.Random(src["seed"])
        S = rng.choice(src.get("alphabets", ["a", "ab", "ab", "abc"]))
        D = U.random_dfa(rng, rng.randint(1, src.get("maxk", 6)), S)
    elif src["kind"] == "eps_alphabet_dfa":
        # the glyph the library uses as its default epsilon symbol is a legal ALPHABET symbol of a DFA
        rng = random.Random(src["seed"])
        return U.random_dfa(rng, rng.randint(1, 4), rng.choice(["ε", "aε", "a_"]))
    elif src["kind"] == "numbered_dfa":
        # 10-13 states named <hint><number> with the hints the library's own fresh names use (numbers beyond 9)
        rng = random.Random(src["seed"])
        k = rng.randint(10, 13)
        D = U.random_dfa(rng, k, rng.choice(["a", "ab"]))
        hint, first = rng.choice([("q", 0), ("q", 1), ("trap", 1), ("P", 1)])
        return U.rename_fa(D, {"s%d" % i: "%s%d" % (hint, first + i) for i in range(k)})
    elif src["kind"] == "cyclic_dfa":
        # 5-7 states, two symbols, TWO accepting states and cycles among the non-accepting ones; states and symbols
        # named by random letters: depth-first algorithms with a memo meet the cycles in name-dependent orders
        rng = random.Random(src["seed"])
        from gambatools.dfa import DFA
        if src["seed"] % 3 == 0:
            # the shape a memoised depth-first search gets wrong for some orders of Sigma and F: w on a non-accepting
            # cycle w -> u -> w with a second branch w -> x -> accepting; a second accepting state g that reaches
            # accepting states only through u (roles named by random letters, small random variations)
            f0, w, u, x, g = rng.sample("fghjklmnpqrstuvw", 5)
            a, b = rng.sample("abcdxyz", 2)
            delta = {(f0, a): w, (f0, b): w, (w, a): u, (w, b): x, (u, a): w, (u, b): rng.choice([u, w]),
                     (x, a): rng.choice([f0, g]), (x, b): rng.choice([g, f0]), (g, a): u, (g, b): u}
            return DFA({f0, w, u, x, g}, {a, b}, delta, rng.choice([f0, w]), {f0, g})
        k = rng.randint(5, 7)
        sy = rng.sample("abcdxyz", 2)
        names = rng.sample("fghjklmnpqrstuvw", k)
        acc = names[:2]
        delta = {}
        for q in names:
            for a in sy:
                # accepting states are entered rarely, so that most paths run through non-accepting cycles
                delta[q, a] = rng.choice(names[2:] * 3 + acc)
        from gambatools.dfa import DFA
        return DFA(set(names), set(sy), delta, rng.choice(names), set(acc))
    elif src["kind"] == "counter_dfa":
        # states that are told apart only by LONG words: counters modulo m, "at least k a's" chains (b: loop or sink),
        # a tail followed by a cycle - a refinement that stops one round early merges states here
        from gambatools.dfa import DFA
        rng = random.Random(src["seed"])
        shape = src["seed"] % 4
        m = rng.randint(4, 7)
        Q = ["c%d" % i for i in range(m)]
        if shape == 0:
            delta = {(q, "a"): Q[(i + 1) % m] for i, q in enumerate(Q)}
            return DFA(set(Q), {"a"}, delta, Q[0], {Q[rng.randrange(m)]})
        if shape == 1:
            delta = {}
            for i, q in enumerate(Q):
                delta[q, "a"] = Q[min(i + 1, m - 1)]
                delta[q, "b"] = q
            return DFA(set(Q), {"a", "b"}, delta, Q[0], {Q[m - 1]})
        if shape == 2:
            sink = "z"
            delta = {(sink, "a"): sink, (sink, "b"): sink}
            for i, q in enumerate(Q):
                delta[q, "a"] = Q[i + 1] if i + 1 < m else q
                delta[q, "b"] = sink
            return DFA(set(Q) | {sink}, {"a", "b"}, delta, Q[0], {Q[m - 1]})
        t = rng.randint(1, m - 2)
        delta = {(q, "a"): (Q[i + 1] if i + 1 < m else Q[t]) for i, q in enumerate(Q)}
        return DFA(set(Q), {"a"}, delta, Q[0], {Q[m - 1]} | ({Q[0]} if rng.random() < 0.3 else set()))
    elif src["kind"] == "late_split_dfa":
        return U.late_split_dfa(random.Random(src["seed"]))
    else:
        raise ValueError(src)
    pool = src.get("pool", 0)
    if pool:
        names = U.NAME_POOLS[pool % len(U.NAME_POOLS)]
        perm = list(names[:len(D.Q)])
        random.Random(src.get("perm", 0)).shuffle(perm)
        D = U.rename_fa(D, {"s%d" % i: perm[i] for i in range(len(perm))})
    return D


def dfa_srcs(task):
    if task["kind"] == "exh_dfa":
        for code in range(task["lo"], task["hi"], task.get("stride", 1)):
            yield {"kind": "exh_dfa", "k": task["k"], "S": task["S"], "code": code, "pool": task.get("pool", 0),
                   "perm": code % 7}
    elif task["kind"] == "eps_alphabet_dfa":
        for i in range(task["count"]):
            yield {"kind": "eps_alphabet_dfa", "seed": task["seed"] * 100000 + i}
    elif task["kind"] == "numbered_dfa":
        for i in range(task["count"]):
            yield {"kind": "numbered_dfa", "seed": task["seed"] * 100000 + i}
    elif task["kind"] == "late_split_dfa":
        for i in range(task["count"]):
            yield {"kind": "late_split_dfa", "seed": task["seed"] * 100000 + i}
    elif task["kind"] == "counter_dfa":
        for i in range(task["count"]):
            yield {"kind": "counter_dfa", "seed": task["seed"] * 100000 + i}
    elif task["kind"] == "cyclic_dfa":
        for i in range(task["count"]):
            yield {"kind": "cyclic_dfa", "seed": task["seed"] * 100000 + i}
    elif task["kind"] == "rnd_dfa":
        for i in range(task["count"]):
            yield {"kind": "rnd_dfa", "seed": task["seed"] * 100000 + i, "pool": i % 6, "perm": i % 11,
                   "maxk": task.get("maxk", 6), "alphabets": task.get("alphabets", ["a", "ab", "ab", "abc"])}


# ---------------------------------------------------------------- NFA sources
def nfa_src_tasks(k, S, parts, stride=1, **extra):
    ts = []
    for i, (lo, hi) in enumerate(split_range(U.nfa_count(k, S), parts)):
        ts.append(dict(kind="exh_nfa", k=k, S=S, lo=lo, hi=hi, stride=stride, eps=EPSS[i % 4], **extra))
    return ts


def build_nfa(src):
    return U.reorder_delta(_build_nfa(src), src)


def _build_nfa(src):
    if src["kind"] == "exh_nfa":
        return U.nfa_from_code(src["k"], src["S"], src["code"], src["eps"], prefix=src.get("prefix", "s"))
    rng = random.Random(src["seed"])
    if src["kind"] == "big_nfa":
        # many states, dense epsilon moves: reachable subsets with more than 8 members
        k = rng.randint(10, 12)
        N = U.random_nfa(rng, k, "ab", eps=rng.choice(EPSS[:3]), prefix="s", density=0.12)
        for i in range(k - 1):
            if rng.random() < 0.7:
                N.delta["s%d" % i, N.epsilon] = set(N.delta.get(("s%d" % i, N.epsilon), set())) | {"s%d" % (i + 1)}
        return N
    S = rng.choice(src.get("alphabets", ["a", "ab", "ab", "abc", "", "01"]))
    k = rng.randint(1, src.get("maxk", 6))
    eps = rng.choice(EPSS)
    if eps in S:
        eps = ""
    N = U.random_nfa(rng, k, S, eps=eps, prefix="s", total=rng.random() < 0.3)
    pool = rng.randrange(len(U.NAME_POOLS) + 1)
    if pool < len(U.NAME_POOLS):
        perm = list(U.NAME_POOLS[pool])
        rng.shuffle(perm)
        N = U.rename_fa(N, {"s%d" % i: perm[i] for i in range(8)})
    return N


def nfa_srcs(task):
    if task["kind"] == "exh_nfa":
        for code in range(task["lo"], task["hi"], task.get("stride", 1)):
            yield {"kind": "exh_nfa", "k": task["k"], "S": task["S"], "code": code, "eps": task["eps"]}
    elif task["kind"] == "rnd_nfa":
        for i in range(task["count"]):
            yield {"kind": "rnd_nfa", "seed": task["seed"] * 100000 + i, "maxk": task.get("maxk", 6)}
    elif task["kind"] == "big_nfa":
        for i in range(task["count"]):
            yield {"kind": "big_nfa", "seed": task["seed"] * 100000 + i}
    elif task["kind"] == "wide_nfa":
        # alphabets of 5-7 and 17 symbols: sizes at which a Python set and its copy iterate in different orders
        for i in range(task["count"]):
            yield {"kind": "rnd_nfa", "seed": task["seed"] * 100000 + i, "maxk": 3,
                   "alphabets": ["abcde", "abcdef", "abcdefg", "abcdefghijklmnopq"]}


def hashseeds(tier, seed):
    return [0, 1, seed % 1000 + 2] if tier == "quick" else list(range(16))


def spread(tasks, hs):
    for i, t in enumerate(tasks):
        t.setdefault("hashseed", hs[i % len(hs)])
    return tasks
