"""Turing machine sources shared by C02, C11, C16."""
import itertools
import random

from .. import universe as U


def tm_from_code(nwork, gamma, code, blank="_", sigma="a"):
    """TM(nwork working states, tape alphabet gamma incl. blank): for every (w, g) either no
    transition or (target in W+{qA,qR}, written symbol, L/R)."""
    W = ["w%d" % i for i in range(nwork)]
    Q = W + ["qA", "qR"]
    G = list(gamma)
    opts = 1 + len(Q) * len(G) * 2
    delta = {}
    for p in W:
        for a in G:
            o = code % opts
            code //= opts
            if o == 0:
                continue
            o -= 1
            d = "LR"[o % 2]
            o //= 2
            b = G[o % len(G)]
            o //= len(G)
            delta[p, a] = (Q[o], b, d)
    return U.make_tm(Q, sigma, G, delta, W[0], "qA", "qR", blank)


def tm_count(nwork, gamma):
    return (1 + (nwork + 2) * len(gamma) * 2) ** (nwork * len(gamma))


def build(src):
    if src["kind"] == "tm_code":
        return tm_from_code(src["nwork"], src["gamma"], src["code"], src.get("blank", "_"), src.get("sigma", "a"))
    if src["kind"] == "tm_rnd":
        rng = random.Random(src["seed"])
        blank = rng.choice(["_", "□", "B"])
        return U.random_tm(rng, rng.randint(1, 3), rng.choice(["a", "ab"]), rng.choice(["", "x", "xy"]), blank,
                           rng.choice([0.1, 0.3, 0.5]))
    if src["kind"] == "tm_halting_start":
        T = tm_from_code(1, "a_", src["code"])
        T.q0 = src["q0"]
        return T
    raise ValueError(src)
