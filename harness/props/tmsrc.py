"""Turing machine sources shared by C02, C11, C16."""
import itertools
import random

from .. import universe as U


def tm_from_code(nwork, gamma, code, blank="_", sigma="a"):
    """TM(nwork working states, tape alphabet gamma incl. blank): for every (w, g) either no
    transition or (target in W+{qA,qR}, written symbol, L/R)."""
    W = ["w%d" % i for i in range(nwork)]
    Q = W + ["qA", "qR"]
    G = list(gamma)
    opts = 1 + len(Q) * len(G) * 2
    delta = {}
    for p in W:
        for a in G:
            o = code % opts
            code //= opts
            if o == 0:
                continue
            o -= 1
            d = "LR"[o % 2]
            o //= 2
            b = G[o % len(G)]
            o //= len(G)
            delta[p, a] = (Q[o], b, d)
    return U.make_tm(Q, sigma, G, delta, W[0], "qA", "qR", blank)


def tm_count(nwork, gamma):
    return (1 + (nwork + 2) * len(gamma) * 2) ** (nwork * len(gamma))


# hand-written machines whose runs revisit "look-alike" configurations: the state name followed by the tape and
# the head position reads the same for two different configurations (names q / q1 with digits on the tape; head
# positions 1 and 10 on tapes that differ in one trailing cell).  Words are listed with each machine.
SPECIAL = [
    ({"kind": "tm_trans", "Q": ["q1", "p", "p2", "q", "acc", "rej"], "S": "01", "G": "01_", "q0": "q1", "qa": "acc", "qr": "rej",
      "T": [["q1", "0", "q1", "0", "R"], ["q1", "_", "p", "_", "L"], ["p", "0", "p", "1", "R"], ["p", "_", "p2", "0", "R"],
            ["p2", "_", "q", "_", "L"], ["q", "0", "acc", "0", "R"]]},
     ["", "0", "1", "00", "01", "10", "000", "010"]),
    ({"kind": "tm_trans", "Q": ["s", "r", "l", "acc", "rej"], "S": "01", "G": "01_", "q0": "s", "qa": "acc", "qr": "rej",
      "T": [["s", "0", "s", "0", "R"], ["s", "1", "s", "1", "R"], ["s", "_", "r", "_", "R"], ["r", "_", "l", "1", "L"],
            ["r", "1", "acc", "1", "R"], ["l", "_", "l", "_", "L"], ["l", "0", "l", "0", "L"], ["l", "1", "s", "1", "L"]]},
     ["1" + "0" * n for n in (0, 3, 7, 8, 9, 10, 12)]),
]


def build(src):
    return U.reorder_delta(_build(src), src)


def _build(src):
    if src["kind"] == "tm_trans":
        return U.make_tm(src["Q"], src["S"], list(src["G"]), {(t[0], t[1]): (t[2], t[3], t[4]) for t in src["T"]},
                         src["q0"], src["qa"], src["qr"], "_")
    if src["kind"] == "tm_code":
        return tm_from_code(src["nwork"], src["gamma"], src["code"], src.get("blank", "_"), src.get("sigma", "a"))
    if src["kind"] == "tm_rnd":
        rng = random.Random(src["seed"])
        blank = rng.choice(["_", "□", "B"])
        return U.random_tm(rng, rng.randint(1, 3), rng.choice(["a", "ab"]), rng.choice(["", "x", "xy"]), blank,
                           rng.choice([0.1, 0.3, 0.5]))
    if src["kind"] == "tm_rnd01":
        # digits as tape symbols, state names that are prefixes of each other and end in digits
        rng = random.Random(src["seed"])
        k = rng.randint(1, 3)
        T = U.random_tm(rng, k, "01", rng.choice(["", "x"]), "_", rng.choice([0.1, 0.3]))
        m = {"w0": "q", "w1": "q1", "w2": "q11", "qA": "q10", "qR": "q0"}
        return U.rename_tm(T, {q: m[q] for q in T.Q})
    if src["kind"] == "tm_halting_start":
        T = tm_from_code(1, "a_", src["code"])
        T.q0 = src["q0"]
        return T
    raise ValueError(src)
