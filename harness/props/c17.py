"""C17 - parsers build exactly what was written and reject malformed descriptions."""
import copy
import random
import re

from .. import abstraction as ab
from .. import universe as U
from . import base, gen, pdasrc, tmsrc
from ..worker import guarded

PID = "C17"
GLYPH = {"dfa": "ε", "nfa": "ε", "pda": "ε", "tm": "□"}
STATE_RE = r"\w+"
SYM_RE = r"\w+"
PDA_LABEL = r"\w,[\w\d~!@#$%^&*][\w\d~!@#$%^&*]"
TM_LABEL = r"[\w\d~!@#$%^&*□][\w\d~!@#$%^&*□],[LR]"


# ------------------------------------------------------------------ descriptions as structured lines
def lab(kind, raw):
    """abstract form of a transition label token"""
    g = GLYPH[kind] in raw
    if kind in ("dfa", "nfa"):
        return ["ok", g, ab.enc(raw)]
    if kind == "pda":
        if re.fullmatch(PDA_LABEL, raw):
            return ["ok", g, ab.enc(raw[0]), ab.enc(raw[2]), ab.enc(raw[3])]
        return ["bad", ab.enc(raw)]
    if re.fullmatch(TM_LABEL, raw):
        return ["ok", g, ab.enc(raw[0]), ab.enc(raw[1]), ab.enc(raw[3])]
    return ["bad", ab.enc(raw)]


def L(k, *toks):
    return {"k": k, "toks": list(toks)}


def base_lines(kind, X, rng, opt):
    """a well-formed description of the automaton X (optional declarations chosen by opt)"""
    lines = []
    if opt["states"]:
        lines.append(L("states", *sorted(X.Q)))
    lines.append(L("initial", X.q0))
    if kind != "tm":
        if X.F or opt["final_even_if_empty"]:
            lines.append(L("final", *sorted(X.F)))
    if opt["input_symbols"]:
        lines.append(L("kw", "input_symbols", *sorted(X.Sigma)))
    groups = {}
    if kind == "dfa":
        for (p, a), q in X.delta.items():
            groups.setdefault((p, q), []).append(a)
    elif kind == "nfa":
        if opt["epsilon"]:
            lines.append(L("kw", "epsilon", X.epsilon))
        for (p, a), Qs in X.delta.items():
            for q in Qs:
                groups.setdefault((p, q), []).append(a)
    elif kind == "pda":
        if opt["epsilon"]:
            lines.append(L("kw", "epsilon", X.epsilon))
        if opt["stack_symbols"]:
            lines.append(L("kw", "stack_symbols", *sorted(X.Gamma)))
        for (p, a, u), tg in X.delta.items():
            for (q, v) in tg:
                groups.setdefault((p, q), []).append("%s,%s%s" % (a, u, v))
    else:
        if opt["halting"]:
            lines.append(L("kw", "accept", X.q_accept))
            lines.append(L("kw", "reject", X.q_reject))
        if opt["blank"]:
            lines.append(L("kw", "blank", X.blank))
        if opt["tape_symbols"]:
            lines.append(L("kw", "tape_symbols", *sorted(X.Gamma)))
        for (p, a), (q, b, d) in X.delta.items():
            groups.setdefault((p, q), []).append("%s%s,%s" % (a, b, d))
    for (p, q), labels in sorted(groups.items()):
        labels = sorted(labels)
        if opt["one_label_per_line"]:
            for a in labels:
                lines.append(L("tr", p, q, a))
        else:
            lines.append(L("tr", p, q, *labels))
    return lines


FAULTS = ["none", "none", "none", "dup_key", "dup_entry", "empty_states", "short_tr", "bad_state", "bad_label",
          "undeclared_state", "undeclared_symbol", "no_initial", "two_initial", "missing_value", "two_values",
          "nondet", "drop_transition", "special_in_sigma", "extra_declared", "dup_transition", "keyword_state"]


def corrupt(kind, lines, fault, rng, X):
    lines = copy.deepcopy(lines)
    idx = lambda k: [i for i, l in enumerate(lines) if l["k"] == k]
    kws = [i for i in idx("kw")]
    trs = idx("tr")
    if fault == "dup_key":
        c = [i for i, l in enumerate(lines) if l["k"] in ("states", "final", "initial", "kw")]
        if c:
            i = rng.choice(c)
            lines.append(copy.deepcopy(lines[i]))
    elif fault == "dup_entry":
        c = [i for i, l in enumerate(lines) if l["k"] in ("states", "final", "initial") and l["toks"]]
        if c:
            i = rng.choice(c)
            lines[i]["toks"].append(rng.choice(lines[i]["toks"]))
    elif fault == "empty_states":
        for i in idx("states"):
            lines[i]["toks"] = []
        if not idx("states"):
            lines.append(L("states"))
    elif fault == "short_tr" and trs:
        i = rng.choice(trs)
        lines[i]["toks"] = lines[i]["toks"][:2]
    elif fault == "bad_state":
        c = [i for i, l in enumerate(lines) if l["k"] in ("states", "final", "initial", "tr") and l["toks"]]
        if c:
            i = rng.choice(c)
            j = rng.randrange(min(2, len(lines[i]["toks"]))) if lines[i]["k"] == "tr" else rng.randrange(len(lines[i]["toks"]))
            lines[i]["toks"][j] = rng.choice(["q-1", "{a}", "(p,q)", "a,b"])
    elif fault == "bad_label" and trs and kind in ("pda", "tm"):
        i = rng.choice(trs)
        j = rng.randrange(2, len(lines[i]["toks"]))
        # ill-formed for THIS format; several of them are well-formed labels of another format
        lines[i]["toks"][j] = rng.choice(["a,X", "ab,XY", "a;XY", "aXY", "aa,R", "a_,L", "ab,R", "a", "b"] if kind == "pda"
                                         else ["ab,D", "a,L", "abL", "abc,R", "a,XX", "a,_X", "b,X_", "a", "ab"])
    elif fault == "undeclared_state" and trs:
        i = rng.choice(trs)
        lines[i]["toks"][rng.randrange(2)] = "zz9"
    elif fault == "undeclared_symbol" and trs:
        i = rng.choice(trs)
        j = rng.randrange(2, len(lines[i]["toks"]))
        t = lines[i]["toks"][j]
        lines[i]["toks"][j] = {"dfa": "z", "nfa": "z", "pda": "z" + t[1:] if rng.random() < 0.5 else t[:2] + "Z" + t[3:],
                               "tm": "z" + t[1:]}[kind]
    elif fault == "no_initial":
        lines = [l for l in lines if l["k"] != "initial"]
    elif fault == "two_initial":
        for i in idx("initial"):
            others = sorted(set(X.Q) - set(lines[i]["toks"]))
            if others:
                lines[i]["toks"].append(rng.choice(others))
    elif fault in ("missing_value", "two_values"):
        c = [i for i in kws if lines[i]["toks"][0] in ("epsilon", "blank", "accept", "reject")]
        if c:
            i = rng.choice(c)
            lines[i]["toks"] = lines[i]["toks"][:1] if fault == "missing_value" else lines[i]["toks"] + ["y"]
    elif fault == "nondet" and trs:
        i = rng.choice(trs)
        p, q = lines[i]["toks"][:2]
        others = sorted(set(X.Q) - {q}) or [q]
        lines.append(L("tr", p, rng.choice(others), lines[i]["toks"][2]))
    elif fault == "dup_transition" and trs:
        i = rng.choice(trs)
        lines.append(L("tr", *lines[i]["toks"][:3]))
    elif fault == "drop_transition" and trs:
        i = rng.choice(trs)
        if len(lines[i]["toks"]) > 3:
            lines[i]["toks"].pop()
        else:
            del lines[i]
    elif fault == "special_in_sigma":
        sp = getattr(X, "epsilon", None) or getattr(X, "blank", None)
        for i in kws:
            if lines[i]["toks"][0] == "input_symbols" and sp:
                lines[i]["toks"].append(sp)
    elif fault == "extra_declared":
        for i, l in enumerate(lines):
            if l["k"] == "states":
                l["toks"].append("unused7")
            if l["k"] == "kw" and l["toks"][0] in ("input_symbols", "stack_symbols", "tape_symbols"):
                l["toks"].append("y")
    elif fault == "keyword_state" and trs:
        # a state named like a keyword of ANOTHER kind's format is an ordinary state
        name = {"dfa": "epsilon", "nfa": "blank", "pda": "accept", "tm": "epsilon"}[kind]
        old = lines[rng.choice(trs)]["toks"][0]
        for l in lines:
            if l["k"] in ("states", "final", "initial"):
                l["toks"] = [name if t == old else t for t in l["toks"]]
            elif l["k"] == "tr":
                l["toks"][:2] = [name if t == old else t for t in l["toks"][:2]]
            elif l["k"] == "kw" and l["toks"][0] in ("accept", "reject"):
                l["toks"][1:] = [name if t == old else t for t in l["toks"][1:]]
    return lines


def render(kind, lines, rng, comments=True):
    """text + abstract lines (what Text.tla sees)"""
    text, absl = [], []
    order = list(range(len(lines)))
    rng.shuffle(order)
    for i in order:
        l = lines[i]
        if comments and rng.random() < 0.15:
            text.append(rng.choice(["% a comment", "", "   ", "%states x y"]))
            absl.append({"k": "skip", "t": []})
        if l["k"] == "kw":
            text.append(" ".join(l["toks"]))
            absl.append({"k": "kw", "t": [ab.enc(t) for t in l["toks"]]})
        elif l["k"] == "tr":
            text.append(rng.choice(["", "  "]) + "  ".join(l["toks"]))
            absl.append({"k": "tr", "t": [ab.enc(t) for t in l["toks"][:2]] + [lab(kind, t) for t in l["toks"][2:]]})
        else:
            text.append(l["k"] + " " + " ".join(l["toks"]))
            absl.append({"k": l["k"], "t": [ab.enc(t) for t in l["toks"]]})
    return "\n".join(text) + ("\n" if rng.random() < 0.5 else ""), absl


def tokens_of(absl):
    st, sy = set(), set()
    for l in absl:
        if l["k"] in ("states", "final", "initial"):
            st |= set(l["t"])
        elif l["k"] == "tr":
            st |= set(l["t"][:2])
            for lb in l["t"][2:]:
                if lb[0] == "ok":
                    sy |= set(lb[2:5])
        elif l["k"] == "kw":
            if l["t"][0] in ("accept", "reject"):
                st |= set(l["t"][1:])
            else:
                sy |= set(l["t"][1:])
    return st, sy


def one_event(kind, text, absl, src):
    import gambatools.dfa_algorithms as da
    import gambatools.nfa_algorithms as na
    import gambatools.pda_algorithms as pa
    import gambatools.tm_algorithms as ta
    parser = {"dfa": da.parse_dfa, "nfa": na.parse_nfa, "pda": pa.parse_pda, "tm": ta.parse_tm}[kind]
    absfn = {"dfa": ab.dfa, "nfa": ab.nfa, "pda": ab.pda, "tm": ab.tm}[kind]
    X, exc = guarded(lambda: parser(text))
    st, sy = tokens_of(absl)
    ev = {"op": "parse", "kind": kind, "lines": absl, "glyph": ab.enc(GLYPH[kind]),
          "badstate": sorted(t for t in st if not re.fullmatch(STATE_RE, ab.dec(t))),
          "badsym": sorted(t for t in sy if not re.fullmatch(SYM_RE, ab.dec(t))),
          "exc": exc, "text": ab.enc(text), "src": src}
    if exc == "none":
        ev["parsed"] = absfn(X)
    return ev


def build_obj(kind, seed):
    rng = random.Random(seed)
    if kind in ("dfa", "nfa") and seed % 5 == 4:
        # states named like the alphabet symbols (digits 0,1,2 over {0,1}; letters a,b,c over {a,b})
        S = rng.choice(["01", "ab"])
        k = rng.randint(1, 3)
        X = (U.random_dfa(rng, k, S, prefix="") if kind == "dfa"
             else U.random_nfa(rng, k, S, eps=rng.choice(["ε", "_"]), prefix=""))
        if S == "ab":
            X = U.rename_fa(X, {str(i): "abc"[i] for i in range(k)})
        return X
    if kind == "dfa":
        return U.random_dfa(rng, rng.randint(1, 3), rng.choice(["a", "ab", "ab", "01"]), prefix=rng.choice(["s", "q", "p"]))
    if kind in ("nfa", "pda", "tm") and seed % 7 == 3:
        # the ASCII default '_' as an ORDINARY symbol next to the glyph used as epsilon / blank (the default applies
        # only when the glyph occurs nowhere in the description)
        if kind == "nfa":
            return U.random_nfa(rng, rng.randint(2, 3), rng.choice(["a_", "_", "_b"]), eps="ε", prefix=rng.choice(["s", "q"]))
        if kind == "pda":
            P, _ = U.random_pda(rng, rng.randint(1, 3), rng.choice(["a", "ab"]), rng.choice(["_", "X_", "_$"]),
                                ntrans=rng.randint(2, 6), eps="ε", prefix=rng.choice(["s", "q"]))
            return P
        return U.random_tm(rng, rng.randint(1, 2), rng.choice(["a", "ab"]), rng.choice(["_", "x_"]), "□", rng.choice([0.1, 0.4]))
    if kind == "nfa":
        eps = rng.choice(["ε", "_", "e"])
        return U.random_nfa(rng, rng.randint(1, 3), rng.choice(["a", "ab"]), eps=eps, prefix=rng.choice(["s", "q"]))
    if kind == "pda":
        eps = rng.choice(["ε", "_", "e"])
        P, _ = U.random_pda(rng, rng.randint(1, 3), rng.choice(["a", "ab"]), rng.choice(["X", "XY", "X$", "X%", "%#", "~&*"]),
                            ntrans=rng.randint(1, 5), eps=eps, prefix=rng.choice(["s", "q"]))
        return P
    blank = rng.choice(["_", "□", "B"])
    return U.random_tm(rng, rng.randint(1, 2), rng.choice(["a", "ab"]), rng.choice(["", "x", "", "x", "%", "#%"]), blank,
                       rng.choice([0.1, 0.4]))


def case(src):
    kind, seed = src["tkind"], src["seed"]
    rng = random.Random(seed * 7 + 1)
    X = build_obj(kind, seed)
    opt = {k: rng.random() < 0.55 for k in ("states", "final_even_if_empty", "input_symbols", "epsilon", "stack_symbols",
                                             "halting", "blank", "tape_symbols", "one_label_per_line")}
    lines = base_lines(kind, X, rng, opt)
    fault = src.get("fault") or rng.choice(FAULTS)
    if kind == "tm" and fault in ("nondet", "dup_transition"):
        fault = "none"      # the TM format lets the last of two transitions for one (state, symbol) win: outside the property
    lines = corrupt(kind, lines, fault, rng, X)
    text, absl = render(kind, lines, rng)
    return one_event(kind, text, absl, dict(src, fault=fault))


def tasks(tier, seed):
    q = tier == "quick"
    hs = gen.hashseeds(tier, seed)
    ts = []
    for kind in ("dfa", "nfa", "pda", "tm"):
        ts += [{"kind": "rendered", "tkind": kind, "count": 1500 if q else 8000, "seed": seed * 100 + i}
               for i in range(2 if q else 8)]
    return gen.spread(ts, hs)


def drive(task):
    if task["kind"] == "gen_replay":
        from .. import parser_replay
        for k, ev in enumerate(parser_replay.drive_file(task["path"], task["lo"], task["hi"])):
            if (k // 2) % task.get("stride", 1) == 0:
                yield ev
        return
    kinds = ["dfa", "nfa", "pda", "tm"]
    for i in range(task["count"]):
        # the four formats are parsed alternately in one process (a parser must not remember another format's verdicts)
        k = kinds[(kinds.index(task["tkind"]) + i) % 4]
        yield case({"kind": "rendered", "tkind": k, "seed": task["seed"] * 100000 + i})


def redrive(src):
    if src["kind"] == "gen_line":
        from .. import parser_replay
        yield from parser_replay.replay_line(src["line"])
        return
    yield case(src)


MODELS = {"quick": [("LineParser", "LineParser_dfa.cfg", "line-by-line parser + DFA builder: all permutations (<= 6 lines; "
                     "rotations beyond) x optional declarations x single faults; refines Text.tla"),
                    ("LineParser", "LineParser_nfa.cfg", "the same for the NFA format"),
                    ("LineParser", "LineParser_pda_q.cfg", "rotations and reversals of the lines, PDA format (PDABuilder: glyph default, stack "
                     "symbols, ill-formed labels, the constructor's asserts)"),
                    ("LineParser", "LineParser_tm_q.cfg", "rotations and reversals of the lines, TM format (TMBuilder: fresh accept / reject "
                     "names, blank default, derived input alphabet, the constructor's asserts)")],
          "thorough": [("LineParser", "LineParser_dfa.cfg", "DFA format"), ("LineParser", "LineParser_nfa.cfg", "NFA format"),
                       ("LineParser", "LineParser_pda.cfg", "PDA format"), ("LineParser", "LineParser_tm.cfg", "TM format")]}
RULE = ("for each of the four text formats: random small automata rendered in random layouts (line order, optional "
        "declarations present or not, comments and blank lines, several labels per line or one per line) and, in 85% of "
        "the cases, one of 18 single-fault corruptions (duplicate declaration/entry, empty states, short transition, bad "
        "state/label token, undeclared state/symbol, no/two initial states, missing/extra value, non-determinism, "
        "dropped transition, special symbol in the alphabet, supersets declared, a state named like another format's "
        "keyword); whether a text is well formed and what it denotes is decided by Text.tla, not by the generator; "
        "non-trivial = a corruption was applied; distinct = distinct token lines")


def nontrivial(e):
    return e["src"].get("fault", "none") != "none" or e["src"]["kind"] == "gen_line"


MATCHERS = {}


def gen_tasks(tier, info):
    """(G): TLC enumerates the layouts of LineParser.tla with the model's outcome; each is rendered
    to text and given to the real parser."""
    import os
    from .. import tlc, common
    ts = []
    for kind in ("dfa", "nfa", "pda", "tm"):
        path = os.path.join(common.outdir(PID, "gen"), "layouts_%s.ndjson" % kind)
        n, dist, g = tlc.generate_behaviours("LineParser", "LineParser_gen_%s.cfg" % kind, path)
        info[kind] = n
        stride = 6 if tier == "quick" else 1
        # every stride-th layout; the parts are interleaved so that each worker sees all fault kinds
        parts = 8
        step = (n + parts - 1) // parts
        for i in range(parts):
            ts.append({"kind": "gen_replay", "path": path, "lo": i * step, "hi": min(n, (i + 1) * step),
                       "stride": stride, "hashseed": i % 3})
    return ts


def check(tier, seed):
    info = {}
    ts = tasks(tier, seed) + gen_tasks(tier, info)

    def extra(res, done):
        res.notes["spec_layouts_replayed_into_impl"] = info

    return base.standard_check(PID, tier, seed, ts, MODELS[tier], RULE, nontrivial, matchers=MATCHERS, extra=extra,
                               assumptions=["character-level lexing (label regular expressions) is below the model: "
                                            "tokens are classified legal/illegal by the harness with the documented "
                                            "expressions", "a TM description never gives two transitions for one "
                                            "(state, symbol) (the format lets the last one win)"])


def replay(path, seed):
    return base.standard_replay(PID, path, redrive)
