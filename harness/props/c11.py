"""C11 - TM simulation follows Sipser semantics with a three-valued bounded verdict."""
import random

from .. import abstraction as ab
from .. import universe as U
from . import base, gen, tmsrc
from ..worker import guarded

PID = "C11"
BUDGETS = [0, 1, 2, 3, 4, 6, 8, 1000]


def tasks(tier, seed):
    hs = gen.hashseeds(tier, seed)
    ts = []
    if tier == "quick":
        ts += [{"kind": "codes", "nwork": 1, "gamma": "a_", "lo": 0, "hi": 169, "stride": 1, "n": 2}]
        tot = tmsrc.tm_count(2, "a_")
        ts += [{"kind": "codes", "nwork": 2, "gamma": "a_", "lo": i * (tot // 8), "hi": (i + 1) * (tot // 8),
                "stride": 97, "n": 2} for i in range(8)]
        ts += [{"kind": "rnd", "count": 250, "seed": seed * 10 + i, "n": 3} for i in range(4)]
    else:
        ts += [{"kind": "codes", "nwork": 1, "gamma": "a_", "lo": 0, "hi": 169, "stride": 1, "n": 3}]
        tot = tmsrc.tm_count(2, "a_")
        ts += [{"kind": "codes", "nwork": 2, "gamma": "a_", "lo": i * (tot // 32), "hi": (i + 1) * (tot // 32),
                "stride": 7, "n": 3} for i in range(32)]
        tot = tmsrc.tm_count(1, "ab_")
        ts += [{"kind": "codes", "nwork": 1, "gamma": "ab_", "sigma": "ab", "lo": i * (tot // 8),
                "hi": (i + 1) * (tot // 8), "stride": 3, "n": 2} for i in range(8)]
        ts += [{"kind": "rnd", "count": 1500, "seed": seed * 10 + i, "n": 3} for i in range(16)]
    return gen.spread(ts, hs)


def events(src, n, rng, words=None):
    T = tmsrc.build(src)
    twin = None
    if src.get("twin"):
        # a decider and its complement built from the SAME transition table object (accept and reject exchanged):
        # the twin is described as it was defined, before anything has run on either machine
        from gambatools.tm import TM
        twin = TM(T.Q, T.Sigma, T.Gamma, T.delta, T.q0, T.q_reject, T.q_accept, T.blank)
        A2 = ab.tm(twin)
    words = list(words) if words is not None else None
    if words is None:
        words = list(U.words_upto(sorted(T.Sigma), n))
        words = words if len(words) <= 4 else rng.sample(words, 4)
    yield from _events(T, ab.tm(T), src, n, rng, words)
    if twin is not None:
        yield from _events(twin, A2, src, n, rng, words)


def _events(T, A, src, n, rng, words):
    from gambatools.tm_algorithms import tm_simulate_word, tm_accepts_word
    words = list(words)
    if src.get("long") and T.Sigma:
        words.append("".join(rng.choice(sorted(T.Sigma)) for _ in range(src["long"])))      # a long tape
    for w in words:
        vs = [None] * len(BUDGETS)
        bad = "none"
        # the budgets are asked in a random order on the same machine object (a verdict must not depend on
        # what was asked before: large budget first, then a budget below the halting time)
        order = list(range(len(BUDGETS)))
        rng.shuffle(order)
        for i in order:
            k = BUDGETS[i]
            v, exc = guarded(lambda: tm_accepts_word(T, w, k), 20)
            if exc != "none":
                bad = exc
            vs[i] = "true" if v is True else "false" if v is False else "none"
        k = rng.choice([0, 1, 2, 3, 4, 6, 8])
        seq, exc = guarded(lambda: tm_simulate_word(T, w, k), 20)
        if exc != "none":
            bad = exc
        yield {"op": "tm_run", "tm": A, "w": ab.word(w), "k": k, "budgets": BUDGETS, "verdicts": vs,
               "seq": [[ab.enc(q), [ab.enc(x) for x in tape], head] for (q, tape, head) in (seq or [])],
               "exc": bad, "src": dict(src, n=n, w=w)}


def drive(task):
    rng = random.Random(task.get("seed", 0) + task.get("lo", 0))
    if task["kind"] == "codes":
        for code in range(task["lo"], task["hi"], task["stride"]):
            yield from events({"kind": "tm_code", "nwork": task["nwork"], "gamma": task["gamma"], "code": code,
                               "sigma": task.get("sigma", "a"), "twin": 1 if code % 2 else 0}, task["n"], rng)
        if task["lo"] == 0 and task["nwork"] == 1:
            for src, ws in tmsrc.SPECIAL:
                yield from events(src, 0, rng, words=ws)
            for q0 in ("qA", "qR"):
                for code in (0, 5, 77):
                    yield from events({"kind": "tm_halting_start", "code": code, "q0": q0}, 1, rng)
    else:
        for i in range(task["count"]):
            src = {"kind": "tm_rnd01" if i % 4 == 3 else "tm_rnd", "seed": task["seed"] * 100000 + i}
            if i % 5 == 0:
                src["long"] = 10 + i % 4
            if i % 3 == 1:
                src["twin"] = 1
            yield from events(src, task["n"], rng)


def redrive(src):
    n = src.pop("n", 2)
    w = src.pop("w", None)
    yield from events(src, n, random.Random(0), words=None if w is None else [w])


MODELS = {"quick": [("TmRun", "TmRun_q.cfg", "all 169 one-working-state TMs over {a,_} x words <= 2 x budget 6")],
          "thorough": [("TmRun", "TmRun_q.cfg", "all 169 one-working-state TMs"),
                       ("TmRun", "TmRun_t.cfg", "all 6859 one-working-state TMs over {a,b,_} x words <= 2")]}
RULE = ("all 169 TMs with one working state over tape alphabet {a,_} (+ the same started in a halting state), every "
        "97th (7th) of the 83521 two-working-state TMs, random TMs with 1-3 working states, 1-2 input symbols, extra "
        "tape symbols, three blank symbols, partial transition functions (every fourth over {0,1} with states named q, q1, "
        "q11, q10, q0; every fifth also on a word of length 10-13), two hand-written machines whose runs pass through "
        "look-alike configurations; every second / third machine is followed by its complement built from the SAME "
        "transition table object (accept and reject exchanged) on the same words; per (TM, word): the verdict under budgets "
        "0,1,2,3,4,6,8,1000 and the recorded configuration sequence for one budget; non-trivial = the run takes >= 2 "
        "steps; distinct = distinct (TM, word, budget)")


def nontrivial(e):
    return len(e["seq"]) >= 3


def check(tier, seed):
    return base.standard_check(PID, tier, seed, tasks(tier, seed), MODELS[tier], RULE, nontrivial,
                               assumptions=["<= 3 working states, words <= 3, budgets <= 8 and 1000"])


def replay(path, seed):
    return base.standard_replay(PID, path, redrive)
