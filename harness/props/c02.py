"""C02 - bounded language enumeration is exact for every formalism."""
import random

from .. import abstraction as ab
from .. import universe as U
from . import base, gen, cfgsrc, pdasrc, tmsrc, c05
from ..worker import guarded

PID = "C02"


def tasks(tier, seed):
    hs = gen.hashseeds(tier, seed)
    ts = []
    q = tier == "quick"
    ts += [dict(t, what="dfa") for t in gen.dfa_src_tasks(3, "ab", 4, stride=9 if q else 1, pools=(0, 5))]
    ts += [dict(t, what="nfa") for t in gen.nfa_src_tasks(2, "ab", 4, stride=9 if q else 1)]
    ts += [{"kind": "rnd_nfa", "count": 250 if q else 1500, "seed": seed * 10 + i, "what": "nfa"} for i in range(2 if q else 8)]
    ts += [{"kind": "rnd_dfa", "count": 250 if q else 1500, "seed": seed * 10 + i, "what": "dfa"} for i in range(2 if q else 8)]
    ts += [{"kind": "re", "ops": o, "part": i, "parts": 2} for o in ((0, 1, 2) if q else (0, 1, 2, 3)) for i in range(2)]
    ts += [{"kind": "rnd_re", "count": 200 if q else 1500, "seed": seed * 10 + i} for i in range(2 if q else 8)]
    ts += [{"kind": "cfg", "part": i, "parts": 4, "stride": 12 if q else 1} for i in range(4)]
    ts += [{"kind": "rnd_cfg", "count": 150 if q else 800, "seed": seed * 10 + i} for i in range(2 if q else 8)]
    ts += [{"kind": "dense_cfg", "count": 100 if q else 400, "seed": seed * 10 + i} for i in range(2 if q else 8)]
    ts += [{"kind": "tall_cfg", "count": 12 if q else 60, "seed": seed * 10 + i} for i in range(2 if q else 8)]
    ts += [{"kind": "pda", "part": i, "parts": 4, "stride": 40 if q else 4} for i in range(4)]
    ts += [{"kind": "rnd_pda", "count": 80 if q else 500, "seed": seed * 10 + i} for i in range(2 if q else 8)]
    ts += [{"kind": "spelling_pda", "lo": 1 + 16 * i, "hi": min(64, 17 + 16 * i)} for i in range(4)]
    ts += [{"kind": "nfa_like_pda", "count": 150 if q else 800, "seed": seed * 10 + i} for i in range(2 if q else 8)]
    ts += [{"kind": "tm", "nwork": 1, "gamma": "a_", "lo": 0, "hi": 169, "stride": 1}]
    tot = tmsrc.tm_count(2, "a_")
    ts += [{"kind": "tm", "nwork": 2, "gamma": "a_", "lo": i * (tot // 4), "hi": (i + 1) * (tot // 4),
            "stride": 397 if q else 31} for i in range(4)]
    ts += [{"kind": "rnd_tm", "count": 150 if q else 1000, "seed": seed * 10 + i} for i in range(2 if q else 8)]
    return gen.spread(ts, hs)


def enum_events(kind, obj, A, sigma, src, ns, **opt):
    """one event per bound n: the enumerator, the generic generator, and the acceptance test on every word"""
    import gambatools.dfa_algorithms as da
    import gambatools.nfa_algorithms as na
    import gambatools.pda_algorithms as pa
    import gambatools.tm_algorithms as ta
    import gambatools.cfg_algorithms as ca
    import gambatools.regexp_algorithms as ra
    from gambatools.language_generator import generate_language
    from gambatools.global_settings import GambaTools
    limit = opt.get("limit", 1000)
    max_steps = opt.get("max_steps", 1000)
    enum = {"dfa": da.dfa_words_up_to_n, "nfa": na.nfa_words_up_to_n, "pda": pa.pda_words_up_to_n,
            "cfg": ca.cfg_words_up_to_n, "re": ra.regexp_words_up_to_n}
    acc = {"dfa": da.dfa_accepts_word, "nfa": na.nfa_accepts_word, "pda": pa.pda_accepts_word,
           "cfg": ca.cfg_accepts_word, "re": ra.regexp_accepts_word}
    default = GambaTools.pda_epsilon_closure_max_iterations
    GambaTools.pda_epsilon_closure_max_iterations = limit
    try:
        for n in ns:
            if kind == "tm":
                W, x1 = guarded(lambda: ta.tm_words_up_to_n(obj, n, max_steps) if max_steps != 1000
                                else ta.tm_words_up_to_n(obj, n), 60)
                Gn, x2 = guarded(lambda: generate_language(obj, n), 60) if max_steps == 1000 else (W, "none")
                Ac, x3 = guarded(lambda: [w for w in U.words_upto(sigma, n) if ta.tm_accepts_word(obj, w, max_steps)], 60)
            else:
                W, x1 = guarded(lambda: enum[kind](obj, n), 60)
                Gn, x2 = guarded(lambda: generate_language(obj, n), 60)
                Ac, x3 = guarded(lambda: [w for w in U.words_upto(sigma, n) if acc[kind](obj, w)], 60)
            exc = next((x for x in (x1, x2, x3) if x != "none"), "none")
            yield {"op": "enum", "kind": kind, "obj": A, "n": n, "sigma": [ab.enc(c) for c in sigma],
                   "words": ab.words(W or []), "gen": ab.words(Gn or []), "accepted": ab.words(Ac or []),
                   "limit": limit, "max_steps": max_steps, "exc": exc, "src": dict(src, ns=[n], opt=opt)}
    finally:
        GambaTools.pda_epsilon_closure_max_iterations = default


def build_events(src, ns=None, opt=None):
    k = src["kind"]
    rng = random.Random(str(sorted(src.items())))
    if k in ("exh_dfa", "rnd_dfa"):
        D = gen.build_dfa(src)
        yield from enum_events("dfa", D, ab.dfa(D), sorted(D.Sigma), src, ns or [0, 1, 3 if len(D.Sigma) < 3 else 2])
    elif k in ("exh_nfa", "rnd_nfa"):
        N = gen.build_nfa(src)
        yield from enum_events("nfa", N, ab.nfa(N), sorted(N.Sigma), src, ns or [0, 1, 3 if len(N.Sigma) < 3 else 2])
    elif k == "re":
        r = c05.from_abs(src["re"])
        sig = sorted(c05._syms(src["re"]) | {"a"})
        yield from enum_events("re", r, src["re"], sig, src, ns or [0, 1, 2, 3 if len(sig) < 3 else 2])
    elif k == "cfg_rules":
        G = cfgsrc.build(src)
        yield from enum_events("cfg", G, ab.cfg(G), sorted(G.Sigma), src, ns or [0, 1, 2, 3])
    elif k.startswith("pda"):
        P = pdasrc.build(src)
        o = opt or {"limit": rng.choice([3, 10, 30])}
        yield from enum_events("pda", P, ab.pda(P), sorted(P.Sigma), src, ns or [0, 1, 2], **o)
    elif k.startswith("tm"):
        T = tmsrc.build(src)
        o = opt or {"max_steps": rng.choice([1000, 1000, 2, 4, 7])}
        yield from enum_events("tm", T, ab.tm(T), sorted(T.Sigma), src, ns or [0, 1, 2], **o)


def drive(task):
    k = task["kind"]
    rng = random.Random(task.get("seed", 1))
    if task.get("what") == "dfa":
        for src in gen.dfa_srcs(task):
            yield from build_events(src)
    elif task.get("what") == "nfa":
        for src in gen.nfa_srcs(task):
            yield from build_events(src)
    elif k == "re":
        for i, r in enumerate(U.all_regexps(task["ops"], c05.LEAVES)):
            if i % task["parts"] == task["part"]:
                yield from build_events({"kind": "re", "re": ab.regexp(r)})
    elif k == "rnd_re":
        for i in range(task["count"]):
            r = U.random_regexp(rng, rng.choice([2, 3, 4, 5, 6]), rng.choice(["ab", "abc", "a"]))
            yield from build_events({"kind": "re", "re": ab.regexp(r)})
            if i % 4 == 3:
                # history: two trees over {0, 1, '0', '1'} that print alike (constants and symbols swapped)
                a = ab.regexp(U.random_regexp(rng, rng.choice([1, 2, 3]), ["0", "1"], p_zero=0.25, p_one=0.25))
                swap = {"zero": ["sym", "0"], "one": ["sym", "1"]}

                def sw(t):
                    if t[0] in swap:
                        return swap[t[0]]
                    if t[0] == "sym":
                        return ["zero"] if t[1] == "0" else ["one"]
                    return [t[0]] + [sw(x) for x in t[1:]]
                yield from build_events({"kind": "re", "re": a})
                yield from build_events({"kind": "re", "re": sw(a)})
    elif k == "cfg":
        for i, rules in enumerate(cfgsrc.small_grammars(3)):
            if i % task["parts"] == task["part"] and (i // task["parts"]) % task["stride"] == 0:
                yield from build_events({"kind": "cfg_rules", "rules": [list(r) for r in rules]})
        if task["part"] == 0:
            for rules in cfgsrc.SPECIAL:
                yield from build_events({"kind": "cfg_rules", "rules": [list(r) for r in rules]})
    elif k == "rnd_cfg":
        for i in range(task["count"]):
            src = cfgsrc.random_src(rng, cnf=rng.random() < 0.4)
            if i % 4 == 3:
                src["vnames"] = rng.randrange(len(U.VAR_NAME_POOLS))      # multi-character variable names
            yield from build_events(src)
            if i % 3 == 2:
                # history: the same rule list with ANOTHER start variable, in the same process
                lhs = sorted({r[0] for r in src["rules"]} - {src["rules"][0][0]})
                if lhs:
                    yield from build_events(dict(src, start=lhs[0]))
    elif k == "tall_cfg":
        for i in range(task["count"]):
            src, d = cfgsrc.tall_src(rng)
            yield from build_events(src, ns=[d + 2, d + 3, d + 4])
    elif k == "dense_cfg":
        for i in range(task["count"]):
            src = cfgsrc.dense_src(rng)
            if i % 2:
                src["vnames"] = rng.randrange(len(U.VAR_NAME_POOLS))
            yield from build_events(src, ns=[4])
    elif k == "pda":
        for i, src in enumerate(pdasrc.small_pdas(3)):
            if i % task["parts"] == task["part"] and (i // task["parts"]) % task["stride"] == 0:
                yield from build_events(src)
        if task["part"] == 0:
            for src in pdasrc.SPECIAL:
                yield from build_events(src)
    elif k == "rnd_pda":
        for i in range(task["count"]):
            yield from build_events({"kind": "pda_rnd", "seed": task["seed"] * 100000 + i, "multichar": 1})
    elif k == "spelling_pda":
        for m in range(task["lo"], task["hi"]):
            yield from build_events({"kind": "pda_spelling", "mask": m}, ns=[3, 4] if m % 4 == 1 else [3], opt={"limit": 30})
    elif k == "nfa_like_pda":
        for i in range(task["count"]):
            sd = task["seed"] * 100000 + i
            yield from build_events({"kind": "pda_nfa_like", "seed": sd}, ns=[0, 1, 3] if sd % 4 == 3 else None)
    elif k == "tm":
        for code in range(task["lo"], task["hi"], task["stride"]):
            yield from build_events({"kind": "tm_code", "nwork": task["nwork"], "gamma": task["gamma"], "code": code})
    elif k == "rnd_tm":
        for i in range(task["count"]):
            yield from build_events({"kind": "tm_rnd", "seed": task["seed"] * 100000 + i})


def redrive(src):
    ns = src.pop("ns", None)
    opt = src.pop("opt", None)
    yield from build_events(src, ns, opt or None)


MODELS = {"quick": [("Enumerate", "Enumerate_q.cfg", "frontier enumeration of all NFA(2,{a,b}) for n <= 3, level by level", {"allow_untaken": True}),
                    ("Enumerate", "EnumerateCfg_q.cfg", "sentential-form enumeration of all CNF grammars with <= 3 rules, n <= 3", {"allow_untaken": True}),
                    ("EnumerateP", "EnumerateP_q.cfg", "pda_words_up_to_n at heap level (the frontier map configuration -> SET OBJECT, one action "
                     "per (configuration, letter) in any order): all PDAs with <= 3 stack-free / push / pop moves on 2 states over {a,b}/{X} "
                     "whose closures stay below 5, n <= 1: exact language, level invariant, no two configurations share an object "
                     "(Mode = aliased - EnumerateP_aliased.cfg - shows the leak a shared object causes)", {"allow_untaken": True}),
                    ("Simplify", "Simplify_q.cfg", "regexp budget-splitting enumeration (EnumIsDenotation), trees <= 2 operators")],
          "thorough": [("Enumerate", "Enumerate_t.cfg", "NFA(2,{a,b}), n <= 4", {"allow_untaken": True}),
                       ("Enumerate", "EnumerateCfg_t.cfg", "CNF grammars with <= 4 rules, n <= 4", {"allow_untaken": True}),
                       ("EnumerateP", "EnumerateP_t.cfg", "pda_words_up_to_n at heap level, n <= 2 (0.9 M states)", {"allow_untaken": True}),
                       ("Simplify", "Simplify_t.cfg", "trees <= 3 operators, n <= 4")]}
RULE = ("objects of the six kinds from the universes of C01/C05/C07/C09/C11 (exhaustive small universes strided in "
        "quick, random beyond); per object and bound n in {0,1,2,3}: the kind's enumerator, generate_language and the "
        "kind's acceptance test on every word <= n; PDAs under closure limits {3,10,30}, TMs under step budgets "
        "{1000,2,4,7}; non-trivial = the language up to n is neither empty nor everything; distinct = distinct "
        "(kind, object, n)")


def nontrivial(e):
    tot = sum(len(e["sigma"]) ** k for k in range(e["n"] + 1))
    return 0 < len(e["accepted"]) < tot


def check(tier, seed):
    return base.standard_check(PID, tier, seed, tasks(tier, seed), MODELS[tier], RULE, nontrivial,
                               assumptions=["n <= 3 (n = 4 for dense CNF grammars)", "PDA equality judged only when no closure on any word <= n can "
                                            "exceed the limit (otherwise: enumerated words must still be in the "
                                            "language)"])


def replay(path, seed):
    return base.standard_replay(PID, path, redrive)
