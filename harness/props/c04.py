"""C04 - minimisation returns an equivalent DFA with no two equivalent states."""
from .. import abstraction as ab
from . import base, gen
from ..worker import guarded

PID = "C04"
ALGOS = ["dfa_minimize", "dfa_quotient", "dfa_hopfcroft"]


def tasks(tier, seed):
    hs = gen.hashseeds(tier, seed)
    if tier == "quick":
        ts = gen.dfa_src_tasks(3, "ab", 12, pools=(0, 1, 2, 3, 4, 5, 6, 7, 8))
        ts += gen.dfa_src_tasks(2, "ab", 1)
        ts += [{"kind": "rnd_dfa", "count": 500, "seed": seed * 50 + i, "maxk": 6} for i in range(3)]
        ts += [{"kind": "late_split_dfa", "count": 8, "seed": seed * 50 + i} for i in range(6)]
        ts += [{"kind": "counter_dfa", "count": 12, "seed": seed * 50 + i, "orders": 10} for i in range(4)]
        # alphabets of 5-7 and 17 symbols (a Python set and its copy may iterate in different orders from 5 elements on)
        ts += [{"kind": "rnd_dfa", "count": 40, "seed": seed * 50 + 40 + i, "maxk": 4, "alphabets": ["abcde", "abcdef", "abcdefg", "abcdefghijklmnopq"]} for i in range(2)]
    else:
        ts = gen.dfa_src_tasks(3, "ab", 16, pools=(0, 1, 2, 3, 4, 5, 6, 7, 8))
        ts += gen.dfa_src_tasks(4, "ab", 64, stride=41, pools=(0, 1, 2, 3, 4, 5, 6, 7, 8))
        ts += gen.dfa_src_tasks(4, "a", 4, pools=(0, 5))
        ts += [{"kind": "rnd_dfa", "count": 2000, "seed": seed * 50 + i, "maxk": 7} for i in range(32)]
        ts += [{"kind": "late_split_dfa", "count": 20, "seed": seed * 50 + i} for i in range(16)]
        ts += [{"kind": "counter_dfa", "count": 40, "seed": seed * 50 + i, "orders": 40} for i in range(16)]
        ts += [{"kind": "rnd_dfa", "count": 150, "seed": seed * 50 + 40 + i, "maxk": 5, "alphabets": ["abcde", "abcdef", "abcdefg", "abcdefghijklmnopq"]} for i in range(8)]
    return gen.spread(ts, hs)


def one(src):
    import gambatools.dfa_algorithms as da
    from gambatools.global_settings import GambaTools
    D = gen.build_dfa(src)
    from gambatools import _verif
    import contextlib
    import io
    # every third automaton is minimised with GambaTools.enable_logging on (the algorithms print their
    # intermediate partitions then; the result must not depend on it)
    logging = (src.get("code", src.get("seed", 0)) % 3 == 1) and len(D.Q) <= 8
    for algo in ALGOS:
        pre = ab.dfa(D)
        GambaTools.enable_logging = logging
        _verif.take()
        try:
            with contextlib.redirect_stdout(io.StringIO()):
                R, exc = guarded(lambda: getattr(da, algo)(D))
        finally:
            GambaTools.enable_logging = False
        tr = _verif.take()
        ev = {"op": "minimise", "algo": algo, "fa": pre, "exc": exc, "post": ab.dfa(D), "src": src}
        if logging:
            ev["logging"] = 1
        if len(D.Q) > 12:
            ev["big"] = 1
        if exc == "none":
            ev["res"] = ab.dfa(R)
        yield ev
        if algo == "dfa_hopfcroft" and exc == "none" and tr and tr[0]["ev"] == "hop.start":
            # (T) the observed splitter schedule, validated against Hopcroft.tla's step function
            enc = lambda B: sorted(ab.enc(x) for x in B)
            states = [{"P": [enc(B) for B in t["P"]], "W": [[enc(w[0]), ab.enc(w[1])] for w in t["W"]]}
                      for t in tr if t["ev"] == "hop.state"]
            pops = [{"W": enc(t["W"]), "a": ab.enc(t["a"])} for t in tr if t["ev"] == "hop.pop"]
            end = [t for t in tr if t["ev"] == "hop.end"]
            if end and len(states) == len(pops):
                yield {"op": "hop_trace", "fa": pre, "states": states, "pops": pops,
                       "final": [enc(B) for B in end[0]["P"]], "src": src}


def order_events(src, orders, only=None):
    """(G) dfa_minimize under FORCED orders of list(Q) (hook _verif.ordered, site tf.order): the table-filling sweep
    and the class construction of dfa_from_table both follow that order"""
    import random
    import gambatools.dfa_algorithms as da
    from gambatools import _verif
    from ..schedule_replay import OrderChooser
    if not _verif.ON:
        return
    D = gen.build_dfa(src)
    names = sorted(str(q) for q in D.Q)
    rng = random.Random(src["seed"])
    perms = [list(only)] if only is not None else [rng.sample(names, len(names)) for _ in range(orders)]
    for perm in perms:
        pre = ab.dfa(D)
        _verif.CHOOSER = OrderChooser("tf.order", perm)
        try:
            R, exc = guarded(lambda: da.dfa_minimize(D))
        finally:
            _verif.CHOOSER = None
        _verif.take()
        ev = {"op": "minimise", "algo": "dfa_minimize", "fa": pre, "exc": exc, "post": ab.dfa(D),
              "src": dict(src, tf_order=perm)}
        if exc == "none":
            ev["res"] = ab.dfa(R)
        yield ev


def drive(task):
    if task["kind"] == "sched_replay":
        from .. import schedule_replay
        yield from schedule_replay.drive_file(task["path"], task["lo"], task["hi"], task.get("stride", 1))
        return
    for src in gen.dfa_srcs(task):
        yield from one(src)
        if task["kind"] == "counter_dfa":
            yield from order_events(src, task.get("orders", 10))


def redrive(src):
    if src["kind"] == "gen_line":
        from .. import schedule_replay
        yield from schedule_replay.replay_line(src["line"])
        return
    order = src.pop("tf_order", None)
    if order is not None:
        yield from order_events(src, 1, only=order)
        return
    yield from one(src)


def _nerode_blocks(fa):
    """classes of the input DFA (plain partition refinement; used only to classify a failure)"""
    Q, S = fa["Q"], fa["S"]
    d = {(t[0], t[1]): t[2] for t in fa["T"]}
    F = set(fa["F"])
    blk = {q: (q in F) for q in Q}
    while True:
        sig = {q: (blk[q],) + tuple(blk[d[q, a]] for a in S) for q in Q}
        ids = {}
        new = {q: ids.setdefault(sig[q], len(ids)) for q in Q}
        if len(set(new.values())) == len(set(blk.values())):
            break
        blk = new
    out = {}
    for q, b in blk.items():
        out.setdefault(b, set()).add(q)
    return list(out.values())


def printed_names_collide(e):
    """two different Myhill-Nerode classes of the input print as the same state-set label"""
    names = ["{" + ",".join(sorted(b)) + "}" for b in _nerode_blocks(e["fa"])]
    return len(set(names)) < len(names)


MATCHERS = {"printed_names_collide": printed_names_collide}

MODELS = {
    "quick": [("Hopcroft", "Hopcroft_q.cfg", "all DFA(3,{a,b}) x all splitter pop orders"),
              ("Quotient", "Quotient_q.cfg", "all DFA(3,{a,b}) x all element orders inside a block"),
              ("TableFill", "TableFill_q.cfg", "all DFA(3,{a,b}) x all state orders (q = list(Q))")],
    "thorough": [("Hopcroft", "Hopcroft_q.cfg", "all DFA(3,{a,b}) x all splitter pop orders"),
                 ("Hopcroft", "Hopcroft_t.cfg", "all DFA(4,{a,b}) x all splitter pop orders"),
                 ("Quotient", "Quotient_q.cfg", "all DFA(3,{a,b})"),
                 ("Quotient", "Quotient_t.cfg", "all DFA(4,{a}) and DFA(4,{a,b}) sampled by constraint"),
                 ("TableFill", "TableFill_q.cfg", "all DFA(3,{a,b}) x all state orders")],
}
RULE = ("every DFA of DFA(3,{a,b}) and DFA(2,{a,b}) (exhaustive; DFA(4,{a,b}) strided in thorough) under six state "
        "naming schemes, plus random DFAs with 1-7 states over 1-3 symbols, plus 'late-split' DFAs with 60-100 states over "
        "4 symbols (12-15 anchor states told apart early, 40-60 states that differ only in the anchors they reach, a "
        "router tree; classes by Moore refinement); three minimisers each, every third automaton with "
        "GambaTools.enable_logging on, under several "
        "PYTHONHASHSEEDs; non-trivial = input has two equivalent states or an unreachable state; distinct = distinct "
        "(algorithm, abstract DFA)")


def nontrivial(e):
    if e["op"] == "hop_trace":
        return len(e["pops"]) >= 3
    if e["op"] == "sched_replay":
        return True
    return "res" in e and len(e["res"]["Q"]) < len(e["fa"]["Q"])


def schedules(res, done):
    """how many different splitter schedules of dfa_hopfcroft were observed (hash seeds x naming schemes)"""
    import json
    per = {}
    for _, path, _ in done:
        with open(path) as f:
            for ln in f:
                if '"hop_trace"' not in ln:
                    continue
                e = json.loads(ln)
                key = json.dumps(e["fa"], sort_keys=True)
                per.setdefault(key, set()).add(json.dumps(e["pops"]))
    multi = sum(1 for v in per.values() if len(v) > 1)
    res.notes["hopcroft_schedules_observed"] = {"dfas": len(per), "distinct_schedules": sum(len(v) for v in per.values()),
                                                "dfas_seen_under_more_than_one_schedule": multi,
                                                "all_schedules_in_model": "every behaviour of Hopcroft.tla (\\E wa \\in W) is "
                                                "checked by TLC; each observed schedule is validated as one of them (hop_trace)"}


def check(tier, seed):
    from .. import schedule_replay
    info = {}
    ts = tasks(tier, seed) + schedule_replay.gen_tasks(PID, "hop", tier, info) \
        + schedule_replay.gen_tasks(PID, "tf", tier, info, quick_stride=5)

    def extra(res, done):
        schedules(res, done)
        res.notes["model_schedules_forced_onto_impl"] = info

    return base.standard_check(PID, tier, seed, ts, MODELS[tier], RULE, nontrivial, matchers=MATCHERS,
                               extra=extra,
                               assumptions=["<= 7 states (60-100 for the late-split family)"])


def replay(path, seed):
    return base.standard_replay(PID, path, redrive)
