"""C19 - pure operations keep operands intact, independent of history and hash order."""
import io
import contextlib
import json
import os
import random

from .. import abstraction as ab
from .. import universe as U
from . import base, gen, cfgsrc, pdasrc, tmsrc, c05
from ..worker import guarded

PID = "C19"


# ------------------------------------------------------------------ argument sources (rebuilt per call)
def mk(kind, seed):
    rng = random.Random("%s/%d" % (kind, seed))
    if kind == "dfa":
        return U.random_dfa(rng, rng.randint(1, 4), rng.choice(["a", "ab"]), prefix=rng.choice(["s", "q"]))
    if kind in ("pairL", "pairR"):
        from . import c20
        D1, D2 = c20.build_pair({"kind": "rndpairs", "seed": seed - (17 if kind == "pairR" else 0)})
        return D1 if kind == "pairL" else D2
    if kind == "dfa_ab":
        return U.random_dfa(rng, rng.randint(1, 3), "ab", prefix="s")
    if kind == "dfa_ab2":
        return U.random_dfa(rng, rng.randint(1, 3), "ab", prefix="t")
    if kind == "nfa":
        return U.random_nfa(rng, rng.randint(1, 4), rng.choice(["a", "ab"]), eps=rng.choice(["", "ε", "_"]),
                            prefix=rng.choice(["s", "q"]), total=rng.random() < 0.3)
    if kind == "nfa2":
        return U.random_nfa(rng, rng.randint(1, 3), "ab", eps="ε", prefix="u")
    if kind == "nfa_q":
        # states named like the default generator's proposals (q0, q1, ...)
        return U.random_nfa(rng, rng.randint(2, 4), "ab", eps="ε", prefix="q")
    if kind == "nfa1":
        return U.random_nfa(rng, rng.randint(1, 3), "ab", eps="ε", prefix="v")
    if kind == "re":
        return U.random_regexp(rng, rng.randint(0, 5), ["a", "b"])
    if kind in ("re01A", "re01B"):
        # a small pool of trees over the leaves {0, 1, '0', '1'}; variant B swaps every constant with the symbol
        # that prints like it - the two variants print identically, denote different languages, and meet in one
        # process in an order that depends on the history
        from gambatools import regexp as R
        prng = random.Random("re01/%d" % (seed % 40))

        def tree(d):
            c = prng.random()
            if d == 0 or c < 0.3:
                leaf = prng.choice(["Z", "O", "s0", "s1", "s1", "O"])
                if kind == "re01B":
                    leaf = {"Z": "s0", "O": "s1", "s0": "Z", "s1": "O"}[leaf]
                return {"Z": R.Zero(), "O": R.One(), "s0": R.Symbol("0"), "s1": R.Symbol("1")}[leaf]
            if c < 0.5:
                return R.Iteration(tree(d - 1))
            return (R.Sum if c < 0.75 else R.Concat)(tree(d - 1), tree(d - 1))
        return tree(3)
    if kind == "cfg":
        src = cfgsrc.random_src(rng, cnf=rng.random() < 0.3)
        if rng.random() < 0.35:
            # the same rule list with another start variable (only the start differs)
            lhs = sorted({r[0] for r in src["rules"]})
            src["start"] = rng.choice(lhs)
        return U.make_cfg([tuple(r) for r in src["rules"]], start=src.get("start"))
    if kind in ("cfgA", "cfgB"):
        # a small pool of rule lists, each used with two different start variables: objects that
        # differ only in their start variable meet in one process, in an order that depends on the history
        prng = random.Random("pool/%d" % (seed % 25))
        src = cfgsrc.random_src(prng)
        lhs = sorted({r[0] for r in src["rules"]})
        return U.make_cfg([tuple(r) for r in src["rules"]], start=lhs[0] if kind == "cfgA" else lhs[-1])
    if kind == "cnf":
        while True:
            G = cfgsrc.build(cfgsrc.random_src(rng, cnf=True))
            if G.is_chomsky():
                return G
    if kind == "pda_tree":
        # a finite, branching epsilon closure of 127 / 255 / 511 configurations: complete under the default limit
        return pdasrc.tree_pda(6 + seed % 3)
    if kind == "pda":
        return pdasrc.build({"kind": "pda_rnd", "seed": seed})
    if kind == "pda_pp":
        # a PDA that already is in push/pop form with a single accepting state
        import gambatools.pda_algorithms as pa
        return pa.pda_to_push_pop(pdasrc.build({"kind": "pda_rnd", "seed": seed}))
    if kind == "tm":
        return tmsrc.build({"kind": "tm_rnd", "seed": seed})
    raise ValueError(kind)


def word_for(X, seed):
    rng = random.Random(seed)
    S = sorted(getattr(X, "Sigma", None) or "ab")
    return "".join(rng.choice(S) for _ in range(rng.randint(0, 3))) if S else ""


def ops_table():
    import gambatools.dfa_algorithms as da
    import gambatools.nfa_algorithms as na
    import gambatools.pda_algorithms as pa
    import gambatools.tm_algorithms as ta
    import gambatools.cfg_algorithms as ca
    import gambatools.regexp_algorithms as ra
    from gambatools import regexp as R
    from gambatools.language_generator import generate_language
    import gambatools.notebook_chomsky as nch
    V = "value"
    W = lambda f: (lambda X, s: f(X, word_for(X, s)))            # noqa
    N3 = lambda f: (lambda X, s: f(X, 3))                         # noqa
    U1 = lambda f: (lambda X, s: f(X))                            # noqa
    return {
        # name: (argument kinds, function(args..., seed), result kind)
        "dfa_accepts_word": (["dfa"], W(da.dfa_accepts_word), V),
        "dfa_words_up_to_n": (["dfa"], N3(da.dfa_words_up_to_n), V),
        "dfa_simulate_word": (["dfa"], W(da.dfa_simulate_word), V),
        "dfa_minimize": (["dfa"], U1(da.dfa_minimize), "fa"),
        "dfa_quotient": (["dfa"], U1(da.dfa_quotient), "fa"),
        "dfa_hopfcroft": (["dfa"], U1(da.dfa_hopfcroft), "fa"),
        "dfa_complement": (["dfa"], U1(da.dfa_complement), "fa"),
        "dfa_reverse": (["dfa"], U1(da.dfa_reverse), "fa"),
        "dfa_no_prefix": (["dfa"], U1(da.dfa_no_prefix), "fa"),
        "dfa_no_extend": (["dfa"], U1(da.dfa_no_extend), "fa"),
        "dfa_remove_unreachable_states": (["dfa"], U1(da.dfa_remove_unreachable_states), "fa"),
        "dfa_make_total": (["dfa"], U1(da.dfa_make_total), "fa"),
        "dfa_union": (["dfa_ab", "dfa_ab2"], lambda A, B, s: da.dfa_union(A, B), "fa"),
        "dfa_intersection": (["dfa_ab", "dfa_ab2"], lambda A, B, s: da.dfa_intersection(A, B), "fa"),
        "dfa_symmetric_difference": (["dfa_ab", "dfa_ab2"], lambda A, B, s: da.dfa_symmetric_difference(A, B), "fa"),
        "dfa_isomorphic": (["dfa_ab", "dfa_ab2"], lambda A, B, s: da.dfa_isomorphic(A, B), V),
        "dfa_isomorphic1": (["dfa_ab", "dfa_ab2"], lambda A, B, s: da.dfa_isomorphic1(A, B), V),
        "dfa_isomorphic/pairs": (["pairL", "pairR"], lambda A, B, s: da.dfa_isomorphic(A, B) if A.Sigma == B.Sigma else None, V),
        "dfa_isomorphic1/pairs": (["pairL", "pairR"], lambda A, B, s: da.dfa_isomorphic1(A, B) if A.Sigma == B.Sigma else None, V),
        "dfa_isomorphic1/pairs2": (["pairL", "pairR"], lambda A, B, s: da.dfa_isomorphic1(B, A) if A.Sigma == B.Sigma else None, V),
        "print_dfa": (["dfa"], U1(da.print_dfa), "text"),
        "dfa_to_regexp": (["dfa"], U1(ra.dfa_to_regexp), "re"),
        "nfa_accepts_word": (["nfa"], W(na.nfa_accepts_word), V),
        "nfa_words_up_to_n": (["nfa"], N3(na.nfa_words_up_to_n), V),
        "nfa_simulate_word": (["nfa"], lambda X, s: (lambda r: None if r is None else "run")(na.nfa_simulate_word(X, word_for(X, s))), V),
        "epsilon_closure": (["nfa"], lambda X, s: na.epsilon_closure(X, sorted(X.Q)[s % len(X.Q)]), V),
        "nfa_to_dfa": (["nfa"], U1(na.nfa_to_dfa), "fa"),
        "nfa_repetition": (["nfa2"], U1(na.nfa_repetition), "fa"),
        "nfa_union": (["nfa2", "nfa1"], lambda A, B, s: na.nfa_union(A, B), "fa"),
        "nfa_concatenation": (["nfa2", "nfa1"], lambda A, B, s: na.nfa_concatenation(A, B), "fa"),
        "nfa_union/qnames": (["nfa2", "nfa_q"], lambda A, B, s: na.nfa_union(A, B), "fa"),
        "nfa_union/qnames2": (["nfa_q", "nfa2"], lambda A, B, s: na.nfa_union(A, B), "fa"),
        "nfa_repetition/qnames": (["nfa_q"], U1(na.nfa_repetition), "fa"),
        "print_nfa": (["nfa2"], U1(na.print_nfa), "text"),
        "regexp_simplify": (["re"], U1(ra.regexp_simplify), "re"),
        "regexp_accepts_word": (["re"], lambda r, s: ra.regexp_accepts_word(r, word_for(None, s)), V),
        "regexp_words_up_to_n": (["re"], N3(ra.regexp_words_up_to_n), V),
        "regexp_to_nfa": (["re"], U1(ra.regexp_to_nfa), "fa"),
        "print_regexp_simple": (["re"], U1(R.print_regexp_simple), "text"),
        "cfg_accepts_word": (["cfg"], W(ca.cfg_accepts_word), V),
        "cfg_words_up_to_n": (["cfg"], N3(ca.cfg_words_up_to_n), V),
        "cfg_accepts_word/poolA": (["cfgA"], lambda G, s: [ca.cfg_accepts_word(G, w) for w in ("", "a", "b", "ab", "aa")], V),
        "cfg_accepts_word/poolB": (["cfgB"], lambda G, s: [ca.cfg_accepts_word(G, w) for w in ("", "a", "b", "ab", "aa")], V),
        "cfg_words_up_to_n/poolA": (["cfgA"], N3(ca.cfg_words_up_to_n), V),
        "cfg_words_up_to_n/poolB": (["cfgB"], N3(ca.cfg_words_up_to_n), V),
        # grammars that already are in Chomsky normal form take the path WITHOUT the (copying) conversion
        "cfg_accepts_word/cnf": (["cnf"], lambda G, s: [ca.cfg_accepts_word(G, w) for w in ("", "a", "b", "ab", "ba", "aab")], V),
        "cfg_words_up_to_n/cnf": (["cnf"], N3(ca.cfg_words_up_to_n), V),
        "generate_language/cnf": (["cnf"], N3(generate_language), V),
        "cfg_derive_word/cnf": (["cnf"], lambda G, s: (lambda ws: [str(ca.cfg_derive_word(G, w)) for w in sorted(ws)[:2]])(
            [w for w in ca.cfg_words_up_to_n(G, 3) if w]), V),
        # '0' and '1' as alphabet symbols next to the constants 0 and 1 (they print alike)
        "regexp_accepts_word/01A": (["re01A"], lambda r, s: [ra.regexp_accepts_word(r, w) for w in ("", "0", "1", "01", "11", "10")], V),
        "regexp_accepts_word/01B": (["re01B"], lambda r, s: [ra.regexp_accepts_word(r, w) for w in ("", "0", "1", "01", "11", "10")], V),
        "regexp_words_up_to_n/01A": (["re01A"], N3(ra.regexp_words_up_to_n), V),
        "regexp_words_up_to_n/01B": (["re01B"], N3(ra.regexp_words_up_to_n), V),
        "regexp_simplify/01A": (["re01A"], U1(ra.regexp_simplify), "re"),
        "regexp_simplify/01B": (["re01B"], U1(ra.regexp_simplify), "re"),
        "regexp_to_nfa/01A": (["re01A"], U1(ra.regexp_to_nfa), "fa"),
        "regexp_to_nfa/01B": (["re01B"], U1(ra.regexp_to_nfa), "fa"),
        "cfg_to_chomsky": (["cfg"], U1(ca.cfg_to_chomsky), "cfg"),
        "cfg_add_new_start_variable": (["cfg"], U1(ca.cfg_add_new_start_variable), "cfg"),
        "cfg_remove_epsilon_rules": (["cfg"], U1(ca.cfg_remove_epsilon_rules), "cfg"),
        "cfg_eliminate_unit_rules": (["cfg"], U1(ca.cfg_eliminate_unit_rules), "cfg"),
        "cfg_make_rules_of_length_two": (["cfg"], U1(ca.cfg_make_rules_of_length_two), "cfg"),
        "cfg_eliminate_terminals": (["cfg"], U1(ca.cfg_eliminate_terminals), "cfg"),
        "cfg_remove_inproductive_variables": (["cfg"], U1(ca.cfg_remove_inproductive_variables), "cfg"),
        "cfg_remove_useless_rules": (["cfg"], U1(ca.cfg_remove_useless_rules), "cfg"),
        "cfg_apply_chomsky3": (["cfg"], lambda G, s: nch.cfg_apply_chomsky(G, 3, "S"), "cfg"),
        "cfg_cyk_matrix": (["cnf"], lambda G, s: sorted((k, sorted(v)) for k, v in ca.cfg_cyk_matrix(G, word_for(G, s) or "a").items() if v), V),
        "pda_accepts_word": (["pda"], W(pa.pda_accepts_word), V),
        "pda_words_up_to_n": (["pda"], lambda P, s: pa.pda_words_up_to_n(P, 2), V),
        # with the library's DEFAULT iteration limit (the other PDA operations run under a small explicit one)
        "pda_accepts_word/default_limit": (["pda_tree"], lambda P, s: [pa.pda_accepts_word(P, w) for w in ("", "a", "aa")], V),
        "pda_to_push_pop": (["pda"], U1(pa.pda_to_push_pop), "pda"),
        "pda_to_accept_on_empty_stack": (["pda"], U1(pa.pda_to_accept_on_empty_stack), "pda"),
        "pda_to_cfg": (["pda"], U1(pa.pda_to_cfg), "cfg"),
        "pda_to_cfg/pushpop_input": (["pda_pp"], U1(pa.pda_to_cfg), "cfg"),
        "print_pda": (["pda"], U1(pa.print_pda), "text"),
        "tm_accepts_word": (["tm"], lambda T, s: ta.tm_accepts_word(T, word_for(T, s), 50), V),
        "tm_words_up_to_n": (["tm"], lambda T, s: ta.tm_words_up_to_n(T, 2, 30), V),
        "tm_simulate_word": (["tm"], lambda T, s: ta.tm_simulate_word(T, word_for(T, s), 20), V),
        "print_tm": (["tm"], U1(ta.print_tm), "text"),
        "generate_language/nfa": (["nfa"], N3(generate_language), V),
        "generate_language/cfg": (["cfg"], N3(generate_language), V),
    }


def proj(x, rkind):
    if rkind in ("value", "text"):
        def norm(v):
            if isinstance(v, (set, frozenset)):
                return sorted(norm(y) for y in v)
            if isinstance(v, (list, tuple)):
                return [norm(y) for y in v]
            if isinstance(v, bool) or v is None:
                return str(v)
            if isinstance(v, str):
                return ab.enc(v)
            return v
        return norm(x)
    if rkind == "fa":
        return ab.fa(x)
    if rkind == "re":
        return ab.regexp(x)
    if rkind == "cfg":
        return ab.cfg(x)
    if rkind == "pda":
        return ab.pda(x)
    raise ValueError(rkind)


def snapshot(args):
    return [ab.project(a)["v"] for a in args]


def warm_up(args):
    """read-only queries on the arguments before the call under test (another kind of history: a
    defaultdict read materialises empty entries, caches get filled)"""
    import gambatools.nfa_algorithms as na
    import gambatools.dfa_algorithms as da
    import gambatools.cfg_algorithms as ca
    import gambatools.pda_algorithms as pa
    from gambatools.nfa import NFA
    from gambatools.dfa import DFA
    from gambatools.cfg import CFG
    from gambatools.pda import PDA
    for a in args:
        try:
            if isinstance(a, NFA):
                na.nfa_accepts_word(a, "".join(sorted(a.Sigma))[:2])
                na.nfa_words_up_to_n(a, 2)
            elif isinstance(a, DFA):
                da.dfa_words_up_to_n(a, 2)
            elif isinstance(a, CFG):
                ca.cfg_accepts_word(a, "a")
            elif isinstance(a, PDA):
                pa.pda_accepts_word(a, "a")
        except Exception:
            pass


def clobber(x):
    """The caller owns the result of a pure operation and may hand it to the library's IN-PLACE operations.
    (Another kind of history: a result that shares structure with its operand passes every check until some
    later library call changes the result in place.)  Only library calls are used, no direct container edits:
    the statement speaks of library calls."""
    import gambatools.cfg_algorithms as ca
    import gambatools.pda_algorithms as pa
    import gambatools.dfa_algorithms as da
    from gambatools.cfg import CFG
    from gambatools.pda import PDA
    from gambatools.dfa import DFA
    ops = []
    if isinstance(x, CFG):
        ops = [ca.cfg_remove_useless_rules_in_place, ca.cfg_to_chomsky_in_place]
    elif isinstance(x, PDA):
        ops = [pa.pda_to_accept_on_empty_stack_in_place, pa.pda_to_push_pop_in_place]
    elif isinstance(x, DFA):
        ops = [da.dfa_make_total_in_place]
    for f in ops:
        try:
            guarded(lambda: f(x), 20)
        except Exception:
            pass


def run_case(case, table, logging):
    from gambatools.global_settings import GambaTools
    kinds, fn, rkind = table[case["opname"]]
    args = [mk(k, case["seed"] + 17 * i) for i, k in enumerate(kinds)]
    if case["seed"] % 2 == 0:
        warm_up(args)
    before = snapshot(args)
    GambaTools.enable_logging = logging
    default_limit = GambaTools.pda_epsilon_closure_max_iterations
    if not case["opname"].endswith("/default_limit"):
        GambaTools.pda_epsilon_closure_max_iterations = 60
    buf = io.StringIO()
    try:
        with contextlib.redirect_stdout(buf):
            r1, x1 = guarded(lambda: fn(*args, case["seed"]), 30)
            mid = snapshot(args)
            r2, x2 = guarded(lambda: fn(*args, case["seed"]), 30)
    finally:
        GambaTools.enable_logging = False
        GambaTools.pda_epsilon_closure_max_iterations = default_limit
    p1 = proj(r1, rkind) if x1 == "none" else "none"
    p2 = proj(r2, rkind) if x2 == "none" else "none"
    # the results are the caller's: both are changed in place, then the operands are looked at again
    if x1 == "none":
        clobber(r1)
    if x2 == "none" and r2 is not r1:
        clobber(r2)
    after = snapshot(args)
    ev = {"op": "pure_call", "opname": case["opname"], "case": case["id"], "rkind": rkind, "before": before,
          "after": after if mid == before else mid, "exc": x1, "exc2": x2, "logging": logging,
          "res": p1, "res2": p2,
          "src": {"kind": "case", "opname": case["opname"], "seed": case["seed"], "id": case["id"],
                  "logging": logging}}
    return ev


def case_list(seed, n):
    names = sorted(ops_table().keys())
    # operations whose VALUE could depend on a set-iteration order get more cases
    heavy = [x for x in names if x.startswith("dfa_isomorphic") or "/qnames" in x or x in ("dfa_to_regexp", "nfa_to_dfa", "dfa_hopfcroft",
                                                                          "dfa_minimize", "cfg_eliminate_unit_rules")]
    names = names + heavy * 4 + [x for x in names if "/pairs" in x] * 25
    rng = random.Random(seed)
    return [{"id": i, "opname": names[i % len(names)], "seed": seed * 1000003 + rng.randrange(10 ** 6)} for i in range(n)]


def tasks(tier, seed):
    q = tier == "quick"
    n = 1800 if q else 10000
    hseeds = [0, 1, seed % 1000 + 2, 3, 4] if q else list(range(12))
    ts = []
    for i, h in enumerate(hseeds):
        ts.append({"kind": "cases", "seed": seed, "n": n, "order": i, "logging": i % 2 == 1, "hashseed": h})
    return ts


def drive(task):
    if task["kind"] == "gen_replay":
        from .. import session_replay
        for ev in session_replay.drive_file(task["path"], task["lo"], task["hi"]):
            if ev["op"] in ("operands_kept", "session_replay"):
                yield ev
        return
    if task["kind"] == "dfa_gen_replay":
        from .. import dfa_session_replay
        yield from dfa_session_replay.drive_file(task["path"], task["lo"], task["hi"])
        return
    table = ops_table()
    cases = case_list(task["seed"], task["n"])
    random.Random(task["order"]).shuffle(cases)          # another history in every run
    for c in cases:
        yield run_case(c, table, task["logging"])


def redrive(src):
    if src["kind"] == "gen_line":
        from .. import session_replay
        for ev in session_replay.replay_line(src["line"]):
            if ev["op"] in ("operands_kept", "session_replay"):
                yield ev
        return
    if src["kind"] == "dfa_gen_line":
        from .. import dfa_session_replay
        yield from dfa_session_replay.replay_line(src["line"])
        return
    if src["kind"] == "cases_pair":
        table = ops_table()
        for lg in (False, True):
            yield run_case({"id": src["id"], "opname": src["opname"], "seed": src["seed"]}, table, lg)
        return
    yield run_case({"id": src["id"], "opname": src["opname"], "seed": src["seed"]}, ops_table(), src["logging"])


def derive(done, pid):
    """group the runs of one case (other process / hash seed / history / logging) into one event"""
    from .. import common
    groups = {}
    for task, path, meta in done:
        if task.get("kind") != "cases":
            continue
        with open(path) as f:
            for ln in f:
                e = json.loads(ln)
                if e["op"] == "pure_call":
                    groups.setdefault(e["case"], []).append(e)
    out = os.path.join(common.outdir(pid, "events"), "ev_derived.ndjson")
    n = 0
    with open(out, "w") as f:
        for cid, evs in sorted(groups.items()):
            if len(evs) < 2:
                continue
            ok = [e for e in evs if e["exc"] == "none"]
            ev = {"op": "same_elsewhere", "opname": evs[0]["opname"], "rkind": evs[0]["rkind"], "case": cid,
                  "id": 900000000 + cid, "results": [e["res"] for e in ok] or ["none"], "excs": [e["exc"] for e in evs],
                  "hashseeds": [e["hashseed"] for e in evs], "hashseed": 0,
                  "src": {"kind": "cases_pair", "opname": evs[0]["opname"], "seed": evs[0]["src"]["seed"], "id": cid}}
            f.write(json.dumps(ev, sort_keys=True) + "\n")
            n += 1
    return out, n


_DS = ("container-level heap model of the DFA API (complement, make_total, make_total_in_place, union, remove_unreachable, "
       "no_extend): OperandsUnchanged, well-formed objects, result languages over all histories of <= 3 calls on every "
       "partial DFA over 2 states")
MODELS = {"quick": [("Session", "Session_q.cfg", "heap-level model: OperandsUnchanged over all histories of <= 3 constructions"),
                    ("DfaSession", "DfaSession_fixed.cfg", _DS, {"allow_untaken": True})],
          "thorough": [("Session", "Session_t.cfg", "all histories of <= 4 constructions"),
                       ("Session", "Session_t0.cfg", "epsilon = ''"),
                       ("DfaSession", "DfaSession_fixed.cfg", _DS, {"allow_untaken": True}),
                       ("DfaSession", "DfaSession_t.cfg", "the same over {a,b}", {"allow_untaken": True})]}
RULE = ("59 pure operations of the library (acceptance tests, enumerators, simulators, printers, minimisers, products, "
        "conversions, normal forms without _in_place, generate_language) on seeded random arguments; every case is run "
        "in 3 (12) processes with different PYTHONHASHSEED, in a different order (history) and with logging on/off, "
        "twice in a row on the same argument objects, then the library's in-place operations are applied to both results "
        "(Chomsky conversion / useless-rule removal for grammars, the PDA normal forms, totalisation for DFAs); arguments are projected before, in between and after; the runs of one case "
        "are grouped and compared (identical values / exactly equal languages / languages up to 3 for grammars and "
        "PDAs); plus the exhaustive Session.tla behaviours replayed (operands before/after every call); non-trivial = "
        "the result is an object (not a value); distinct = distinct (operation, arguments)")


def nontrivial(e):
    return e.get("rkind", "value") not in ("value", "text") or e["op"] == "operands_kept"


MATCHERS = {}


def check(tier, seed):
    from . import c18
    info = {}
    from .. import dfa_session_replay
    ts = tasks(tier, seed) + c18.gen_tasks(PID, tier, info) + dfa_session_replay.gen_tasks(PID, tier, info)

    def extra(res, done):
        res.notes["spec_behaviours_replayed_into_impl"] = info

    return base.standard_check(PID, tier, seed, ts, MODELS[tier], RULE, nontrivial, matchers=MATCHERS,
                               derive=lambda done: derive(done, PID), extra=extra,
                               assumptions=["languages of grammars / PDAs are compared on words <= 3",
                                            "PDA operations under closure limit 60, TM operations under budgets 20-50"])


def replay(path, seed):
    return base.standard_replay(PID, path, redrive)
