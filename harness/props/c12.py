"""C12 - an exercise checker never reports OK for a wrong answer."""
from . import base, gen, chk

PID = "C12"


def tasks(tier, seed):
    hs = gen.hashseeds(tier, seed)
    n = 20 if tier == "quick" else 150
    exh = 6 if tier == "quick" else 64
    ts = []
    for i, fam in enumerate(chk.FAMILIES):
        for j in range(1 if tier == "quick" else 4):
            if fam.endswith("/exh"):
                if j == 0:
                    ts.append({"kind": "fam", "fam": fam, "lo": seed * 7, "count": exh})
                continue
            m = n * 3 if fam in ("nfa2dfa", "lang_file/x") else n        # name-sensitive checker: more instances (cheap ones)
            ts.append({"kind": "fam", "fam": fam, "lo": seed * 100000 + j * m, "count": m})
    return gen.spread(ts, hs)


def drive(task):
    for s in range(task["lo"], task["lo"] + task["count"]):
        yield from chk.events_for(task["fam"], s, "all")


def redrive(src):
    for e in chk.events_for(src["fam"], src["seed"], "all"):
        if e.get("mutation", "own") == src.get("mutation", "own"):
            yield e


_M = [("Checker", "Checker_%s.cfg" % op, "operational model of check_product_automaton (%s): every reference pair x every "
       "answer over three state names (one of them not a product state): model OK => criterion" % op)
      for op in ("union", "intersection", "symmetric_difference")]
MODELS = {"quick": _M, "thorough": _M}
RULE = ("25 checker families x seeded exercise instances (small random reference DFAs/NFAs/grammars/regexps); per "
        "instance the library's own answer and 3-6 single mutations of it (flip a final state, retarget a transition, "
        "other initial state, extra state, drop/flip a table cell or row, another phase's grammar, skip a derivation "
        "step, the other derivation order, ...), rendered with the library's printers and submitted to the real "
        "checker; non-trivial = a mutated answer; distinct = distinct (family, references, answer)")


def nontrivial(e):
    return e.get("mutation") != "own"


def regexp_answer_with_symbol_0_or_1(e):
    """a dfa2regexp answer over the alphabet {0,1}: the printed symbols are read back as the constants"""
    import json
    return e["family"] == "dfa2regexp" and ('["sym", "0"]' in json.dumps(e["ans"]) or '["sym", "1"]' in json.dumps(e["ans"]))


MATCHERS = {"regexp_answer_with_symbol_0_or_1": regexp_answer_with_symbol_0_or_1}


def check(tier, seed):
    return base.standard_check(PID, tier, seed, tasks(tier, seed), MODELS[tier], RULE, nontrivial, matchers=MATCHERS,
                               assumptions=["answers are rendered from abstract values with the library's printers "
                                            "(C16); ill-formed texts are covered by C17", "length bounds 2-4",
                                            "PDA answers without epsilon moves that push (closures far below the iteration limit), TM answers under the default step budget"])


def replay(path, seed):
    return base.standard_replay(PID, path, redrive)
