"""The standard shape of a check: (M) model runs, (J) recorded events judged by TLC."""
import importlib
import json
import os

from .. import common, tlc


def run_models(res, models, workers=16, sequential=False):
    """models: list of (module, cfg, constants-description[, kwargs]).  Run concurrently, sharing the
    cores.  A model-level violation on the current tree is reported by the caller."""
    from concurrent.futures import ThreadPoolExecutor
    if not models:
        return []
    w = workers if sequential else max(2, workers // len(models))

    def one(m):
        kw = dict(m[3]) if len(m) > 3 else {}
        allow = kw.pop("allow_untaken", False)
        r = tlc.run_model(m[0], m[1], workers=w, **kw)
        never = [a for a, (d, t) in r["coverage"].items() if t == 0 and not a.endswith("!Init")]
        if never and not allow and r["ok"]:
            raise tlc.MachineryError("vacuous model run %s/%s: actions never taken: %s" % (m[0], m[1], never))
        return r

    with ThreadPoolExecutor(max_workers=1 if sequential else len(models)) as ex:
        out = list(ex.map(one, models))
    for m, r in zip(models, out):
        res.add_model(r, m[2])
    return out


def classify(pid, fails, events, res, matchers):
    """fails: {id -> [clauses]}.  Known findings are matched per (event, clause)."""
    known = [k for k in common.load_known() if k["property"] == pid]
    for eid in sorted(fails):
        e = events[eid]
        left = []
        for c in fails[eid]:
            if c.startswith("binding_"):
                # model-conformance clause: the implementation took a step the model does not take in
                # exactly this form.  Recorded, never a property violation by itself.
                bm = res.notes.setdefault("binding_mismatches", {})
                bm[c] = bm.get(c, 0) + 1
                continue
            hit = None
            for k in known:
                fn = matchers.get(k["matcher"])
                if fn is None:
                    raise tlc.MachineryError("known finding %s names unknown matcher %s" % (k["id"], k["matcher"]))
                if c in k["clauses"] and fn(e):
                    hit = k
                    break
            if hit:
                key = "%s: %s" % (hit["id"], hit["what"])
                res.known_hits[key] = res.known_hits.get(key, 0) + 1
            else:
                left.append(c)
        if left:
            cls = "%s/%s: %s" % (e["op"], e.get("name", e.get("algo", e.get("variant", e.get("family", e.get("kind", ""))))), ",".join(left))
            vc = res.notes.setdefault("violation_classes", {})
            vc[cls] = vc.get(cls, 0) + 1
            desc = "op=%s clauses=%s hashseed=%s src=%s" % (e["op"], ",".join(left), e.get("hashseed"),
                                                            json.dumps(e.get("src"), sort_keys=True)[:400])
            res.violation(desc, {"clauses": left, "event": e})


def standard_check(pid, tier, seed, tasks, models, rule, nontrivial, assumptions=(), matchers=None,
                   judge_module="Judge", judge_cfg="Judge.cfg", model_violation=None, extra=None, derive=None):
    res = common.Result(pid, tier, seed)
    res.rule = rule
    res.assumptions = list(assumptions)
    # thorough-tier models differ a lot in size: one after the other, each with all cores
    mres = run_models(res, models, sequential=(tier == "thorough"))
    for r in mres:
        if not r["ok"]:
            if model_violation:
                model_violation(res, r)
            else:
                res.violation("model %s/%s violates %s" % (r["module"], r["cfg"], r["violated"]),
                              {"model": r["module"], "cfg": r["cfg"], "tlc_output_tail": r["out"][-6000:]})
    done = common.run_workers(pid, tasks)
    paths = [p for _, p, _ in done]
    n_events = sum(m["events"] for _, _, m in done)
    if derive:
        dpath, dn = derive(done)
        paths.append(dpath)
        n_events += dn
    fails, total, jw = tlc.run_judge(paths, module=judge_module, cfgname=judge_cfg)
    if total != n_events:
        raise tlc.MachineryError("judge consumed %d of %d events" % (total, n_events))
    ops = {}
    for _, _, m in done:
        for k, v in m["ops"].items():
            ops[k] = ops.get(k, 0) + v
    # nontrivial / distinct counting and samples: one pass over the event files
    seen = set()
    nt = 0
    samples = []
    failing = {}
    for p in paths:
        with open(p) as f:
            for ln in f:
                e = json.loads(ln)
                if e["id"] in fails:
                    failing[e["id"]] = e
                key = json.dumps({k: v for k, v in e.items() if k not in ("id", "src", "hashseed", "wall_ms")},
                                 sort_keys=True)
                h = hash(key)
                if h in seen:
                    continue
                seen.add(h)
                if nontrivial(e):
                    nt += 1
                    if len(samples) < 4 and (nt % 997 == 1):
                        samples.append({k: v for k, v in e.items() if k != "src"})
    classify(pid, fails, failing, res, matchers or {})
    res.traces = total - len(fails)
    res.evaluations = total
    res.nontrivial = nt
    res.samples = samples
    res.notes["events_per_op"] = ops
    res.notes["hash_seeds"] = sorted({t.get("hashseed", 0) for t in tasks})
    res.notes["judge_wall_s"] = round(jw, 1)
    res.notes["driver_wall_s"] = round(sum(m["wall_s"] for _, _, m in done), 1)
    res.exhaustive = False
    if extra:
        extra(res, done)
    return res.finish()


def standard_replay(pid, path, redrive, judge_module="Judge", judge_cfg="Judge.cfg"):
    """Re-execute the recorded case on the current tree (same hash seed) and re-judge it with TLC."""
    import subprocess
    with open(path) as f:
        rep = json.load(f)["replay"]
    if "event" not in rep:
        print("replay of a model-level violation: re-run the check; TLC output tail follows")
        print(rep.get("tlc_output_tail", ""))
        return 1
    e = rep["event"]
    d = common.outdir(pid, "replay_run")
    tpath = os.path.join(d, "task.json")
    epath = os.path.join(d, "ev.ndjson")
    with open(tpath, "w") as f:
        json.dump({"kind": "__replay__", "src": e["src"], "hashseed": e.get("hashseed", 0), "index": 0}, f)
    p = subprocess.run([common.PY, "-m", "harness.worker", pid, tpath, epath], cwd=common.VERIF,
                       env=common.worker_env(e.get("hashseed", 0)), stdout=subprocess.PIPE, stderr=subprocess.PIPE,
                       text=True)
    if p.returncode != 0:
        print(p.stderr)
        return 2
    fails, total, _ = tlc.run_judge([epath], module=judge_module, cfgname=judge_cfg)
    evs = common.load_events([epath])
    bad = 0
    for eid, cl in fails.items():
        if evs[eid]["op"] == e["op"] and set(cl) & set(rep["clauses"]):
            bad += 1
            print("REPRODUCED op=%s clauses=%s" % (evs[eid]["op"], cl))
            print(json.dumps(evs[eid], sort_keys=True)[:2000])
    if bad:
        print("VIOLATION property=%s replay=%s" % (pid, path))
        return 1
    print("not reproduced on the current tree (%d events re-judged)" % total)
    return 0
