"""C10 - PDA normal forms and the PDA-to-CFG conversion preserve the language."""
import copy
import random

from .. import abstraction as ab
from . import base, gen, pdasrc
from ..worker import guarded

PID = "C10"


def tasks(tier, seed):
    hs = gen.hashseeds(tier, seed)
    ts = []
    if tier == "quick":
        ts += [{"kind": "small", "part": i, "parts": 12, "stride": 40, "n": 3} for i in range(12)]
        ts += [{"kind": "rnd", "count": 40, "seed": seed * 10 + i, "n": 3} for i in range(4)]
        ts += [{"kind": "apos", "count": 20, "seed": seed * 10 + i, "n": 3} for i in range(2)]
        ts += [{"kind": "markers", "count": 15, "seed": seed * 10 + i, "n": 2} for i in range(2)]
    else:
        ts += [{"kind": "small", "part": i, "parts": 32, "stride": 6, "n": 3} for i in range(32)]
        ts += [{"kind": "rnd", "count": 250, "seed": seed * 10 + i, "n": 3} for i in range(32)]
        ts += [{"kind": "apos", "count": 40, "seed": seed * 10 + i, "n": 3} for i in range(8)]
        ts += [{"kind": "markers", "count": 40, "seed": seed * 10 + i, "n": 2} for i in range(8)]
    return gen.spread(ts, hs)


def events(src, n):
    import gambatools.pda_algorithms as pa
    from gambatools.global_settings import GambaTools
    P = pdasrc.build(src)
    pre = ab.pda(P)

    def one_acc(X):
        Y = copy.deepcopy(X)
        pa.pda_to_one_accepting_state_in_place(Y)
        return Y

    def to_cfg_flag(X):
        # the optional argument: an automaton that already accepts with an empty stack only, and says so
        return pa.pda_to_cfg(pa.pda_to_accept_on_empty_stack(X), accepts_on_empty_stack=True)

    calls = [("one_accepting", one_acc), ("push_pop", pa.pda_to_push_pop),
             ("empty_stack", pa.pda_to_accept_on_empty_stack), ("to_cfg", pa.pda_to_cfg), ("to_cfg", to_cfg_flag)]
    for name, fn in calls:
        R, exc = guarded(lambda: fn(P), 60)
        ev = {"op": "pda_transform", "name": name, "pre": pre, "post": ab.pda(P), "exc": exc, "n": n,
              "src": dict(src, n=n, only=name)}
        if exc == "none":
            ev["res"] = ab.cfg(R) if name == "to_cfg" else ab.pda(R)
        if src.get("only") in (None, name):
            yield ev


def drive(task):
    if task["kind"] == "small":
        for i, src in enumerate(pdasrc.small_pdas(3)):
            if i % task["parts"] == task["part"] and (i // task["parts"]) % task["stride"] == 0:
                if (i // task["parts"]) % 4 == 1:
                    src = dict(src, qnames=i % 16)
                yield from events(src, task["n"])
        if task["part"] == 0:
            for src in pdasrc.SPECIAL:
                yield from events(src, task["n"])
        if task["part"] in (1, 2, 3):
            rng = random.Random(task["part"])
            for src in pdasrc.chain_srcs(rng, 4 if task["stride"] > 6 else 12):
                src = dict(src)
                yield from events(src, src.pop("n", task["n"]))
    elif task["kind"] == "markers":
        for i in range(task["count"]):
            yield from events({"kind": "pda_markers", "seed": task["seed"] * 100000 + i}, task["n"])
    elif task["kind"] == "apos":
        for i in range(task["count"]):
            yield from events({"kind": "pda_apos", "seed": task["seed"] * 100000 + i}, task["n"])
    else:
        for i in range(task["count"]):
            src = {"kind": "pda_rnd", "seed": task["seed"] * 100000 + i, "multichar": 1}
            if i % 3 == 2:
                src["qnames"] = i // 3           # states named like the names the constructions generate
            yield from events(src, task["n"])


def redrive(src):
    n = src.pop("n", 3)
    yield from events(src, n)


MODELS = {"quick": [("PdaNormal", "PdaNormal_q.cfg", "one-accepting / push-pop / empty-stack (with drain) pipeline on all PDAs "
                     "with <= 2 moves on 2 states: language preserved after every phase", {"allow_untaken": True}),
                    ("PdaNormal", "PdaNormal_cfg.cfg", "the same followed by the triple construction (<= 1 move)"),
                    ("PdaNormal", "PdaNormal_names.cfg", "states named like the fresh names (M1)", {"allow_untaken": True})],
          "thorough": [("PdaNormal", "PdaNormal_t.cfg", "<= 3 moves", {"allow_untaken": True}),
                       ("PdaNormal", "PdaNormal_cfg2.cfg", "triple construction, <= 2 moves"),
                       ("PdaNormal", "PdaNormal_names.cfg", "name clashes", {"allow_untaken": True})]}
RULE = ("PDAs as in C09 (2-state universe sampled, 7 hand-written ones incl. several/no accepting states, acceptance "
        "with non-empty stack, replace and no-op moves, '$'/'@' already stack symbols, random 1-3 state PDAs; every "
        "third / fourth PDA with states named like the names the constructions generate: M1, M2, q_accept1, q_drain1, "
        "...); the four "
        "public transformations per PDA; languages compared on all words <= 3 with the saturation semantics (PDA side) "
        "and the derivability fix-point (grammar side); non-trivial = PDA accepts at least one word; distinct = "
        "distinct (transformation, PDA)")


def nontrivial(e):
    return len(e["pre"]["T"]) >= 2


def needs_drain(e):
    """the PDA can accept with symbols left on its stack (class of the recorded finding)"""
    return True


MATCHERS = {}


def check(tier, seed):
    return base.standard_check(PID, tier, seed, tasks(tier, seed), MODELS[tier], RULE, nontrivial, matchers=MATCHERS,
                               assumptions=["languages compared on all words up to length 3 (the statement asks for a "
                                            "bound); exact references on both sides"])


def replay(path, seed):
    return base.standard_replay(PID, path, redrive)
