"""C05 - regexp matching and simplification follow the denotational semantics."""
import random

from .. import abstraction as ab
from .. import universe as U
from . import base, gen
from ..worker import guarded

PID = "C05"
LEAVES = ["0", "1", "a", "b"]


def tasks(tier, seed):
    hs = gen.hashseeds(tier, seed)
    ts = []
    if tier == "quick":
        ts += [{"kind": "exh_re", "ops": o, "part": i, "parts": 4, "n": 4} for o in (0, 1, 2) for i in range(4)]
        ts += [{"kind": "rnd_re", "count": 500, "seed": seed * 10 + i, "n": 4} for i in range(4)]
        ts += [{"kind": "rel_re", "count": 120, "seed": seed * 10 + i, "n": 3} for i in range(4)]
        ts += [{"kind": "pre_re", "count": 80, "seed": seed * 10 + i, "n": 3} for i in range(3)]
    else:
        ts += [{"kind": "exh_re", "ops": o, "part": i, "parts": 4, "n": 4} for o in (0, 1, 2) for i in range(4)]
        ts += [{"kind": "exh_re", "ops": 3, "part": i, "parts": 32, "n": 4} for i in range(32)]
        ts += [{"kind": "rnd_re", "count": 2500, "seed": seed * 10 + i, "n": 5} for i in range(32)]
        ts += [{"kind": "rel_re", "count": 400, "seed": seed * 10 + i, "n": 4} for i in range(16)]
        ts += [{"kind": "pre_re", "count": 300, "seed": seed * 10 + i, "n": 4} for i in range(16)]
    return gen.spread(ts, hs)


def from_abs(a):
    from gambatools import regexp as R
    t = a[0]
    if t == "zero":
        return R.Zero()
    if t == "one":
        return R.One()
    if t == "sym":
        return R.Symbol(ab.dec(a[1]))
    if t == "star":
        return R.Iteration(from_abs(a[1]))
    return (R.Sum if t == "sum" else R.Concat)(from_abs(a[1]), from_abs(a[2]))


def spell(a):
    """the tree with every multi-character symbol spelled out as a concatenation of one-character symbols"""
    if a[0] == "sym":
        name = ab.dec(a[1])
        if len(name) <= 1:
            return a
        t = ["sym", ab.enc(name[0])]
        for c in name[1:]:
            t = ["cat", t, ["sym", ab.enc(c)]]
        return t
    return [a[0]] + [spell(x) if isinstance(x, list) else x for x in a[1:]]


def events(r, n, src, asked=None):
    from gambatools.regexp_algorithms import regexp_accepts_word, regexp_simplify
    # asked: the tree the constructors were asked to build (they must build THAT expression)
    A = asked if asked is not None else ab.regexp(r)
    src = dict(src, re=A, n=n)
    multi = any(len(s) > 1 for s in _syms(A))
    syms = sorted({c for s in _syms(A) for c in s}) or ["a"]          # the characters words are made of
    if len(syms) == 1:
        syms = sorted(set(syms) | {"b" if syms[0] != "b" else "a"})
    n_eff = n if len(syms) <= 2 else min(n, 3)
    acc, exc = guarded(lambda: [w for w in U.words_upto(syms, n_eff) if regexp_accepts_word(r, w)], 30)
    ev = {"op": "re_accepts", "re": A, "n": n_eff, "sigma": [ab.enc(s) for s in syms],
          "accepted": ab.words(acc or []), "exc": exc, "src": src}
    if multi:
        ev["sem"] = spell(A)
    yield ev
    r2, exc = guarded(lambda: regexp_simplify(r))
    ev = {"op": "re_simplify", "re": A, "exc": exc, "src": src, "post": ab.regexp(r)}
    if exc == "none":
        ev["res"] = ab.regexp(r2)
        if multi:
            ev["sem"], ev["res_sem"] = spell(A), spell(ev["res"])
    yield ev


def _syms(a):
    if a[0] == "sym":
        return {ab.dec(a[1])}
    out = set()
    for x in a[1:]:
        if isinstance(x, list):
            out |= _syms(x)
    return out


def drive(task):
    if task["kind"] == "exh_re":
        for i, r in enumerate(U.all_regexps(task["ops"], LEAVES)):
            if i % task["parts"] == task["part"]:
                yield from events(r, task["n"], {"kind": "re"})
    elif task["kind"] == "rel_re":
        rng = random.Random(task["seed"])
        for i in range(task["count"]):
            for r, asked in U.related_regexps_described(rng, rng.choice(["ab", "ab", "abc"]), ab.regexp):
                yield from events(r, task["n"], {"kind": "re"}, asked=asked)
    elif task["kind"] == "pre_re":
        rng = random.Random(task["seed"])
        for i in range(task["count"]):
            for r, asked in U.prefix_regexps_described(rng, rng.choice(["ab", "abc", "abc"]), ab.regexp):
                yield from events(r, min(task["n"], 4), {"kind": "re"}, asked=asked)
    else:
        rng = random.Random(task["seed"])
        for i in range(task["count"]):
            ops = rng.choice([2, 3, 3, 4, 4, 5, 6, 7, 9])
            syms = rng.choice(["ab", "ab", "abc", "a", "01"])
            if i % 5 == 4:
                # symbols whose names have several characters (legal identifiers), over two characters
                syms = rng.choice([["ab", "a", "b"], ["ab", "ba"], ["aa", "a", "b"], ["q1", "q", "1"], ["aba", "ab", "a"]])
                ops = min(ops, 5)
            r = U.random_regexp(rng, ops, syms)
            yield from events(r, task["n"] if ops <= 6 else min(task["n"], 4), {"kind": "re"})


def redrive(src):
    yield from events(from_abs(src["re"]), src["n"], {"kind": "re"})


MODELS = {"quick": [("Simplify", "Simplify_q.cfg", "all trees with <= 2 operators over {0,1,a,b}: every rewrite step")],
          "thorough": [("Simplify", "Simplify_t.cfg", "all trees with <= 3 operators over {0,1,a,b}")]}
RULE = ("all regular expression trees with <= 2 operators (<= 3 in thorough) over leaves {0,1,a,b} + random trees with "
        "2-9 operators over 1-3 symbols (incl. alphabets {0,1}; every fifth with symbols whose names have 2-3 "
        "characters, judged on character words); per tree the matcher's verdict on every word up to n "
        "and one simplification; non-trivial = tree contains a star or a constant; distinct = distinct tree")


def nontrivial(e):
    s = str(e["re"])
    return "star" in s or "zero" in s or "one" in s


def check(tier, seed):
    return base.standard_check(PID, tier, seed, tasks(tier, seed), MODELS[tier], RULE, nontrivial,
                               assumptions=["words up to length 4/5 for the matcher; "
                                            "simplification compared exactly (Glushkov automata)"])


def replay(path, seed):
    return base.standard_replay(PID, path, redrive)
