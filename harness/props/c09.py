"""C09 - PDA acceptance is always sound and is complete below the epsilon-closure limit."""
import random

from .. import abstraction as ab
from .. import universe as U
from . import base, gen, pdasrc
from ..worker import guarded

PID = "C09"
LIMITS = [1, 2, 3, 5, 10, 50]


def tasks(tier, seed):
    hs = gen.hashseeds(tier, seed)
    ts = []
    if tier == "quick":
        ts += [{"kind": "small", "part": i, "parts": 8, "stride": 12, "n": 3} for i in range(8)]
        ts += [{"kind": "rnd", "count": 250, "seed": seed * 10 + i, "n": 3} for i in range(4)]
        ts += [{"kind": "eps_graph", "count": 120, "seed": seed * 10 + i, "n": 2} for i in range(3)]
        ts += [{"kind": "tree", "depths": [9, 10], "limits": [1000, 3000]} for _ in range(3)]
        ts += [{"kind": "fan", "ks": [2, 3, 4, 5, 6, 8], "seed": seed}]
    else:
        ts += [{"kind": "small", "part": i, "parts": 32, "stride": 1, "n": 3} for i in range(32)]
        ts += [{"kind": "rnd", "count": 1500, "seed": seed * 10 + i, "n": 4} for i in range(16)]
        ts += [{"kind": "eps_graph", "count": 600, "seed": seed * 10 + i, "n": 3} for i in range(8)]
        ts += [{"kind": "tree", "depths": [8, 9, 10, 11], "limits": [500, 1000, 3000, 5000]} for _ in range(8)]
        ts += [{"kind": "fan", "ks": list(range(2, 13)), "seed": seed * 10 + i} for i in range(4)]
    return gen.spread(ts, hs)


def one_event(P, n, limit, src):
    from gambatools.pda_algorithms import pda_accepts_word
    from gambatools.global_settings import GambaTools
    default = GambaTools.pda_epsilon_closure_max_iterations
    GambaTools.pda_epsilon_closure_max_iterations = limit
    try:
        acc, exc = guarded(lambda: [w for w in U.words_upto(sorted(P.Sigma), n) if pda_accepts_word(P, w)], 120)
        after = GambaTools.pda_epsilon_closure_max_iterations
    finally:
        GambaTools.pda_epsilon_closure_max_iterations = default
    return {"op": "pda_accepts", "pda": ab.pda(P), "n": n, "limit": limit, "limit_after": after,
            "accepted": ab.words(acc or []), "exc": exc, "src": dict(src, n=n, limit=limit)}


def conf(c):
    return [ab.enc(c.q), [ab.enc(x) for x in c.stack]]


def pc_trace(P, start, limit, src):
    """one call of pda_epsilon_closure with its pops reported by the hooks (validated by TLC as a behaviour of
    the PdaRun model's Pop action)"""
    from gambatools import _verif
    from gambatools.pda_algorithms import pda_epsilon_closure
    from gambatools.global_settings import GambaTools
    default = GambaTools.pda_epsilon_closure_max_iterations
    GambaTools.pda_epsilon_closure_max_iterations = limit
    _verif.take()
    _verif.DETAIL = True
    try:
        r, exc = guarded(lambda: pda_epsilon_closure(P, start), 60)
    finally:
        _verif.DETAIL = False
        GambaTools.pda_epsilon_closure_max_iterations = default
    evs = _verif.take()
    if exc != "none":
        return None, None
    st = [t for t in evs if t["ev"] == "pc.start"]
    pops = [t for t in evs if t["ev"] == "pc.pop"]

    def cf(x):
        return [ab.enc(x[0]), [ab.enc(y) for y in x[1]]]
    # a loop that runs past the configured limit has already left the model (binding_pc_stops_at_limit_or_exhaustion):
    # only the pops up to the limit are recorded then, with the number that were observed
    npops = len(pops)
    over = npops > limit
    ev = {"op": "pc_trace", "pda": ab.pda(P), "limit": limit, "npops": npops,
          "start": [cf(x) for x in st[0]["start"]] if st else [],
          "pops": [{"src": cf(t["src"]), "nresult": t["nresult"], "todo": [cf(x) for x in t["todo"]]} for t in pops[:limit]],
          "res": [] if over else [conf(c) for c in r], "src": dict(src, limit=limit, pc=1)}
    return ev, r


def pc_events(P, src, rng, limit=None):
    from gambatools.pda_algorithms import pda_do_transition, PDAState
    limit = limit or rng.choice([1, 2, 3, 5, 8])
    ev, r = pc_trace(P, [PDAState(P.q0, [])], limit, src)
    if ev is None:
        return
    yield ev
    # the closure of what one input symbol leads to (several start configurations)
    for a in sorted(P.Sigma)[:1]:
        nxt = pda_do_transition(P, a, r)
        if 0 < len(nxt) <= 6:
            ev2, _ = pc_trace(P, sorted(nxt), limit, dict(src, after=a))
            if ev2 is not None and len(ev2["pops"]) <= 8:
                yield ev2


def closure_need(P, n, cap=40):
    """the size of the largest epsilon closure the acceptance test has to compute for a word <= n, or None if
    some closure has more than cap configurations (plain breadth-first search, used only to CHOOSE a limit:
    completeness is required from exactly this value on)"""
    eps = P.epsilon

    def succ(c, a):
        q, st = c
        for (p, b, u), tg in P.delta.items():
            if p != q or b != a:
                continue
            for (r, v) in tg:
                if u != eps and (not st or st[-1] != u):
                    continue
                base_ = st if u == eps else st[:-1]
                yield (r, base_ if v == eps else base_ + (v,))

    def close(C):
        C = set(C)
        todo = list(C)
        while todo:
            for d in succ(todo.pop(), eps):
                if d not in C:
                    C.add(d)
                    todo.append(d)
                    if len(C) > cap:
                        return None
        return C
    need = 0
    level = {(): close({(P.q0, ())})}
    for _ in range(n + 1):
        nxt = {}
        for w, C in level.items():
            if C is None:
                return None
            need = max(need, len(C))
            for a in sorted(P.Sigma):
                D = {d for c in C for d in succ(c, a)}
                nxt[w + (a,)] = close(D)
        level = nxt
    return need


def events(src, n, rng, limits=None):
    P = pdasrc.build(src)
    for limit in (limits or rng.sample(LIMITS, 2)):
        yield one_event(P, n, limit, src)
    if limits is None:
        need = closure_need(P, n)
        if need is not None and need >= 2:
            # the boundary: the smallest limit for which the statement demands completeness
            yield one_event(P, n, need, src)
    if len(P.Q) <= 3:
        yield from pc_events(P, src, rng)
    # history: the same object is changed in place and asked again
    keys = [k for k, v in P.delta.items() if v]
    if keys and "mut" not in src:
        k = rng.choice(keys)
        x = rng.choice(sorted(P.delta[k]))
        P.delta[k].discard(x)
        yield one_event(P, n, rng.choice(LIMITS), dict(src, mut=[list(k), list(x)]))


def drive(task):
    if task["kind"] == "sched_replay":
        from .. import schedule_replay
        yield from schedule_replay.drive_file(task["path"], task["lo"], task["hi"], task.get("stride", 1))
        return
    rng = random.Random(task.get("seed", 0) + task.get("part", 0))
    if task["kind"] == "small":
        for i, src in enumerate(pdasrc.small_pdas(3)):
            if i % task["parts"] == task["part"] and (i // task["parts"]) % task["stride"] == 0:
                yield from events(src, task["n"], rng)
        if task["part"] == 0:
            for src in pdasrc.SPECIAL:
                yield from events(src, task["n"], rng, limits=LIMITS)
            for m in range(1, 64, 2):
                yield from events({"kind": "pda_spelling", "mask": m}, 3, rng, limits=[10])
    elif task["kind"] == "tree":
        for d in task["depths"]:
            for lim in task["limits"]:
                yield one_event(pdasrc.tree_pda(d), 1, lim, {"kind": "pda_tree", "depth": d})
    elif task["kind"] == "fan":
        for k in task["ks"]:
            for tail in (2, 3):
                for letter in (0, 1):
                    for push in (0, 1):
                        src = {"kind": "pda_fan", "k": k, "tail": tail, "letter": letter, "push": push, "seed": task["seed"] + k}
                        P = pdasrc.build(src)
                        need = closure_need(P, 1)
                        if need is None:
                            continue
                        for lim in (need, need + 1, need + 2, 2 * need):
                            yield one_event(P, 1, lim, src)
    elif task["kind"] == "eps_graph":
        for i in range(task["count"]):
            yield from events({"kind": "pda_eps_graph", "seed": task["seed"] * 100000 + i}, task["n"], rng)
    else:
        for i in range(task["count"]):
            yield from events({"kind": "pda_rnd", "seed": task["seed"] * 100000 + i, "multichar": 1}, task["n"], rng)


def redrive(src):
    if src.get("kind") == "gen_line":
        from .. import schedule_replay
        yield from schedule_replay.replay_line(src["line"])
        return
    P = pdasrc.build(src)
    if src.get("pc"):
        yield from pc_events(P, {k: v for k, v in src.items() if k not in ("pc", "after", "limit")},
                             random.Random(0), src.get("limit"))
        return
    if "mut" in src:
        k, x = src["mut"]
        P.delta[tuple(k)].discard(tuple(x))
    yield one_event(P, src["n"], src["limit"], src)


MODELS = {"quick": [("PdaRun", "PdaRun_q.cfg", "all PDAs with <= 2 moves on 2 states x words <= 2 x MaxIter 2, all pop orders")],
          "thorough": [("PdaRun", "PdaRun_q.cfg", "MaxIter 2"), ("PdaRun", "PdaRun_t.cfg", "MaxIter 3, <= 2 moves"),
                       ("PdaRun", "PdaRun_t1.cfg", "MaxIter 1")]}
RULE = ("PDAs on 2 states / input {a} / stack {X} with <= 3 of the 32 possible moves (every 12th in quick), 7 "
        "hand-written PDAs (a^n b^n, acceptance with non-empty stack, stack-growing epsilon cycle, replace moves, "
        "markers as stack symbols), random PDAs with 1-3 states, binary-tree PDAs whose initial closure has 2^(d+1)-1 "
        "configurations, 'epsilon-graph' PDAs with 4-8 states whose closures mix stack-free cycles and chains; per "
        "PDA the verdicts for all words <= n under two of the limits {1,2,3,5,10,50} and under the BOUNDARY limit (the "
        "size of the largest closure needed, computed by the harness) (trees: "
        "500-5000), then again after a transition was removed in place; for PDAs with <= 3 states one or two "
        "closure computations with every pop reported by the hooks, validated as behaviours of PdaRun's Pop action; "
        "every pop order of the closure on all PDAs with <= 3 moves x limits 1-4 (Schedules.tla, Algo pc) forced "
        "onto pda_epsilon_closure and pda_accepts_word; non-trivial = PDA has an epsilon move; "
        "distinct = distinct (PDA, limit)")


def nontrivial(e):
    if e["op"] == "sched_replay":
        return True
    if e["op"] == "pc_trace":
        return len(e["pops"]) >= 2
    return any(t[1] == e["pda"]["eps"] for t in e["pda"]["T"])


def check(tier, seed):
    from .. import schedule_replay
    info = {}
    ts = tasks(tier, seed) + schedule_replay.gen_tasks(PID, "pc", tier, info, quick_stride=3)

    def extra(res, done):
        from .. import tlc
        res.notes["model_schedules_forced_onto_impl"] = info
        # unbounded: any configuration set, any epsilon relation, any limit, any pop order (TLAPS)
        n = tlc.run_tlaps("PdaClosureProof")
        res.notes["tlaps"] = {"module": "spec/proofs/PdaClosureProof.tla", "obligations_proved": n,
                              "theorems": ["Invariance", "Sound", "ExactWhenExhausted", "CompleteBelowLimit"],
                              "meaning": "for every pop order and limit the (possibly truncated) result of the bounded "
                                         "worklist loop is inside the epsilon closure; if the closure has at most "
                                         "`limit` configurations the loop is never cut short and returns it exactly"}

    return base.standard_check(PID, tier, seed, ts, MODELS[tier], RULE, nontrivial, extra=extra,
                               assumptions=["words <= 3 (4)", "completeness is judged for a word when every exact "
                                            "closure on its way has at most `limit` configurations"])


def replay(path, seed):
    return base.standard_replay(PID, path, redrive)
