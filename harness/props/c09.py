"""C09 - PDA acceptance is always sound and is complete below the epsilon-closure limit."""
import random

from .. import abstraction as ab
from .. import universe as U
from . import base, gen, pdasrc
from ..worker import guarded

PID = "C09"
LIMITS = [1, 2, 3, 5, 10, 50]


def tasks(tier, seed):
    hs = gen.hashseeds(tier, seed)
    ts = []
    if tier == "quick":
        ts += [{"kind": "small", "part": i, "parts": 8, "stride": 12, "n": 3} for i in range(8)]
        ts += [{"kind": "rnd", "count": 250, "seed": seed * 10 + i, "n": 3} for i in range(4)]
        ts += [{"kind": "tree", "depths": [9, 10], "limits": [1000, 3000]} for _ in range(3)]
    else:
        ts += [{"kind": "small", "part": i, "parts": 32, "stride": 1, "n": 3} for i in range(32)]
        ts += [{"kind": "rnd", "count": 1500, "seed": seed * 10 + i, "n": 4} for i in range(16)]
        ts += [{"kind": "tree", "depths": [8, 9, 10, 11], "limits": [500, 1000, 3000, 5000]} for _ in range(8)]
    return gen.spread(ts, hs)


def one_event(P, n, limit, src):
    from gambatools.pda_algorithms import pda_accepts_word
    from gambatools.global_settings import GambaTools
    default = GambaTools.pda_epsilon_closure_max_iterations
    GambaTools.pda_epsilon_closure_max_iterations = limit
    try:
        acc, exc = guarded(lambda: [w for w in U.words_upto(sorted(P.Sigma), n) if pda_accepts_word(P, w)], 120)
        after = GambaTools.pda_epsilon_closure_max_iterations
    finally:
        GambaTools.pda_epsilon_closure_max_iterations = default
    return {"op": "pda_accepts", "pda": ab.pda(P), "n": n, "limit": limit, "limit_after": after,
            "accepted": ab.words(acc or []), "exc": exc, "src": dict(src, n=n, limit=limit)}


def events(src, n, rng, limits=None):
    P = pdasrc.build(src)
    for limit in (limits or rng.sample(LIMITS, 2)):
        yield one_event(P, n, limit, src)
    # history: the same object is changed in place and asked again
    keys = [k for k, v in P.delta.items() if v]
    if keys and "mut" not in src:
        k = rng.choice(keys)
        x = rng.choice(sorted(P.delta[k]))
        P.delta[k].discard(x)
        yield one_event(P, n, rng.choice(LIMITS), dict(src, mut=[list(k), list(x)]))


def drive(task):
    rng = random.Random(task.get("seed", 0) + task.get("part", 0))
    if task["kind"] == "small":
        for i, src in enumerate(pdasrc.small_pdas(3)):
            if i % task["parts"] == task["part"] and (i // task["parts"]) % task["stride"] == 0:
                yield from events(src, task["n"], rng)
        if task["part"] == 0:
            for src in pdasrc.SPECIAL:
                yield from events(src, task["n"], rng, limits=LIMITS)
    elif task["kind"] == "tree":
        for d in task["depths"]:
            for lim in task["limits"]:
                yield one_event(pdasrc.tree_pda(d), 1, lim, {"kind": "pda_tree", "depth": d})
    else:
        for i in range(task["count"]):
            yield from events({"kind": "pda_rnd", "seed": task["seed"] * 100000 + i}, task["n"], rng)


def redrive(src):
    P = pdasrc.build(src)
    if "mut" in src:
        k, x = src["mut"]
        P.delta[tuple(k)].discard(tuple(x))
    yield one_event(P, src["n"], src["limit"], src)


MODELS = {"quick": [("PdaRun", "PdaRun_q.cfg", "all PDAs with <= 2 moves on 2 states x words <= 2 x MaxIter 2, all pop orders")],
          "thorough": [("PdaRun", "PdaRun_q.cfg", "MaxIter 2"), ("PdaRun", "PdaRun_t.cfg", "MaxIter 3, <= 2 moves"),
                       ("PdaRun", "PdaRun_t1.cfg", "MaxIter 1")]}
RULE = ("PDAs on 2 states / input {a} / stack {X} with <= 3 of the 32 possible moves (every 12th in quick), 7 "
        "hand-written PDAs (a^n b^n, acceptance with non-empty stack, stack-growing epsilon cycle, replace moves, "
        "markers as stack symbols), random PDAs with 1-3 states, binary-tree PDAs whose initial closure has 2^(d+1)-1 "
        "configurations; per PDA the verdicts for all words <= n under two of the limits {1,2,3,5,10,50} (trees: "
        "500-5000), then again after a transition was removed in place; non-trivial = PDA has an epsilon move; "
        "distinct = distinct (PDA, limit)")


def nontrivial(e):
    return any(t[1] == e["pda"]["eps"] for t in e["pda"]["T"])


def check(tier, seed):
    return base.standard_check(PID, tier, seed, tasks(tier, seed), MODELS[tier], RULE, nontrivial,
                               assumptions=["words <= 3 (4)", "completeness is judged for a word when every exact "
                                            "closure on its way has at most `limit` configurations"])


def replay(path, seed):
    return base.standard_replay(PID, path, redrive)
