"""C03 - subset construction yields an equivalent total deterministic automaton."""
from .. import abstraction as ab
from . import base, gen
from ..worker import guarded

PID = "C03"


def tasks(tier, seed):
    hs = gen.hashseeds(tier, seed)
    if tier == "quick":
        ts = gen.nfa_src_tasks(2, "ab", 12)
        ts += [{"kind": "rnd_nfa", "count": 700, "seed": seed * 50 + i} for i in range(4)]
        ts += [{"kind": "big_nfa", "count": 12, "seed": seed * 50 + i} for i in range(4)]
        ts += [{"kind": "wide_nfa", "count": 60, "seed": seed * 50 + i} for i in range(3)]
    else:
        ts = gen.nfa_src_tasks(2, "ab", 16)
        ts += gen.nfa_src_tasks(3, "a", 32, stride=5)
        ts += [{"kind": "rnd_nfa", "count": 2500, "seed": seed * 50 + i} for i in range(32)]
        ts += [{"kind": "big_nfa", "count": 25, "seed": seed * 50 + i} for i in range(16)]
        ts += [{"kind": "wide_nfa", "count": 200, "seed": seed * 50 + i} for i in range(16)]
    return gen.spread(ts, hs)


def label_candidates(lbl, Q):
    """all subsets of the NFA's states whose printed form '{x,y}' equals the DFA state's label
    (more than one when state names contain commas)"""
    import itertools
    out = []
    Q = sorted(Q)
    for r in range(len(Q) + 1):
        for c in itertools.combinations(Q, r):
            if "{" + ",".join(sorted(c)) + "}" == lbl or (not c and lbl == "{}"):
                out.append(sorted(ab.enc(x) for x in c))
    return out


def _reach_subsets(fa):
    """subset construction on the abstract value (used only to classify a failure)"""
    eps = fa["eps"]
    T = fa["T"]

    def close(X):
        X = set(X)
        while True:
            N = X | {t[2] for t in T if t[0] in X and t[1] == eps}
            if N == X:
                return frozenset(X)
            X = N
    start = close({fa["q0"]})
    seen, todo = {start}, [start]
    while todo:
        X = todo.pop()
        for a in fa["S"]:
            Y = close({t[2] for t in T if t[0] in X and t[1] == a})
            if Y not in seen:
                seen.add(Y)
                todo.append(Y)
    return seen


def printed_subsets_collide(e):
    """two different reachable subsets print as the same DFA state label"""
    names = ["{" + ",".join(sorted(ab.dec(x) for x in X)) + "}" for X in _reach_subsets(e["fa"])]
    return len(set(names)) < len(names)


MATCHERS = {"printed_subsets_collide": printed_subsets_collide}


def one(src):
    from gambatools.nfa_algorithms import nfa_to_dfa
    N = gen.build_nfa(src)
    pre = ab.nfa(N)
    D, exc = guarded(lambda: nfa_to_dfa(N))
    ev = {"op": "nfa_to_dfa", "fa": pre, "exc": exc, "src": src, "post": ab.nfa(N)}
    if exc == "none":
        ev["res"] = ab.dfa(D)
        ev["q0cands"] = label_candidates(D.q0, N.Q)
    yield ev
    if exc != "none" or src.get("again"):
        return
    # history: the first result belongs to the caller (it is changed in place), then the SAME NFA object is
    # converted again; after that the NFA itself is edited in place and converted a third time
    D.F.clear()
    D.Q.add("clobbered")
    for k in list(D.delta)[:2]:
        D.delta[k] = "clobbered"
    D2, exc2 = guarded(lambda: nfa_to_dfa(N))
    ev2 = {"op": "nfa_to_dfa", "fa": pre, "exc": exc2, "src": dict(src, again=1), "post": ab.nfa(N)}
    if exc2 == "none":
        ev2["res"] = ab.dfa(D2)
        ev2["q0cands"] = label_candidates(D2.q0, N.Q)
    yield ev2
    keys = sorted(k for k, v in N.delta.items() if v)
    if keys:
        k = keys[len(keys) // 2]
        N.delta[k] = set(N.delta[k]) ^ {sorted(N.Q)[0]} or {sorted(N.Q)[-1]}
        pre3 = ab.nfa(N)
        D3, exc3 = guarded(lambda: nfa_to_dfa(N))
        ev3 = {"op": "nfa_to_dfa", "fa": pre3, "exc": exc3, "src": dict(src, again=2), "post": ab.nfa(N)}
        if exc3 == "none":
            ev3["res"] = ab.dfa(D3)
            ev3["q0cands"] = label_candidates(D3.q0, N.Q)
        yield ev3


def drive(task):
    for src in gen.nfa_srcs(task):
        yield from one(src)


def redrive(src):
    want = src.get("again", 0)
    for e in one({k: v for k, v in src.items() if k != "again"}):
        if e["src"].get("again", 0) == want:
            yield e


MODELS = {
    "quick": [("Subset", "Subset_q.cfg", "all NFA(2,{a,b}) with eps, LIFO worklist, all symbol orders")],
    "thorough": [("Subset", "Subset_q.cfg", "all NFA(2,{a,b}) with eps"),
                 ("Subset", "Subset_t.cfg", "all NFA(3,{a}) with eps")],
}
RULE = ("all of NFA(2,{a,b}) (+ NFA(3,{a}) sampled in thorough) and seeded random NFAs with 1-6 states, 0-3 symbols, "
        "four epsilon symbols, partial/total tables; one nfa_to_dfa event each; non-trivial = NFA has an epsilon edge "
        "or a nondeterministic choice; distinct = distinct abstract NFA")


def nontrivial(e):
    fa = e["fa"]
    seen = set()
    for t in fa["T"]:
        if t[1] == fa["eps"] or (t[0], t[1]) in seen:
            return True
        seen.add((t[0], t[1]))
    return False


def check(tier, seed):
    return base.standard_check(PID, tier, seed, tasks(tier, seed), MODELS[tier], RULE, nontrivial, matchers=MATCHERS,
                               assumptions=["a DFA state 'stands for' a subset when its label is the printed form "
                                            "of that subset", "<= 6 states"])


def replay(path, seed):
    return base.standard_replay(PID, path, redrive)
