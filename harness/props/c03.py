"""C03 - subset construction yields an equivalent total deterministic automaton."""
from .. import abstraction as ab
from . import base, gen
from ..worker import guarded

PID = "C03"


def tasks(tier, seed):
    hs = gen.hashseeds(tier, seed)
    if tier == "quick":
        ts = gen.nfa_src_tasks(2, "ab", 12)
        ts += [{"kind": "rnd_nfa", "count": 700, "seed": seed * 50 + i} for i in range(4)]
    else:
        ts = gen.nfa_src_tasks(2, "ab", 16)
        ts += gen.nfa_src_tasks(3, "a", 32, stride=5)
        ts += [{"kind": "rnd_nfa", "count": 2500, "seed": seed * 50 + i} for i in range(32)]
    return gen.spread(ts, hs)


def parse_label(lbl):
    if len(lbl) >= 2 and lbl[0] == "{" and lbl[-1] == "}":
        inner = lbl[1:-1]
        return sorted(ab.enc(x) for x in inner.split(",")) if inner else []
    return ["<unparsable label %s>" % ab.enc(lbl)]


def one(src):
    from gambatools.nfa_algorithms import nfa_to_dfa
    N = gen.build_nfa(src)
    pre = ab.nfa(N)
    D, exc = guarded(lambda: nfa_to_dfa(N))
    ev = {"op": "nfa_to_dfa", "fa": pre, "exc": exc, "src": src, "post": ab.nfa(N)}
    if exc == "none":
        ev["res"] = ab.dfa(D)
        ev["q0label"] = parse_label(D.q0)
    yield ev


def drive(task):
    for src in gen.nfa_srcs(task):
        yield from one(src)


redrive = one

MODELS = {
    "quick": [("Subset", "Subset_q.cfg", "all NFA(2,{a,b}) with eps, LIFO worklist, all symbol orders")],
    "thorough": [("Subset", "Subset_q.cfg", "all NFA(2,{a,b}) with eps"),
                 ("Subset", "Subset_t.cfg", "all NFA(3,{a}) with eps")],
}
RULE = ("all of NFA(2,{a,b}) (+ NFA(3,{a}) sampled in thorough) and seeded random NFAs with 1-6 states, 0-3 symbols, "
        "four epsilon symbols, partial/total tables; one nfa_to_dfa event each; non-trivial = NFA has an epsilon edge "
        "or a nondeterministic choice; distinct = distinct abstract NFA")


def nontrivial(e):
    fa = e["fa"]
    seen = set()
    for t in fa["T"]:
        if t[1] == fa["eps"] or (t[0], t[1]) in seen:
            return True
        seen.add((t[0], t[1]))
    return False


def check(tier, seed):
    return base.standard_check(PID, tier, seed, tasks(tier, seed), MODELS[tier], RULE, nontrivial,
                               assumptions=["DFA state labels are the printed state sets {..}; NFA state names "
                                            "without commas", "<= 6 states"])


def replay(path, seed):
    return base.standard_replay(PID, path, redrive)
