"""C14 - DFA closure constructions realise the corresponding language operations."""
import itertools
import random

from .. import abstraction as ab
from .. import universe as U
from . import base, gen
from ..worker import guarded

PID = "C14"
UNARY = ["complement", "reverse", "no_prefix", "no_extend", "remove_unreachable", "make_total"]
BINARY = ["union", "intersection", "symmetric_difference"]
W2 = ["", "a", "b", "aa", "ab", "ba", "bb"]


def tasks(tier, seed):
    hs = gen.hashseeds(tier, seed)
    ts = []
    if tier == "quick":
        ts += [dict(t, what="unary") for t in gen.dfa_src_tasks(3, "ab", 6, stride=3, pools=(0, 5))]
        ts += [dict(t, what="binary") for t in gen.dfa_src_tasks(2, "ab", 4)]
        ts += [{"kind": "rnd_dfa", "count": 400, "seed": seed * 50 + i, "what": "both"} for i in range(3)]
        ts += [{"kind": "rnd_dfa", "count": 40, "seed": seed * 50 + 40 + i, "what": "both", "maxk": 3,
                "alphabets": ["abcde", "abcdef", "abcdefg", "abcdefghijklmnopq"]} for i in range(2)]
        ts += [{"kind": "numbered_dfa", "count": 25, "seed": seed * 50 + i, "what": "unary"} for i in range(2)]
        ts += [{"kind": "cyclic_dfa", "count": 250, "seed": seed * 50 + i, "what": "unary"} for i in range(6)]
        ts += [{"kind": "comma_pairs", "count": 150, "seed": seed * 50 + i} for i in range(2)]
        ts += [{"kind": "eps_alphabet_dfa", "count": 40, "seed": seed * 50 + i, "what": "unary"} for i in range(2)]
        ts += [{"kind": "lang", "lo": i * 32, "hi": (i + 1) * 32, "pairs": 400, "seed": seed} for i in range(4)]
    else:
        ts += [dict(t, what="unary") for t in gen.dfa_src_tasks(3, "ab", 16, pools=(0, 5))]
        ts += [dict(t, what="binary") for t in gen.dfa_src_tasks(2, "ab", 8)]
        ts += [dict(t, what="binary3") for t in gen.dfa_src_tasks(3, "ab", 16, stride=13)]
        ts += [{"kind": "rnd_dfa", "count": 1500, "seed": seed * 50 + i, "what": "both"} for i in range(24)]
        ts += [{"kind": "numbered_dfa", "count": 100, "seed": seed * 50 + i, "what": "unary"} for i in range(8)]
        ts += [{"kind": "cyclic_dfa", "count": 1000, "seed": seed * 50 + i, "what": "unary"} for i in range(16)]
        ts += [{"kind": "comma_pairs", "count": 600, "seed": seed * 50 + i} for i in range(8)]
        ts += [{"kind": "eps_alphabet_dfa", "count": 150, "seed": seed * 50 + i, "what": "unary"} for i in range(4)]
        ts += [{"kind": "lang", "lo": i * 8, "hi": (i + 1) * 8, "pairs": 128 * 8, "seed": seed} for i in range(16)]
    return gen.spread(ts, hs)


def partial_of(D, rng):
    """a partial variant of D (some transitions dropped), built without the validity check"""
    from gambatools.dfa import DFA
    delta = {k: v for k, v in D.delta.items() if rng.random() < 0.7}
    return DFA(set(D.Q), set(D.Sigma), delta, D.q0, set(D.F), check_validity=False)


def unary_events(D, src):
    import gambatools.dfa_algorithms as da
    fns = {"complement": da.dfa_complement, "reverse": da.dfa_reverse, "no_prefix": da.dfa_no_prefix,
           "no_extend": da.dfa_no_extend, "remove_unreachable": da.dfa_remove_unreachable_states,
           "make_total": da.dfa_make_total}
    kinds = {"reverse": "nfa", "no_prefix": "nfa"}
    # first in the listed order, then once more in the opposite order on the SAME object (another history)
    for name in UNARY + UNARY[::-1]:
        pre = ab.dfa(D)
        R, exc = guarded(lambda: fns[name](D))
        ev = {"op": "dfa_op", "name": name, "a": pre, "exc": exc, "reskind": kinds.get(name, "dfa"),
              "src": dict(src, unary=name)}
        if exc == "none":
            ev["res"] = ab.fa(R)
        yield ev
    rng = random.Random(src.get("code", src.get("seed", 0)))
    P = partial_of(D, rng)
    pre = ab.dfa(P)
    R, exc = guarded(lambda: da.dfa_make_total(P))
    ev = {"op": "dfa_op", "name": "make_total", "a": pre, "exc": exc, "reskind": "dfa", "src": dict(src, unary="p")}
    if exc == "none":
        ev["res"] = ab.fa(R)
    yield ev
    _, exc = guarded(lambda: da.dfa_make_total_in_place(P))
    ev = {"op": "dfa_op", "name": "make_total_in_place", "a": pre, "exc": exc, "reskind": "dfa",
          "src": dict(src, unary="p")}
    if exc == "none":
        ev["res"] = ab.dfa(P)
    yield ev


def binary_events(D1, D2, src):
    import gambatools.dfa_algorithms as da
    fns = {"union": da.dfa_union, "intersection": da.dfa_intersection,
           "symmetric_difference": da.dfa_symmetric_difference}
    for name in BINARY:
        R, exc = guarded(lambda: fns[name](D1, D2))
        ev = {"op": "dfa_op", "name": name, "a": ab.dfa(D1), "b": ab.dfa(D2), "exc": exc, "reskind": "dfa",
              "src": dict(src)}
        if exc == "none":
            ev["res"] = ab.fa(R)
        yield ev


def lang_events(task):
    import gambatools.language_algorithms as la
    rng = random.Random(task["seed"] * 1000 + task["lo"])
    langs = [[w for i, w in enumerate(W2) if (m >> i) & 1] for m in range(128)]

    def ev(name, l1, l2, res, exc, **kw):
        e = {"op": "lang_op", "name": name, "l1": ab.words(l1), "l2": ab.words(l2), "exc": exc, "n": kw.get("n", 0),
             "sigma": sorted(kw.get("sigma", "")), "src": {"kind": "lang", "name": name, "l1": sorted(l1),
                                                           "l2": sorted(l2), "n": kw.get("n", 0),
                                                           "sigma": kw.get("sigma", "")}}
        e["res"] = ab.words(res) if exc == "none" else []
        return e

    un = {"reverse": la.language_reverse, "no_prefix": la.language_no_prefix, "no_extend": la.language_no_extend}
    bi = {"concatenation": la.concatenation, "union": la.union, "intersection": la.intersection,
          "symmetric_difference": la.symmetric_difference}
    for m in range(task["lo"], task["hi"]):
        L = set(langs[m])
        for name, fn in un.items():
            arg = set(L)
            r, exc = guarded(lambda: fn(arg))
            yield ev(name, L, [], r or [], exc)
    for _ in range(task["pairs"]):
        L1, L2 = set(rng.choice(langs)), set(rng.choice(langs))
        name = rng.choice(["concatenation"] * 4 + ["union", "intersection", "symmetric_difference"])
        r, exc = guarded(lambda: bi[name](set(L1), set(L2)))
        yield ev(name, L1, L2, r or [], exc)
    if task["lo"] == 0:
        for sigma in ["", "a", "ab", "abc"]:
            for n in range(0, 4 if len(sigma) < 3 else 3):
                r, exc = guarded(lambda: la.words_of_length_n(set(sigma), n))
                yield ev("words_of_length_n", [], [], r or [], exc, n=n, sigma=sigma)
                r, exc = guarded(lambda: la.words_up_to_n(set(sigma), n))
                yield ev("words_up_to_n", [], [], r or [], exc, n=n, sigma=sigma)


def comma_pairs(task):
    """operand pairs whose state names contain commas (pool 6): the product names its states '(p,q)'"""
    rng = random.Random(task["seed"])
    pool = U.NAME_POOLS[6]
    for i in range(task["count"]):
        S = rng.choice(["a", "ab"])
        Ds = []
        for _ in range(2):
            k = rng.randint(1, 3)
            D = U.random_dfa(rng, k, S)
            nm = rng.sample(pool, k)
            Ds.append(U.rename_fa(D, {"s%d" % j: nm[j] for j in range(k)}))
        yield from binary_events(Ds[0], Ds[1], {"kind": "comma_pair", "seed": task["seed"], "index": i})


def product_names_collide(e):
    """two different pairs of operand states print as the same product state '(p,q)'"""
    if e.get("op") != "dfa_op" or e.get("name") not in BINARY:
        return False
    names = ["(%s,%s)" % (p, q) for p in e["a"]["Q"] for q in e["b"]["Q"]]
    return len(set(names)) < len(names)


MATCHERS = {"product_names_collide": product_names_collide}


def drive(task):
    if task["kind"] == "lang":
        yield from lang_events(task)
        return
    if task["kind"] == "comma_pairs":
        yield from comma_pairs(task)
        return
    if task["kind"] == "dfaops_replay":
        from .. import dfaops_replay
        yield from dfaops_replay.drive_file(task["path"], task["lo"], task["hi"], task.get("stride", 1))
        return
    what = task.get("what", "both")
    prev = None
    for src in gen.dfa_srcs(task):
        D = gen.build_dfa(src)
        if what in ("unary", "both"):
            yield from unary_events(D, src)
        if what == "binary":
            for code2 in range(U.dfa_count(task["k"], task["S"])):
                src2 = dict(src, code2=code2)
                yield from binary_events(D, U.dfa_from_code(task["k"], task["S"], code2, prefix="t"), src2)
        elif what in ("binary3", "both"):
            if prev is not None and prev[1].Sigma == D.Sigma:
                yield from binary_events(prev[1], D, dict(src, prev=prev[0]))
            prev = (src, D)


def redrive(src):
    import gambatools.language_algorithms as la
    if src["kind"] == "dfaops_line":
        from .. import dfaops_replay
        yield from dfaops_replay.replay_line(src["line"])
        return
    if src["kind"] == "comma_pair":
        for e in comma_pairs({"seed": src["seed"], "count": src["index"] + 1}):
            if e["src"]["index"] == src["index"]:
                yield e
        return
    if src["kind"] == "lang":
        task = None
        name = src["name"]
        fn = {"reverse": la.language_reverse, "no_prefix": la.language_no_prefix, "no_extend": la.language_no_extend,
              "concatenation": la.concatenation, "union": la.union, "intersection": la.intersection,
              "symmetric_difference": la.symmetric_difference}.get(name)
        if name in ("words_of_length_n", "words_up_to_n"):
            r, exc = guarded(lambda: getattr(la, name)(set(src["sigma"]), src["n"]))
        elif name in ("reverse", "no_prefix", "no_extend"):
            r, exc = guarded(lambda: fn(set(src["l1"])))
        else:
            r, exc = guarded(lambda: fn(set(src["l1"]), set(src["l2"])))
        yield {"op": "lang_op", "name": name, "l1": ab.words(src["l1"]), "l2": ab.words(src["l2"]), "exc": exc,
               "n": src["n"], "sigma": sorted(src["sigma"]), "res": ab.words(r or []) if exc == "none" else [],
               "src": src}
        return
    D = gen.build_dfa({k: v for k, v in src.items() if k not in ("code2", "prev", "unary")})
    if "code2" in src:
        yield from binary_events(D, U.dfa_from_code(src["k"], src["S"], src["code2"], prefix="t"), src)
    elif "prev" in src:
        yield from binary_events(gen.build_dfa(src["prev"]), D, src)
    else:
        yield from unary_events(D, src)


_DO = {"allow_untaken": True}
MODELS = {"quick": [("Lemmas", "LemmasOps_q.cfg", "reference operations vs word-level definitions on DFA(2,{a,b}) pairs"),
                    ("DfaOps", "DfaOpsM_unary_q.cfg", "the six unary constructions as the code builds them, on every DFA over "
                     "the states {q1,trap1} (names the fresh-name search has to avoid) x {a,b}", _DO),
                    ("DfaOps", "DfaOpsM_binary_q.cfg", "the three products on every pair of 2-state DFAs over {a}", _DO),
                    ("DfaOps", "DfaOpsM_partial_q.cfg", "totalisation of every partial DFA on 2 states", _DO)],
          "thorough": [("Lemmas", "LemmasOps_q.cfg", "reference operations vs word-level definitions, DFA(2,{a,b})"),
                       ("Lemmas", "LemmasOps_t.cfg", "reference unary operations vs word-level definitions, DFA(3,{a,b})"),
                       ("DfaOps", "DfaOpsM_unary_q.cfg", "unary constructions, states {q1,trap1}", _DO),
                       ("DfaOps", "DfaOpsM_unary_t.cfg", "unary constructions on every DFA over {s0,q1,q2} x {a,b}", _DO),
                       ("DfaOps", "DfaOpsM_binary_t.cfg", "products on every pair of DFA(2,{a,b})", _DO),
                       ("DfaOps", "DfaOpsM_partial_q.cfg", "totalisation of every partial DFA on 2 states", _DO)]}
RULE = ("unary constructions on DFA(3,{a,b}) (strided in quick), binary products on all pairs of DFA(2,{a,b}), random "
        "DFAs with 1-6 states / 1-3 symbols and partial variants for totalisation, DFAs with 10-13 numbered states, "
        "operand pairs with commas in state names; every (input, operation, result) of the DfaOps.tla model replayed "
        "into the real constructions and compared structurally; finite-language helpers on all 128 "
        "languages over words of length <= 2 and sampled pairs; non-trivial = result differs from first operand; "
        "distinct = distinct (operation, operands)")


def nontrivial(e):
    if e["op"] == "sched_replay":
        return True
    if e["op"] == "lang_op":
        return e["res"] != e["l1"]
    return e.get("res") != e["a"]


def check(tier, seed):
    from .. import dfaops_replay
    info = {}
    cfgs = (["DfaOps_unary_q.cfg", "DfaOps_binary_q.cfg", "DfaOps_partial_q.cfg"] if tier == "quick" else
            ["DfaOps_unary_q.cfg", "DfaOps_unary_t.cfg", "DfaOps_binary_t.cfg", "DfaOps_partial_q.cfg"])
    ts = tasks(tier, seed) + dfaops_replay.gen_tasks(PID, cfgs, tier, info)

    def extra(res, done):
        res.notes["model_behaviours_replayed_into_impl"] = info

    return base.standard_check(PID, tier, seed, ts, MODELS[tier], RULE, nontrivial, matchers=MATCHERS, extra=extra,
                               assumptions=["<= 6 states (13 with numbered names)", "languages over {a,b}, words <= 2 (helpers)"])


def replay(path, seed):
    return base.standard_replay(PID, path, redrive)
