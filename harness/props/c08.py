"""C08 - Chomsky conversion yields a CNF grammar with the same language, phase by phase."""
import random

from .. import abstraction as ab
from .. import universe as U
from . import base, gen, cfgsrc
from ..worker import guarded

PID = "C08"


def tasks(tier, seed):
    hs = gen.hashseeds(tier, seed)
    ts = []
    if tier == "quick":
        ts += [{"kind": "small", "part": i, "parts": 8, "stride": 8, "n": 3} for i in range(8)]
        ts += [{"kind": "rnd", "count": 120, "seed": seed * 10 + i, "n": 3} for i in range(6)]
    else:
        ts += [{"kind": "small", "part": i, "parts": 32, "stride": 1, "n": 3} for i in range(32)]
        ts += [{"kind": "rnd", "count": 600, "seed": seed * 10 + i, "n": 4} for i in range(32)]
    return gen.spread(ts, hs)


def events(src, n):
    import gambatools.cfg_algorithms as ca
    from gambatools.notebook_chomsky import cfg_apply_chomsky
    G0 = cfgsrc.build(src)
    phases = [(1, ca.cfg_add_new_start_variable), (2, ca.cfg_remove_epsilon_rules), (3, ca.cfg_eliminate_unit_rules),
              (4, ca.cfg_make_rules_of_length_two), (5, ca.cfg_eliminate_terminals)]
    G = G0
    from gambatools import _verif
    for k, fn in phases:
        pre = ab.cfg(G)
        _verif.take()
        R, exc = guarded(lambda: fn(G), 20)
        tr = _verif.take()
        if k == 3 and exc == "none" and _verif.ON:
            # (T) the observed order of `for A in V`, replayed through Chomsky.tla's step function
            yield {"op": "unit_trace", "pre": pre, "res": ab.cfg(R),
                   "order": [ab.enc(t["A"]) for t in tr if t["ev"] == "unit.var"], "src": dict(src, n=n)}
        ev = {"op": "chomsky_phase", "phase": k, "pre": pre, "post": ab.cfg(G), "exc": exc, "n": n,
              "src": dict(src, n=n)}
        if k == 4:
            # which rules use the same Alternative OBJECT (unit elimination leaves such sharing behind)
            ev["share"] = [1 + next(j for j, r2 in enumerate(G.R) if r2.alternative is r.alternative) for r in G.R]
        if exc == "none":
            ev["res"] = ab.cfg(R)
        yield ev
        if exc != "none":
            break
        G = R
    pre = ab.cfg(G0)
    R, exc = guarded(lambda: ca.cfg_to_chomsky(G0), 20)
    ev = {"op": "to_chomsky", "via": "cfg_to_chomsky", "full": True, "pre": pre, "post": ab.cfg(G0), "exc": exc, "n": n,
          "src": dict(src, n=n)}
    if exc == "none":
        ev["res"] = ab.cfg(R)
    yield ev
    if len(str(pre)) % 3 == 0:
        # the optional flag: verbose=True prints the intermediate grammars and must not change the result
        import contextlib
        import io
        with contextlib.redirect_stdout(io.StringIO()):
            R, exc = guarded(lambda: ca.cfg_to_chomsky(G0, verbose=True), 20)
        ev = {"op": "to_chomsky", "via": "cfg_to_chomsky/verbose", "full": True, "pre": pre, "post": ab.cfg(G0), "exc": exc,
              "n": n, "src": dict(src, n=n)}
        if exc == "none":
            ev["res"] = ab.cfg(R)
        yield ev
    for k in (2, 3, 5):
        hint = "S" if k != 3 else "T"
        R, exc = guarded(lambda: cfg_apply_chomsky(G0, k, hint), 20)
        ev = {"op": "to_chomsky", "via": "cfg_apply_chomsky/%d" % k, "full": k == 5, "pre": pre, "post": ab.cfg(G0),
              "exc": exc, "n": n, "src": dict(src, n=n)}
        if exc == "none":
            ev["res"] = ab.cfg(R)
        yield ev


def unit_order_events(src, n, rng, orders=6, only=None):
    """(G) cfg_eliminate_unit_rules under FORCED visiting orders of `for A in V` (hook _verif.ordered): the same
    grammar under several permutations of its variables; each result is judged and its trace compared with the model"""
    import itertools
    import gambatools.cfg_algorithms as ca
    from gambatools import _verif
    from ..schedule_replay import OrderChooser
    if not _verif.ON:
        return
    G = cfgsrc.build(src)
    perms = list(itertools.permutations(sorted(str(v) for v in G.V)))
    if only is not None:
        perms = [tuple(only)]
    else:
        rng.shuffle(perms)
    for perm in perms[:orders]:
        G = cfgsrc.build(src)
        pre = ab.cfg(G)
        ch = OrderChooser("unit.var", list(perm))
        _verif.CHOOSER = ch
        _verif.take()
        try:
            R, exc = guarded(lambda: ca.cfg_eliminate_unit_rules(G), 20)
        finally:
            _verif.CHOOSER = None
        tr = _verif.take()
        ev = {"op": "chomsky_phase", "phase": 3, "pre": pre, "post": ab.cfg(G), "exc": exc, "n": n,
              "src": dict(src, n=n, unit_order=list(perm))}
        if exc == "none":
            ev["res"] = ab.cfg(R)
            yield {"op": "unit_trace", "pre": pre, "res": ab.cfg(R),
                   "order": [ab.enc(t["A"]) for t in tr if t["ev"] == "unit.var"], "src": dict(src, n=n, unit_order=list(perm))}
        yield ev


def with_other_start(src):
    """the same rules, another start variable (a grammar that differs from `src` only in its start)"""
    lhs = sorted({r[0] for r in src["rules"]})
    if len(lhs) < 2:
        return None
    return dict(src, start=lhs[-1] if src["rules"][0][0] != lhs[-1] else lhs[0])


def drive(task):
    if task["kind"] == "sched_replay":
        from .. import schedule_replay
        yield from schedule_replay.drive_file(task["path"], task["lo"], task["hi"], task.get("stride", 1))
        return
    if task["kind"] == "small":
        for i, rules in enumerate(cfgsrc.small_grammars(3)):
            if i % task["parts"] == task["part"] and (i // task["parts"]) % task["stride"] == 0:
                yield from events({"kind": "cfg_rules", "rules": [list(r) for r in rules]}, task["n"])
        if task["part"] in (1, 2):
            rng = random.Random(task["part"])
            for src in cfgsrc.unit_cycle_srcs(rng, 18 if task["stride"] > 1 else 72):
                yield from events(src, task["n"])
                yield from unit_order_events(src, task["n"], rng)
        if task["part"] == 3:
            for rules in cfgsrc.LONG_RHS:
                yield from events({"kind": "cfg_rules", "rules": [list(r) for r in rules]}, task["n"])
            for src in cfgsrc.nullable_order_srcs(random.Random(7), 8 if task["stride"] > 1 else 40):
                yield from events(src, task["n"])
        if task["part"] == 0:
            for rules in cfgsrc.SPECIAL:
                yield from events({"kind": "cfg_rules", "rules": [list(r) for r in rules]}, task["n"])
                yield from events({"kind": "cfg_rules", "rules": [list(r) for r in rules],
                                   "V": list("CDEFGHIJKLMNOPQRTUVWXYZ")[:22]}, task["n"])
                yield from events({"kind": "cfg_rules", "rules": [list(r) for r in rules],
                                   "V": list("CDEFGHIJKLMNOPQRTUVWXYZ")[:21]}, task["n"])
    else:
        rng = random.Random(task["seed"])
        for i in range(task["count"]):
            src = cfgsrc.random_src(rng, many_vars=rng.random() < 0.25)
            if i % 6 == 1:
                src = cfgsrc.eps_as_terminal(src)                 # the glyph ε is an ordinary terminal here
            elif i % 6 == 4:
                src["vnames"] = rng.randrange(len(U.VAR_NAME_POOLS))      # multi-character variable names
            yield from events(src, task["n"])
            alt = with_other_start(src) if i % 3 == 0 else None
            if alt:
                yield from events(alt, task["n"])


def redrive(src):
    if src["kind"] == "gen_line":
        from .. import schedule_replay
        yield from schedule_replay.replay_line(src["line"])
        return
    n = src.pop("n", 3)
    order = src.pop("unit_order", None)
    if order is not None:
        yield from unit_order_events(src, n, None, only=order)
        return
    yield from events(src, n)


MODELS = {"quick": [("Chomsky", "Chomsky_q.cfg", "unit-rule elimination: all unit/terminal rule sets over 3 variables x "
                     "all orders in which `for A in V` visits the variables"),
                    ("ChomskyPipe", "ChomskyPipe_q.cfg", "the five phases composed from the model's operators on all 28 900 "
                     "rule lists with <= 2 rules (right-hand sides <= 3 symbols over S,A,a,b): valid, same language, the "
                     "postcondition after every phase, CNF at the end")],
          "thorough": [("Chomsky", "Chomsky_t.cfg", "the same over 4 variables"),
                       ("ChomskyPipe", "ChomskyPipe_q.cfg", "the five phases composed, all rule lists with <= 2 rules")]}
RULE = ("grammars as in C07 (+ the same hand-written grammars with 24-26 declared variables, + random grammars with "
        "23-27 declared variables for both branches of the fresh-variable routine); the five phases applied one after "
        "the other through the public functions (one event per phase; the deterministic phases 1, 2, 4, 5 are compared "
        "with the model's operators of ChomskySteps.tla down to the rule LIST), cfg_to_chomsky and cfg_apply_chomsky; languages "
        "compared on all words <= 3 (4) by the derivability fix-point on both sides; non-trivial = phase changed the "
        "grammar; distinct = distinct (phase, grammar)")


def nontrivial(e):
    if e["op"] == "unit_trace":
        return len(e["order"]) >= 2
    if e["op"] == "sched_replay":
        return True
    return e.get("res") != e["pre"]


def check(tier, seed):
    from .. import schedule_replay
    info = {}
    ts = tasks(tier, seed) + schedule_replay.gen_tasks(PID, "unit", tier, info, quick_stride=2)

    def extra(res, done):
        res.notes["model_schedules_forced_onto_impl"] = info

    return base.standard_check(PID, tier, seed, ts, MODELS[tier], RULE, nontrivial, extra=extra,
                               assumptions=["context-free language equivalence is undecidable: languages are compared "
                                            "on all words up to length 3 (quick) / 4 (thorough)",
                                            "single-character terminals"])


def replay(path, seed):
    return base.standard_replay(PID, path, redrive)
