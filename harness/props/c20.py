"""C20 - the DFA isomorphism test decides isomorphism of the reachable parts."""
import random

from .. import abstraction as ab
from .. import universe as U
from . import base, gen
from ..worker import guarded

PID = "C20"
VARIANTS = ["dfa_isomorphic", "dfa_isomorphic1"]
LIMIT = 3.0          # seconds for a call that takes < 1 ms when it terminates
MAX_TIMEOUTS = 12    # per variant and task; afterwards the variant is skipped (counted)


def tasks(tier, seed):
    hs = gen.hashseeds(tier, seed)
    ts = []
    if tier == "quick":
        ts += [{"kind": "pairs2", "lo": i * 8, "hi": (i + 1) * 8} for i in range(8)]
        ts += [{"kind": "renamed", "k": 3, "S": "ab", "lo": i * 729, "hi": (i + 1) * 729, "stride": 3} for i in range(8)]
        ts += [{"kind": "rndpairs", "count": 500, "seed": seed * 10 + i} for i in range(4)]
    else:
        ts += [{"kind": "pairs2", "lo": i * 4, "hi": (i + 1) * 4} for i in range(16)]
        ts += [{"kind": "renamed", "k": 3, "S": "ab", "lo": i * 365, "hi": (i + 1) * 365, "stride": 1} for i in range(16)]
        ts += [{"kind": "pairs3a", "lo": i * 14, "hi": (i + 1) * 14} for i in range(16)]
        ts += [{"kind": "rndpairs", "count": 2500, "seed": seed * 10 + i} for i in range(32)]
    return gen.spread(ts, hs)


def build_pair(src):
    k = src["kind"]
    if k == "pairs":
        return (U.dfa_from_code(src["k"], src["S"], src["c1"], prefix="s"),
                U.dfa_from_code(src["k"], src["S"], src["c2"], prefix=src.get("p2", "t")))
    if k == "renamed":
        D = U.dfa_from_code(src["k"], src["S"], src["c1"])
        names = list(U.NAME_POOLS[src["pool"]][:src["k"]])
        random.Random(src["perm"]).shuffle(names)
        D2 = U.rename_fa(D, {"s%d" % i: names[i] for i in range(src["k"])})
        if src.get("flip"):
            # flip acceptance of one state of the copy: same shape, (usually) not isomorphic
            q = sorted(D2.Q)[src["flip"] % len(D2.Q)]
            D2.F = D2.F ^ {q}
        return D, D2
    rng = random.Random(src["seed"])
    S = rng.choice(["a", "ab", "ab", "abc"])
    k1 = rng.randint(1, 5)
    D1 = U.random_dfa(rng, k1, S, prefix="s")
    mode = rng.random()
    if mode < 0.35:
        # renamed copy with extra unreachable states
        names = ["u%d" % i for i in range(k1)]
        rng.shuffle(names)
        D2 = U.rename_fa(D1, {"s%d" % i: names[i] for i in range(k1)})
        extra = rng.randint(0, 2)
        for j in range(extra):
            x = "z%d" % j
            D2.Q.add(x)
            for a in S:
                D2.delta[x, a] = rng.choice(sorted(D2.Q))
            if rng.random() < 0.5:
                D2.F.add(x)
    elif mode < 0.55:
        # equivalent but (usually) not isomorphic: duplicate a state
        D2 = U.rename_fa(D1, {"s%d" % i: "u%d" % i for i in range(k1)})
        q = rng.choice(sorted(D2.Q))
        c = "dup"
        D2.Q.add(c)
        if q in D2.F:
            D2.F.add(c)
        for a in S:
            D2.delta[c, a] = D2.delta[q, a]
        for key in list(D2.delta):
            if D2.delta[key] == q and rng.random() < 0.5:
                D2.delta[key] = c
    elif mode < 0.8:
        # a NEAR-duplicate: state c copies q except for one transition or its acceptance, and takes over
        # some of q's incoming edges - whether the two automata look alike depends on which of the
        # pending pairs (q, .) is explored first
        D2 = U.rename_fa(D1, {"s%d" % i: "u%d" % i for i in range(k1)})
        q = rng.choice(sorted(D2.Q))
        c = "dup"
        D2.Q.add(c)
        if q in D2.F:
            D2.F.add(c)
        for a in S:
            D2.delta[c, a] = D2.delta[q, a]
        if rng.random() < 0.5:
            D2.F ^= {c}
        else:
            D2.delta[c, rng.choice(sorted(S))] = rng.choice(sorted(D2.Q))
        inc = [key for key in D2.delta if D2.delta[key] == q]
        for key in inc:
            if rng.random() < 0.5:
                D2.delta[key] = c
    else:
        D2 = U.random_dfa(rng, rng.randint(1, 5), S, prefix=rng.choice(["s", "t"]))
    return D1, D2


def one(src, budget=None):
    import gambatools.dfa_algorithms as da
    D1, D2 = build_pair(src)
    for v in VARIANTS:
        if budget is not None and budget[v] <= 0:
            budget["skipped"] += 1
            continue
        fn = getattr(da, v)
        from gambatools import _verif
        _verif.take()
        r1, x1 = guarded(lambda: fn(D1, D2), LIMIT)
        tr = _verif.take()
        if v == "dfa_isomorphic1" and x1 == "none" and _verif.ON:
            # (T) the observed pick order, replayed through Iso.tla's step function
            yield {"op": "iso_trace", "variant": v, "d1": ab.dfa(D1), "d2": ab.dfa(D2),
                   "picks": [[ab.enc(t["q1"]), ab.enc(t["q2"])] for t in tr if t["ev"] == "iso.pick"],
                   "res": "true" if r1 else "false", "src": src}
        r2, x2 = guarded(lambda: fn(D2, D1), LIMIT)
        if budget is not None and "Timeout" in (x1, x2):
            budget[v] -= 1
        yield {"op": "iso", "variant": v, "d1": ab.dfa(D1), "d2": ab.dfa(D2), "res": bool(r1) if x1 == "none" else False,
               "res_swapped": bool(r2) if x2 == "none" else False, "exc": x1, "exc_swapped": x2, "src": src}


def drive(task):
    if task["kind"] == "sched_replay":
        from .. import schedule_replay
        yield from schedule_replay.drive_file(task["path"], task["lo"], task["hi"], task.get("stride", 1))
        return
    budget = {v: MAX_TIMEOUTS for v in VARIANTS}
    budget["skipped"] = 0
    k = task["kind"]
    if k == "pairs2":
        for c1 in range(task["lo"], task["hi"]):
            for c2 in range(64):
                yield from one({"kind": "pairs", "k": 2, "S": "ab", "c1": c1, "c2": c2, "p2": "st"[c2 % 2]}, budget)
    elif k == "pairs3a":
        for c1 in range(task["lo"], min(task["hi"], 216)):
            for c2 in range(216):
                yield from one({"kind": "pairs", "k": 3, "S": "a", "c1": c1, "c2": c2, "p2": "t"}, budget)
    elif k == "renamed":
        for c in range(task["lo"], min(task["hi"], U.dfa_count(task["k"], task["S"])), task["stride"]):
            yield from one({"kind": "renamed", "k": task["k"], "S": task["S"], "c1": c, "pool": 1 + c % 5,
                            "perm": c % 6, "flip": 0}, budget)
            yield from one({"kind": "renamed", "k": task["k"], "S": task["S"], "c1": c, "pool": 1 + c % 5,
                            "perm": c % 6, "flip": 1 + c % 3}, budget)
    else:
        for i in range(task["count"]):
            yield from one({"kind": "rndpairs", "seed": task["seed"] * 100000 + i}, budget)


def redrive(src):
    if src["kind"] == "gen_line":
        from .. import schedule_replay
        yield from schedule_replay.replay_line(src["line"])
        return
    yield from one(src)


MODELS = {"quick": [("Iso", "Iso_q.cfg", "all pairs of DFA(2,{a,b}), all pick orders, repaired dfa_isomorphic1")],
          "thorough": [("Iso", "Iso_q.cfg", "all pairs of DFA(2,{a,b})"),
                       ("Iso", "Iso_t.cfg", "all pairs DFA(2,{a,b}) x DFA(3,{a,b})"),
                       ("Iso", "Iso_t3.cfg", "all pairs of DFA(3,{a})")]}
RULE = ("all ordered pairs of DFA(2,{a,b}) (4096) x two variants x both argument orders; every third DFA(3,{a,b}) "
        "against a renamed copy and against a renamed copy with one acceptance bit flipped; random pairs (renamed copy "
        "+ unreachable states, equivalent-but-duplicated state, independent); non-trivial = reference answer is True or "
        "the DFAs have equal numbers of reachable states; distinct = distinct (variant, pair)")


def nontrivial(e):
    if e["op"] == "iso_trace":
        return len(e["picks"]) >= 2
    if e["op"] == "sched_replay":
        return True
    return len(e["d1"]["Q"]) == len(e["d2"]["Q"])


def check(tier, seed):
    from .. import schedule_replay
    info = {}
    ts = tasks(tier, seed) + schedule_replay.gen_tasks(PID, "iso", tier, info, quick_stride=1)

    def extra(res, done):
        res.notes["model_schedules_forced_onto_impl"] = info

    return base.standard_check(PID, tier, seed, ts, MODELS[tier], RULE, nontrivial, matchers=MATCHERS, extra=extra,
                               assumptions=["<= 7 states", "a call that uses more than %.0f s of CPU time is reported as "
                                            "non-terminating (such calls return in < 1 ms when they terminate)" % LIMIT])


def replay(path, seed):
    return base.standard_replay(PID, path, redrive)


MATCHERS = {}
