"""Exercise instances for C12 (submit wrong answers) and C13 (submit the library's own answer).
One 'instance' = reference objects + the library's answer; C13 checks that answer, C12 mutates it."""
import copy
import io
import contextlib
import os
import random
import re

from .. import abstraction as ab
from .. import universe as U
from . import gen, cfgsrc, pdasrc, tmsrc
from ..worker import guarded

TMP = None


def tmpdir():
    global TMP
    if TMP is None:
        from .. import common
        TMP = common.outdir("C12", "tmp", str(os.getpid()))
    return TMP


def write(name, text):
    p = os.path.join(tmpdir(), name)
    with open(p, "w", encoding="utf8") as f:
        f.write(text)
    return p


def run_checker(fn, *args):
    """returns verdict ('OK' / 'notOK'), counterexample or None, exc"""
    buf = io.StringIO()

    def call():
        with contextlib.redirect_stdout(buf):
            fn(*args)
    _, exc = guarded(call, 60)
    out = buf.getvalue()
    lines = [l for l in out.split("\n") if l.strip()]
    verdict = "OK" if lines and lines[0].strip() == "OK" else "notOK"
    cex = None
    for l in lines:
        m = re.search(r"word '(.*)' should (not )?be accepted", l)
        if m:
            w = m.group(1)
            cex = {"word": ab.word("" if w == "ε" else w), "polarity": "should_not" if m.group(2) else "should",
                   "minimal": True}
            break
    return verdict, cex, exc, out[:300]


def words_str(ws):
    return " ".join(w if w else "ε" for w in sorted(ws))


# ------------------------------------------------------------------ mutations
def dfa_mutants(D, rng, k=4, all_flips=False):
    """(name, DFA) single mutations of a total DFA (still total: the text stays well formed);
    all_flips: the acceptance flip of EVERY state comes first (then k other mutations)"""
    from gambatools.dfa import DFA
    out = []
    Q = sorted(D.Q)
    S = sorted(D.Sigma)
    cands = []
    for q in Q:
        cands.append(("flip_final", q))
    for q in Q:
        for a in S:
            for r in Q:
                if D.delta[q, a] != r:
                    cands.append(("retarget", q, a, r))
    for q in Q:
        if q != D.q0:
            cands.append(("initial", q))
    cands.append(("add_state",))
    rng.shuffle(cands)
    if all_flips:
        flips = [c for c in cands if c[0] == "flip_final"][:8]
        cands = flips + [c for c in cands if c[0] != "flip_final"][:k]
        k = len(cands)
    for c in cands[:k]:
        Qn, dn, q0, F = set(D.Q), dict(D.delta), D.q0, set(D.F)
        if c[0] == "flip_final":
            F ^= {c[1]}
        elif c[0] == "retarget":
            dn[c[1], c[2]] = c[3]
        elif c[0] == "initial":
            q0 = c[1]
        else:
            n = U.names(9, "x")[len(Q) % 9]
            while n in Qn:
                n += "x"
            Qn.add(n)
            for a in S:
                dn[n, a] = rng.choice(Q)
            if rng.random() < 0.5:
                F.add(n)
        out.append(("/".join(map(str, c)), DFA(Qn, set(D.Sigma), dn, q0, F)))
    return out


def nfa_mutants(N, rng, k=3):
    from gambatools.nfa import NFA
    from collections import defaultdict
    out = []
    Q = sorted(N.Q)
    labels = sorted(N.Sigma) + [N.epsilon]
    for _ in range(k):
        d = defaultdict(set)
        for key, v in N.delta.items():
            if v:
                d[key] = set(v)
        F, q0 = set(N.F), N.q0
        c = rng.choice(["flip_final", "add_edge", "drop_edge", "initial"])
        if c == "flip_final":
            F ^= {rng.choice(Q)}
        elif c == "add_edge":
            d[rng.choice(Q), rng.choice(labels)].add(rng.choice(Q))
        elif c == "drop_edge":
            keys = [k_ for k_, v in d.items() if v]
            if keys:
                k_ = rng.choice(keys)
                d[k_].discard(rng.choice(sorted(d[k_])))
        else:
            q0 = rng.choice(Q)
        out.append((c, NFA(set(N.Q), set(N.Sigma), d, q0, F, N.epsilon)))
    return out


# ------------------------------------------------------------------ instances
def _mkdfa(Q, S, delta, q0, F):
    from gambatools.dfa import DFA
    return DFA(set(Q), set(S), dict(delta), q0, set(F))


def small_dfa(rng, k=None, S="ab", prefix="s"):
    return U.random_dfa(rng, k or rng.randint(1, 3), S, prefix=prefix)


def inst_product(rng, op):
    import gambatools.dfa_algorithms as da
    import gambatools.notebook_dfa as nd
    S = rng.choice(["a", "ab"])
    D1, D2 = small_dfa(rng, rng.randint(1, 2), S, "p"), small_dfa(rng, rng.randint(1, 3), S, "r")
    fn = {"union": da.dfa_union, "intersection": da.dfa_intersection, "symmetric_difference": da.dfa_symmetric_difference}[op]
    chk = {"union": nd.check_dfa_union, "intersection": nd.check_dfa_intersection,
           "symmetric_difference": nd.check_dfa_symmetric_difference}[op]
    length = rng.choice([3, 4])
    t1, t2 = da.print_dfa(D1), da.print_dfa(D2)
    own = fn(D1, D2)

    def submit(A):
        pairs = []
        for q in sorted(A.Q):
            m = re.fullmatch(r"\((\w+),(\w+)\)", q)
            pairs.append([ab.enc(q), ab.enc(m.group(1)), ab.enc(m.group(2))] if m else [ab.enc(q), "~bad~", "~bad~"])
        v, cex, exc, out = run_checker(chk, da.print_dfa(A), t1, t2, length)
        return {"family": op, "d1": ab.dfa(D1), "d2": ab.dfa(D2), "ans": ab.dfa(A), "pairs": pairs, "length": length,
                "verdict": v, "cex": cex, "exc": exc, "out": ab.enc(out), "illformed": False}
    muts = dfa_mutants(own, rng, 5)
    # a renamed state that is not a product state
    return own, submit, muts


def inst_complement(rng):
    import gambatools.dfa_algorithms as da
    import gambatools.notebook_dfa as nd
    D = small_dfa(rng, None, rng.choice(["a", "ab"]))
    own = da.dfa_complement(D)
    t = da.print_dfa(D)

    def submit(A):
        v, cex, exc, out = run_checker(nd.check_dfa_complement, t, da.print_dfa(A))
        return {"family": "complement", "d1": ab.dfa(D), "ans": ab.dfa(A), "length": 0, "verdict": v, "cex": cex,
                "exc": exc, "out": ab.enc(out), "illformed": False}
    return own, submit, dfa_mutants(own, rng, 5)


def inst_reverse(rng):
    import gambatools.dfa_algorithms as da
    import gambatools.nfa_algorithms as na
    import gambatools.notebook_dfa as nd
    D = small_dfa(rng, None, rng.choice(["a", "ab"]))
    own = da.dfa_reverse(D)
    t = da.print_dfa(D)
    length = rng.choice([3, 4])

    def submit(A):
        v, cex, exc, out = run_checker(nd.check_dfa_reverse, t, na.print_nfa(A), length)
        return {"family": "reverse", "d1": ab.dfa(D), "ans": ab.nfa(A), "length": length, "verdict": v, "cex": cex,
                "exc": exc, "out": ab.enc(out), "illformed": False}
    return own, submit, nfa_mutants(own, rng, 5)


def inst_minimal(rng, algo="dfa_quotient"):
    import gambatools.dfa_algorithms as da
    import gambatools.notebook_dfa as nd
    D = small_dfa(rng, rng.randint(1, 4), rng.choice(["a", "ab"]))
    length = rng.choice([3, 4])
    deep = rng.random() < 0.3
    if deep:
        # a language whose minimal DFA has MORE states than the bound is long: "at least k letters" / "length = r mod m"
        # with k, m > length - smaller automata agree with it on every word the checker looks at
        k = length + rng.randint(1, 3)
        if rng.random() < 0.5:
            D = _mkdfa(["s%d" % i for i in range(k + 1)], "a", {("s%d" % i, "a"): "s%d" % min(i + 1, k) for i in range(k + 1)},
                           "s0", ["s%d" % k])
        else:
            D = _mkdfa(["s%d" % i for i in range(k)], "a", {("s%d" % i, "a"): "s%d" % ((i + 1) % k) for i in range(k)},
                           "s0", ["s%d" % (k - 1)])
    if not deep and rng.random() < 0.35:
        # a declared state nothing leads to (the checker counts the classes of ALL declared states)
        qs = sorted(D.Q)
        for a in sorted(D.Sigma):
            D.delta["zz", a] = rng.choice(qs + ["zz"])
        D.Q.add("zz")
        if rng.random() < 0.5:
            D.F.add("zz")
    own = getattr(da, algo)(D)
    t = da.print_dfa(D)

    def submit(A):
        v, cex, exc, out = run_checker(nd.check_dfa_minimal, t, da.print_dfa(A), length)
        return {"family": "minimal", "d1": ab.dfa(D), "ans": ab.dfa(A), "length": length, "verdict": v, "cex": cex,
                "exc": exc, "out": ab.enc(out), "illformed": False}
    muts = dfa_mutants(own, rng, 4) + [("original", D)]
    if deep:
        n = len(D.Q)
        muts += [("empty_language", _mkdfa(["e"], "a", {("e", "a"): "e"}, "e", [])),
                 ("one_state_less", _mkdfa(["s%d" % i for i in range(n - 1)], "a",
                                               {("s%d" % i, "a"): "s%d" % (min(i + 1, n - 2) if "s%d" % (n - 1) == D.delta["s%d" % (n - 1), "a"]
                                                                           else (i + 1) % (n - 1)) for i in range(n - 1)},
                                               "s0", ["s%d" % (n - 2)]))]
    return own, submit, muts


def inst_nfa2dfa(rng):
    import gambatools.dfa_algorithms as da
    import gambatools.nfa_algorithms as na
    import gambatools.notebook_nfa2dfa as nn
    N = U.random_nfa(rng, rng.randint(1, 3), rng.choice(["a", "ab"]), eps=rng.choice(["ε", "_"]), prefix="q")
    if rng.random() < 0.5:
        # state names that are substrings / prefixes of each other (generated names beyond q9 look like this)
        pool = rng.choice([["q1", "q10", "q11"], ["q", "q1", "qq"], ["s2", "s", "s22"], ["x10", "x1", "x0"]])
        N = U.rename_fa(N, {q: pool[i] for i, q in enumerate(sorted(N.Q))})
        if rng.random() < 0.6:
            # exactly the states whose name is a proper substring of another state's name are accepting
            sub = {q for q in N.Q if any(q != r and q in r for r in N.Q)}
            if sub and sub != set(N.Q):
                N.F = set(sub)
    own = na.nfa_to_dfa(N)
    t = na.print_nfa(N)

    def submit(A):
        labels = []
        for q in sorted(A.Q):
            if not re.fullmatch(r"\{.*\}", q):
                labels.append([ab.enc(q), ["?not-a-set-label"]])      # only {..} labels denote sets of NFA states
                continue
            inner = q[1:-1]
            labels.append([ab.enc(q), sorted(ab.enc(x) for x in inner.split(",")) if inner else []])
        v, cex, exc, out = run_checker(nn.check_nfa2dfa, t, da.print_dfa(A))
        return {"family": "nfa2dfa", "nfa": ab.nfa(N), "ans": ab.dfa(A), "labels": labels, "length": 0, "verdict": v,
                "cex": None, "exc": exc, "out": ab.enc(out), "illformed": False}
    return own, submit, dfa_mutants(own, rng, 3, all_flips=True)


def inst_dfa2regexp(rng):
    import gambatools.dfa_algorithms as da
    import gambatools.regexp_algorithms as ra
    from gambatools.regexp import print_regexp_simple
    import gambatools.notebook as nb
    S = rng.choice(["a", "ab", "ab", "01"])
    D = small_dfa(rng, rng.randint(1, 3), S, "q")
    own = ra.dfa_to_regexp(D)
    t = da.print_dfa(D)
    length = rng.choice([3, 4])

    def submit(r):
        v, cex, exc, out = run_checker(nb.check_dfa2regexp, t, print_regexp_simple(r), length)
        return {"family": "dfa2regexp", "d1": ab.dfa(D), "ans": ab.regexp(r), "length": length, "verdict": v, "cex": cex,
                "exc": exc, "out": ab.enc(out), "illformed": False}
    muts = [("random", U.random_regexp(rng, rng.randint(0, 4), list(S) if S != "01" else ["0", "1"])) for _ in range(3)]
    muts.append(("star", __import__("gambatools.regexp", fromlist=["x"]).Iteration(own)))

    def submit_raw(text):
        v, cex, exc, out = run_checker(nb.check_dfa2regexp, t, text, length)
        return {"family": "dfa2regexp", "d1": ab.dfa(D), "ans": ab.regexp(own), "length": length, "verdict": v,
                "cex": None, "exc": exc, "out": ab.enc(out), "illformed": True, "text": ab.enc(text)}
    ot = print_regexp_simple(own)
    raw = [("stray_close", ot + ")"), ("unclosed", "(" + ot), ("dangling_plus", ot + "+"), ("stray_close_mid", ot + ")a"),
           ("double_plus", ot + "++" + ot), ("empty", "")]
    return own, submit, muts, [(n, (lambda x=x: submit_raw(x))) for n, x in raw]


def _kind_obj(rng, kind):
    """a random object of the given kind, its printer, the checker for a word list, its projection and wrong variants"""
    import gambatools.dfa_algorithms as da
    import gambatools.nfa_algorithms as na
    import gambatools.cfg_algorithms as ca
    from gambatools.regexp import print_regexp_simple
    import gambatools.notebook as nb
    if kind == "dfa":
        X = small_dfa(rng, None, rng.choice(["a", "ab"]))
        pr, chk, absfn, muts = da.print_dfa, nb.check_dfa_language_from_words, ab.dfa, dfa_mutants(X, rng, 3)
    elif kind == "nfa":
        X = U.random_nfa(rng, rng.randint(1, 3), rng.choice(["a", "ab"]), eps=rng.choice(["ε", "_"]), prefix="q")
        pr, chk, absfn, muts = na.print_nfa, nb.check_nfa_language_from_words, ab.nfa, nfa_mutants(X, rng, 3)
    elif kind == "re":
        X = U.random_regexp(rng, rng.randint(0, 4), ["a", "b"])
        pr, chk, absfn = print_regexp_simple, nb.check_regexp_language_from_words, ab.regexp
        muts = [("random", U.random_regexp(rng, rng.randint(0, 4), ["a", "b"])) for _ in range(3)]
    elif kind == "pda":
        import gambatools.pda_algorithms as pa
        from gambatools.pda import PDA
        # no epsilon moves that push: every closure is finite and far below the iteration limit
        X = pdasrc.build({"kind": "pda_nfa_like", "seed": rng.randrange(10 ** 9), "eps": "ε"})
        pr, chk, absfn = pa.print_pda, nb.check_pda_language_from_words, ab.pda
        muts = []
        for _ in range(3):
            d = {k: set(v) for k, v in X.delta.items() if v}
            F = set(X.F)
            if d and rng.random() < 0.6:
                k = rng.choice(sorted(d))
                d[k].discard(rng.choice(sorted(d[k])))
            else:
                F ^= {rng.choice(sorted(X.Q))}
            muts.append(("pda", PDA(set(X.Q), set(X.Sigma), set(X.Gamma), {k: v for k, v in d.items() if v}, X.q0, F, X.epsilon)))
    elif kind == "tm":
        import gambatools.tm_algorithms as ta
        from gambatools.tm import TM
        X = tmsrc.build({"kind": "tm_rnd", "seed": rng.randrange(10 ** 9)})
        pr, chk, absfn = ta.print_tm, nb.check_tm_language_from_words, ab.tm
        muts = []
        for _ in range(3):
            d = dict(X.delta)
            if d and rng.random() < 0.7:
                k = rng.choice(sorted(d))
                q, b, mv = d[k]
                d[k] = (rng.choice(sorted(X.Q)), b, mv) if rng.random() < 0.5 else (q, rng.choice(sorted(X.Gamma)), "L" if mv == "R" else "R")
            elif d:
                del d[rng.choice(sorted(d))]
            muts.append(("tm", TM(set(X.Q), set(X.Sigma), set(X.Gamma), d, X.q0, X.q_accept, X.q_reject, X.blank)))
    else:
        while True:
            G = cfgsrc.build(cfgsrc.random_src(rng))
            if ca.cfg_is_simple(G) and {r.variable for r in G.R} == set(G.V) and G.R[0].variable == G.S and \
                    set().union(*[r.terminals() for r in G.R]) == set(G.Sigma):
                break
        X = G
        pr, chk, absfn = ca.cfg_print_simple, nb.check_cfg_language_from_words, ab.cfg
        muts = []
        for _ in range(3):
            H = copy.deepcopy(G)
            if len(H.R) > 1 and rng.random() < 0.6:
                del H.R[rng.randrange(1, len(H.R))]
                if {r.variable for r in H.R} != set(H.V) or set().union(*[r.terminals() for r in H.R]) != set(H.Sigma) \
                        or not H.is_valid():
                    continue
            else:
                H = cfgsrc.build(cfgsrc.random_src(rng))
                if not (ca.cfg_is_simple(H) and {r.variable for r in H.R} == set(H.V) and H.R[0].variable == H.S and
                        set().union(*[r.terminals() for r in H.R]) == set(H.Sigma)):
                    continue
            muts.append(("rules", H))
    return X, pr, chk, absfn, muts


def inst_lang_words(rng, kind):
    from gambatools.language_generator import generate_language
    length = rng.choice([2, 3])
    X, pr, chk, absfn, muts = _kind_obj(rng, kind)
    ws = generate_language(X, length)
    max_states = rng.choice([0, 0, 1, 2, 5]) if kind in ("dfa", "nfa", "pda", "tm") else 0
    wl = words_str(ws)

    def submit(A):
        args = (pr(A), wl, length, max_states) if kind in ("dfa", "nfa", "pda", "tm") else (pr(A), wl, length)
        v, cex, exc, out = run_checker(chk, *args)
        return {"family": "lang_words", "kind": kind, "ans": absfn(A), "words": ab.words(ws), "length": length,
                "max_states": max_states, "verdict": v, "cex": cex, "exc": exc, "out": ab.enc(out), "illformed": False}
    return X, submit, muts


def inst_lang_file(rng):
    import gambatools.dfa_algorithms as da
    import gambatools.nfa_algorithms as na
    import gambatools.notebook as nb
    length = rng.choice([2, 3])
    D = small_dfa(rng, None, "ab")
    unary = rng.random() < 0.35
    if unary:
        # unary 3-state automata (tails and cycles): two of them can agree on every word up to their number of states
        # and differ on a word of length 4 - below the bound 5 of the second question
        back = rng.randrange(3)
        D = _mkdfa(["s0", "s1", "s2"], "a", {("s0", "a"): "s1", ("s1", "a"): "s2", ("s2", "a"): "s%d" % back}, "s0",
                   [q for q in ("s0", "s1", "s2") if rng.random() < 0.5])
        length = 2
    path = write("ref_%d.dfa" % rng.randrange(10 ** 9), da.print_dfa(D))
    N = U.random_nfa(rng, rng.randint(1, 3), "ab", eps="ε", prefix="q")

    def submit(A):
        from gambatools.dfa import DFA
        if isinstance(A, DFA):
            v, cex, exc, out = run_checker(nb.check_dfa_language_from_file, da.print_dfa(A), path, length)
            k, a = "dfa", ab.dfa(A)
        else:
            v, cex, exc, out = run_checker(nb.check_nfa_language_from_file, na.print_nfa(A), path, length)
            k, a = "nfa", ab.nfa(A)
        return {"family": "lang_file", "kind": k, "ans": a, "refkind": "dfa", "ref": ab.dfa(D), "length": length,
                "verdict": v, "cex": cex, "exc": exc, "out": ab.enc(out), "illformed": False}
    # history: the same reference FILE is used again with another length bound
    length2 = 5 if length == 2 else 2

    def submit_other_length(A):
        nonlocal length
        keep = length
        length = length2
        try:
            return submit(A)
        finally:
            length = keep
    muts = dfa_mutants(D, rng, 3) + [("nfa", N)]
    if unary:
        # every 3-state chain s0 -> s1 -> s2 -> s_back with every accepting set: 24 answers
        muts = [("unary/%d/%d" % (b, fm), _mkdfa(["s0", "s1", "s2"], "a",
                                                 {("s0", "a"): "s1", ("s1", "a"): "s2", ("s2", "a"): "s%d" % b}, "s0",
                                                 [q for i, q in enumerate(("s0", "s1", "s2")) if (fm >> i) & 1]))
                for b in range(3) for fm in range(8)] + muts
    raws = [("other_length/%d" % i, (lambda M=M: submit_other_length(M))) for i, (_, M) in enumerate(muts[:24 if unary else 3])]
    return D, submit, muts, raws


def inst_accepts_rejects(rng):
    import gambatools.dfa_algorithms as da
    import gambatools.notebook as nb
    D = small_dfa(rng, None, "ab")
    ws = list(U.words_upto("ab", 3))
    acc = [w for w in ws if da.dfa_accepts_word(D, w)]
    rej = [w for w in ws if not da.dfa_accepts_word(D, w)]
    A_ = rng.sample(acc, min(len(acc), 3))
    R_ = rng.sample(rej, min(len(rej), 3))

    def submit(A):
        v, cex, exc, out = run_checker(nb.check_dfa_accepts_rejects, da.print_dfa(A), words_str(A_) if A_ else "",
                                       words_str(R_) if R_ else "")
        if cex:
            cex["minimal"] = False
        return {"family": "accepts_rejects", "kind": "dfa", "ans": ab.dfa(A), "acc": ab.words(A_), "rej": ab.words(R_),
                "length": 3, "verdict": v, "cex": None, "exc": exc, "out": ab.enc(out), "illformed": False}
    return D, submit, dfa_mutants(D, rng, 4)


_EXT = {"dfa": ".dfa", "nfa": ".nfa", "pda": ".pda", "tm": ".tm", "cfg": ".cfg", "re": ".regexp"}


def inst_lang_file_x(rng):
    """language from a reference FILE of any kind (.nfa .regexp .cfg .pda .tm .dfa, chosen through the extension by
    language_parser) against answers of any kind, each through its own check_<kind>_language_from_file"""
    import gambatools.notebook as nb
    chks = {"dfa": nb.check_dfa_language_from_file, "nfa": nb.check_nfa_language_from_file,
            "pda": nb.check_pda_language_from_file, "tm": nb.check_tm_language_from_file,
            "cfg": nb.check_cfg_language_from_file, "re": nb.check_regexp_language_from_file}
    length = rng.choice([2, 3])
    refkind = rng.choice(["nfa", "re", "cfg", "pda", "tm", "nfa", "re", "cfg"])
    X, pr, _, absfn, muts = _kind_obj(rng, refkind)
    path = write("refx_%d%s" % (rng.randrange(10 ** 9), _EXT[refkind]), pr(X))
    ref = absfn(X)
    others = []
    for k in rng.sample([k for k in ("dfa", "nfa", "re", "cfg") if k != refkind], 2):
        Y, prY, _, absY, _ = _kind_obj(rng, k)
        others.append(("other/" + k, (k, Y, prY, absY)))

    def submit(A):
        k, Y, prY, absY = A if isinstance(A, tuple) else (refkind, A, pr, absfn)
        v, cex, exc, out = run_checker(chks[k], prY(Y), path, length)
        return {"family": "lang_file", "kind": k, "ans": absY(Y), "refkind": refkind, "ref": ref, "length": length,
                "verdict": v, "cex": cex, "exc": exc, "out": ab.enc(out), "illformed": False}
    return X, submit, list(muts) + others


def inst_accepts_rejects_x(rng, kind):
    """accept / reject lists for a grammar text (check_cfg_accepts_rejects) and for an object of any kind handed to
    check_automaton_accepts_rejects directly"""
    import gambatools.notebook as nb
    from gambatools.language_generator import generate_language
    X, pr, _, absfn, muts = _kind_obj(rng, kind)
    S = sorted(ab_alphabet(X, kind))
    ws = [w for w in U.words_upto("".join(S) if S else "", 3)]
    lang = generate_language(X, 3)
    acc = [w for w in ws if w in lang]
    rej = [w for w in ws if w not in lang]
    A_ = rng.sample(acc, min(len(acc), 3))
    R_ = rng.sample(rej, min(len(rej), 3))

    def submit(A):
        if kind == "cfg":
            v, cex, exc, out = run_checker(nb.check_cfg_accepts_rejects, pr(A), words_str(A_) if A_ else "",
                                           words_str(R_) if R_ else "")
        else:
            v, cex, exc, out = run_checker(nb.check_automaton_accepts_rejects, A, words_str(A_) if A_ else "",
                                           words_str(R_) if R_ else "")
        return {"family": "accepts_rejects", "kind": kind, "ans": absfn(A), "acc": ab.words(A_), "rej": ab.words(R_),
                "length": 3, "verdict": v, "cex": None, "exc": exc, "out": ab.enc(out), "illformed": False}
    return X, submit, muts


def ab_alphabet(X, kind):
    if kind == "re":
        from gambatools.regexp_algorithms import regexp_symbols
        return {str(a) for a in regexp_symbols(X)}
    return {str(a) for a in X.Sigma}


LAYERED = [   # non-degenerate, nullable variables found in different rounds of the fix-point
    [("S", "ABC"), ("A", "BC"), ("A", "a"), ("B", ""), ("B", "b"), ("C", "BB"), ("C", "c")],
    [("S", "aAb"), ("A", "BC"), ("B", "CC"), ("B", "b"), ("C", ""), ("C", "c")],
    [("S", "AB"), ("S", "a"), ("A", "B"), ("A", "a"), ("B", "CC"), ("C", ""), ("C", "b")],
    [("S", "ASA"), ("S", "aB"), ("A", "B"), ("A", "S"), ("B", "b"), ("B", "")],
    [("S", "AC"), ("C", "AA"), ("A", ""), ("A", "a"), ("S", "b")],
]


def simple_grammar(rng, cnf=False, nondeg=True):
    import gambatools.cfg_algorithms as ca
    if not cnf and rng.random() < 0.15:
        return U.make_cfg(rng.choice(LAYERED))
    if not cnf and rng.random() < 0.12:
        return U.make_cfg(rng.choice(cfgsrc.LONG_RHS[:3]))     # right-hand sides of 5-7 symbols
    for _ in range(200):
        G = cfgsrc.build(cfgsrc.random_src(rng, cnf=cnf))
        if not (ca.cfg_is_simple(G) and {r.variable for r in G.R} == set(G.V) and G.R[0].variable == G.S and
                set().union(*[r.terminals() for r in G.R]) == set(G.Sigma)):
            continue
        if nondeg and not cfgsrc.nondegenerate(G):
            continue
        if cnf and not G.is_chomsky():
            continue
        return G
    return None


def inst_chomsky(rng, phase):
    import gambatools.cfg_algorithms as ca
    from gambatools.notebook_chomsky import cfg_apply_chomsky, cfg_check_chomsky
    G = simple_grammar(rng)
    if G is None:
        return None
    start = rng.choice(["T", "Z", "S"])
    if start in G.V:
        start = next(c for c in "ZYXWT" if c not in G.V)
    length = rng.choice([2, 3])
    own = cfg_apply_chomsky(G, phase, start)
    t = ca.cfg_print_simple(G)

    def submit(A):
        v, cex, exc, out = run_checker(cfg_check_chomsky, t, ca.cfg_print_simple(A), phase, start, length)
        a = ab.cfg(A)
        a["S"] = sorted(set(a["S"]))
        return {"family": "chomsky", "cfg": ab.cfg(G), "ans": a, "phase": phase, "start": ab.enc(start), "length": length,
                "verdict": v, "cex": cex, "exc": exc, "out": ab.enc(out), "illformed": False}
    muts = []
    for k in range(1, 6):
        if k != phase:
            muts.append(("phase%d" % k, cfg_apply_chomsky(G, k, start)))
    muts.append(("original", G))
    H = copy.deepcopy(own)
    if len(H.R) > 1:
        del H.R[rng.randrange(1, len(H.R))]
        if {r.variable for r in H.R} == set(H.V):
            H.Sigma = set().union(*[r.terminals() for r in H.R])
            muts.append(("drop_rule", H))
    ok = []
    for n, M in muts:
        if ca.cfg_is_simple(M) and {r.variable for r in M.R} == set(M.V) and M.R[0].variable == M.S and M.is_valid():
            M = copy.deepcopy(M)
            M.Sigma = set().union(*[r.terminals() for r in M.R])
            ok.append((n, M))
    return own, submit, ok


def inst_cyk(rng):
    import gambatools.cfg_algorithms as ca
    from gambatools.notebook_cfg import check_cyk_matrix
    G = simple_grammar(rng, cnf=True)
    if G is None:
        return None
    ws = sorted(w for w in ca.cfg_words_up_to_n(G, 3) if w)
    w = rng.choice(ws) if ws and rng.random() < 0.8 else "".join(rng.choice(sorted(G.Sigma) or ["a"]) for _ in range(rng.randint(1, 3)))
    X = ca.cfg_cyk_matrix(G, w)
    n = len(w)
    rows = [[sorted(X[j - i, j]) for j in range(i, n)] for i in range(n)]      # rows[i]: spans of length i+1
    rows = list(reversed(rows))                                                # top row first
    t = ca.cfg_print_simple(G)

    def text_of(rows):
        return "\n".join("  ".join("{" + ",".join(c) + "}" for c in r) for r in rows)

    def submit(R):
        v, cex, exc, out = run_checker(check_cyk_matrix, t, w, text_of(R))
        return {"family": "cyk", "cfg": ab.cfg(G), "w": ab.word(w), "rows": [[[ab.enc(x) for x in c] for c in r] for r in R],
                "length": 0, "verdict": v, "cex": None, "exc": exc, "out": ab.enc(out), "illformed": False}
    muts = []
    V = sorted(G.V)
    for _ in range(3):
        R = copy.deepcopy(rows)
        i = rng.randrange(len(R))
        j = rng.randrange(len(R[i]))
        v = rng.choice(V)
        R[i][j] = sorted(set(R[i][j]) ^ {v})
        muts.append(("cell", R))
    if n > 1:
        muts.append(("drop_top_row", rows[1:]))
        muts.append(("drop_bottom_row", rows[:-1]))
        muts.append(("only_bottom_row", rows[-1:]))
    return rows, submit, muts


def inst_derivation(rng, mode):
    import gambatools.cfg_algorithms as ca
    from gambatools.notebook_cfg import check_cfg_derivation
    G = simple_grammar(rng, cnf=True)
    if G is None:
        return None
    ws = sorted(w for w in ca.cfg_words_up_to_n(G, 4) if w)
    if not ws:
        return None
    w = rng.choice(ws)
    own = ca.cfg_derive_word(G, w, mode)
    t = ca.cfg_print_simple(G)

    def submit(seq):
        text = " => ".join("".join(el) for el in seq)
        v, cex, exc, out = run_checker(check_cfg_derivation, t, text, w, mode)
        return {"family": "derivation", "cfg": ab.cfg(G), "w": ab.word(w), "mode": mode,
                "seq": [[["v", ab.enc(c)] if c.isupper() else ["t", ab.enc(c)] for c in "".join(el)] for el in seq],
                "length": 0, "verdict": v, "cex": None, "exc": exc, "out": ab.enc(out), "illformed": False}
    muts = []
    other = "rightmost" if mode == "leftmost" else "leftmost"
    muts.append(("other_order", ca.cfg_derive_word(G, w, other)))
    if len(own) > 2:
        k = rng.randrange(1, len(own) - 1)
        muts.append(("skip_step", own[:k] + own[k + 1:]))
        muts.append(("truncate", own[:-1]))
    if len(own) >= 2:
        sw = [list(x) for x in own]
        sw[-1] = list(reversed(sw[-1]))
        muts.append(("reverse_last", sw))
    return own, submit, muts


def inst_exhaustive(rng, fam, seed):
    """a small reference and EVERY answer of a small universe (instead of a few mutants)"""
    import gambatools.dfa_algorithms as da
    import gambatools.notebook_dfa as nd
    S = "a" if seed % 2 else "ab"
    k = 2 if S == "ab" else 3
    D = U.dfa_from_code(2, S, seed % U.dfa_count(2, S), prefix="s")
    t = da.print_dfa(D)
    if fam == "complement/exh":
        own = da.dfa_complement(D)

        def submit(A):
            v, cex, exc, out = run_checker(nd.check_dfa_complement, t, da.print_dfa(A))
            return {"family": "complement", "d1": ab.dfa(D), "ans": ab.dfa(A), "length": 0, "verdict": v, "cex": cex,
                    "exc": exc, "out": ab.enc(out), "illformed": False}
        answers = [("code%d" % c, U.dfa_from_code(2, S, c, prefix="s")) for c in range(U.dfa_count(2, S))]
        return own, submit, answers
    if fam == "minimal/exh":
        own = da.dfa_quotient(D)
        length = 3

        def submit(A):
            v, cex, exc, out = run_checker(nd.check_dfa_minimal, t, da.print_dfa(A), length)
            return {"family": "minimal", "d1": ab.dfa(D), "ans": ab.dfa(A), "length": length, "verdict": v, "cex": cex,
                    "exc": exc, "out": ab.enc(out), "illformed": False}
        answers = [("k1code%d" % c, U.dfa_from_code(1, S, c, prefix="m")) for c in range(U.dfa_count(1, S))]
        answers += [("k2code%d" % c, U.dfa_from_code(2, S, c, prefix="m")) for c in range(U.dfa_count(2, S))]
        return own, submit, answers
    raise ValueError(fam)


FAMILIES = ["union", "intersection", "symmetric_difference", "complement", "reverse", "minimal", "hopcroft", "nfa2dfa",
            "dfa2regexp", "lang_words/dfa", "lang_words/nfa", "lang_words/re", "lang_words/cfg", "lang_words/pda",
            "lang_words/tm", "lang_file", "lang_file/x",
            "accepts_rejects", "accepts_rejects/cfg", "accepts_rejects/nfa", "accepts_rejects/re", "accepts_rejects/pda",
            "accepts_rejects/tm", "chomsky/1", "chomsky/2", "chomsky/3", "chomsky/4", "chomsky/5", "cyk",
            "derivation/leftmost", "derivation/rightmost", "complement/exh", "minimal/exh"]


def instance(fam, rng):
    if fam in ("union", "intersection", "symmetric_difference"):
        return inst_product(rng, fam)
    if fam == "complement":
        return inst_complement(rng)
    if fam == "reverse":
        return inst_reverse(rng)
    if fam == "minimal":
        return inst_minimal(rng)
    if fam == "hopcroft":
        return inst_minimal(rng, "dfa_hopfcroft")
    if fam == "nfa2dfa":
        return inst_nfa2dfa(rng)
    if fam == "dfa2regexp":
        return inst_dfa2regexp(rng)
    if fam.startswith("lang_words/"):
        return inst_lang_words(rng, fam.split("/")[1])
    if fam == "lang_file":
        return inst_lang_file(rng)
    if fam == "lang_file/x":
        return inst_lang_file_x(rng)
    if fam == "accepts_rejects":
        return inst_accepts_rejects(rng)
    if fam.startswith("accepts_rejects/"):
        return inst_accepts_rejects_x(rng, fam.split("/")[1])
    if fam.startswith("chomsky/"):
        return inst_chomsky(rng, int(fam[-1]))
    if fam == "cyk":
        return inst_cyk(rng)
    if fam.startswith("derivation/"):
        return inst_derivation(rng, fam.split("/")[1])
    raise ValueError(fam)


def instance_seeded(fam, rng, seed):
    if fam.endswith("/exh"):
        return inst_exhaustive(rng, fam, seed)
    return instance(fam, rng)


def events_for(fam, seed, want):
    """want: 'own' (C13) or 'all' (C12: own answer and its mutants)"""
    rng = random.Random("%s/%d" % (fam, seed))
    inst, exc = guarded(lambda: instance_seeded(fam, rng, seed), 60)
    src = {"kind": "chk", "fam": fam, "seed": seed}
    if exc != "none":
        yield {"op": "selfcheck", "family": fam, "verdict": "generator_raised_" + exc, "src": src}
        return
    if inst is None:
        return
    own, submit, muts = inst[:3]
    raws = inst[3] if len(inst) > 3 else []
    e = submit(own)
    e.update({"op": "selfcheck" if want == "own" else "check", "mutation": "own", "src": src,
              "has_cex": e["cex"] is not None})
    if e["cex"] is None:
        e["cex"] = {"word": [], "polarity": "none", "minimal": False}
    yield e
    if want == "own":
        return
    for name, M in muts:
        r, exc = guarded(lambda: submit(M), 60)
        if exc != "none":
            continue
        r.update({"op": "check", "mutation": name, "src": dict(src, mutation=name), "has_cex": r["cex"] is not None})
        if r["cex"] is None:
            r["cex"] = {"word": [], "polarity": "none", "minimal": False}
        yield r
    for name, fn in raws:
        r, exc = guarded(fn, 60)
        if exc != "none":
            continue
        keep = (not r.get("illformed")) and r.get("cex") is not None
        r.update({"op": "check", "mutation": "raw/" + name, "src": dict(src, mutation="raw/" + name), "has_cex": keep})
        if not keep:
            r["cex"] = {"word": [], "polarity": "none", "minimal": False}
        yield r
