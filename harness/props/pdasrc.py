"""PDA sources shared by C02, C09, C10, C15, C16."""
import itertools
import random

from .. import universe as U

Q2 = ["s0", "s1"]


def pool2(eps="ε"):
    return U.pda_transitions(Q2, "a", "X", eps)          # 32 transitions


def small_pdas(max_trans=3):
    """index -> (transition indices, F mask): all PDAs on 2 states, input {a}, stack {X}, <= max_trans moves"""
    n = 32
    for k in range(max_trans + 1):
        for comb in itertools.combinations(range(n), k):
            for fm in range(4):
                yield {"kind": "pda_small", "trans": list(comb), "fm": fm}


def tree_pda(depth, eps="ε"):
    """epsilon chain with a binary choice of the pushed symbol (X or Y) at every level: the closure of
    the initial configuration has 2^(depth+1) configurations.  Only the leaf that pushed X at every
    level leads to acceptance of 'a' (the X's are popped again down to the bottom marker), so an
    acceptance test that cuts the closure short is likely to miss it."""
    Q = ["i"] + ["t%d" % i for i in range(depth + 1)] + ["u", "acc"]
    trans = [("i", eps, eps, "t0", "$")]
    for i in range(depth):
        trans.append(("t%d" % i, eps, eps, "t%d" % (i + 1), "X"))
        trans.append(("t%d" % i, eps, eps, "t%d" % (i + 1), "Y"))
    trans.append(("t%d" % depth, "a", eps, "u", eps))
    trans.append(("u", eps, "X", "u", eps))
    trans.append(("u", eps, "$", "acc", eps))
    return U.make_pda(Q, "a", "XY$", trans, "i", ["acc"], eps)


# state names the normal forms generate themselves (fresh_state(Q, hint) -> hint1, hint2, ...)
CLASH_NAMES = [["M1", "M2", "M3", "M4"], ["q_accept1", "q_initial1", "q_drain1", "M1"], ["M2", "q_accept2", "M1", "q_drain2"],
               ["M", "M10", "M11", "M01"],
               # pda_to_cfg names its variables p'q: names with an apostrophe make two pairs look alike
               ["x", "x'", "'y", "y"]]


def build(src):
    P = U.reorder_delta(_build(src), src)
    if src.get("qnames") is not None:
        pool = CLASH_NAMES[src["qnames"] % len(CLASH_NAMES)]
        Q = sorted(P.Q)
        if len(Q) <= len(pool):
            rot = src["qnames"] // len(CLASH_NAMES)
            P = U.rename_pda(P, {q: pool[(i + rot) % len(pool)] for i, q in enumerate(Q)})
    return P


def _build(src):
    eps = src.get("eps", "ε")
    if src["kind"] == "pda_small":
        pool = pool2(eps)
        F = [q for i, q in enumerate(Q2) if (src["fm"] >> i) & 1]
        return U.make_pda(Q2, "a", "X", [pool[i] for i in src["trans"]], "s0", F, eps)
    if src["kind"] == "pda_tree":
        return tree_pda(src["depth"], eps)
    if src["kind"] == "pda_rnd":
        rng = random.Random(src["seed"])
        k = rng.randint(1, 3)
        S = rng.choice(["a", "ab", "ab"])
        G = rng.choice(["X", "XY", "X$"])
        if src.get("multichar") and rng.random() < 0.3:
            # stack symbols of several characters: legal through the API, NOT representable in the text format
            G = rng.choice([["X", "XX", "Y"], ["a", "b", "ab"]])
        P, _ = U.random_pda(rng, k, S, G, ntrans=rng.randint(1, 7), eps=eps, prefix=rng.choice(["s", "q"]))
        return P
    if src["kind"] == "pda_nfa_like":
        # mostly stack-free, strongly nondeterministic: several successors per (state, letter), shared targets
        rng = random.Random(src["seed"])
        Q = U.names(rng.randint(2, 4), "s")
        trans = []
        # every fourth: two stack symbols, one of which is spelled like two of the other (X, XX)
        two = src["seed"] % 4 == 3
        stack_moves = ([(eps, eps)] * 2 + [(eps, "X"), ("X", eps), (eps, "XX"), ("XX", eps)]) if two else \
            ([(eps, eps)] * 4 + [(eps, "X"), ("X", eps)])
        for p in Q:
            for a in "ab":
                for q in Q:
                    if rng.random() < 0.4:
                        u, v = rng.choice(stack_moves)
                        trans.append((p, a, u, q, v))
        if rng.random() < 0.3:
            trans.append((rng.choice(Q), eps, eps, rng.choice(Q), eps))
        F = [q for q in Q if rng.random() < 0.4]
        return U.make_pda(Q, "ab", ["X", "XX"] if two else "X", trans, Q[0], F, eps)
    if src["kind"] == "pda_eps_graph":
        # 4-8 states, many stack-free epsilon moves (cycles AND chains), a few pushes/pops of one symbol and a few
        # letter moves: finite closures of 4-20 configurations that need as many pops as they have members
        rng = random.Random(src["seed"])
        Q = U.names(rng.randint(4, 8), "s")
        trans = []
        order = Q[:]
        rng.shuffle(order)
        for p, q in zip(order, order[1:]):
            if rng.random() < 0.8:
                trans.append((p, eps, eps, q, eps))
        for _ in range(rng.randint(1, 4)):
            trans.append((rng.choice(Q), eps, eps, rng.choice(Q), eps))          # back edges: cycles
        for _ in range(rng.randint(0, 2)):
            p, q = rng.choice(Q), rng.choice(Q)
            trans.append((p, eps, eps, q, "X") if rng.random() < 0.5 else (p, eps, "X", q, eps))
        for _ in range(rng.randint(1, 3)):
            trans.append((rng.choice(Q), "a", rng.choice([eps, eps, "X"]), rng.choice(Q), rng.choice([eps, eps, "X"])))
        F = [order[-1]] if rng.random() < 0.6 else [q for q in Q if rng.random() < 0.3]
        return U.make_pda(Q, "a", "X", sorted(set(trans)), order[0], F, eps)
    if src["kind"] == "pda_fan":
        # FAN-IN: one configuration reached along k epsilon paths, then a tail of 2-3 more epsilon moves to the only
        # accepting state (optionally behind a letter); closure of k + tail + 2 configurations.  A closure loop that
        # spends its limit on the k - 1 re-discoveries of the joint is incomplete at the boundary limit
        rng = random.Random(src["seed"])
        k, tail = src["k"], src["tail"]
        names = U.names(k + tail + 3, "s")
        rng.shuffle(names)
        pre, q0, j = names[0], names[1], names[2]
        mids, tl = names[3:3 + k], names[3 + k:]
        trans = [(q0, eps, eps, m, eps) for m in mids] + [(m, eps, eps, j, eps) for m in mids]
        for p, q in zip([j] + tl, tl):
            trans.append((p, eps, eps, q, eps))
        if src.get("push"):
            # the tail pops what the first move of the fan pushed: stacks are part of the configurations
            trans = [(p, a, u, q, ("X" if p == q0 else v)) for (p, a, u, q, v) in trans]
            trans = [(p, a, ("X" if q == tl[-1] else u), q, v) for (p, a, u, q, v) in trans]
        if src.get("letter"):
            trans.append((pre, "a", eps, q0, eps))
            return U.make_pda(names, "a", "X", trans, pre, [tl[-1]], eps)
        return U.make_pda([x for x in names if x != pre], "a", "X", trans, q0, [tl[-1]], eps)
    if src["kind"] == "pda_spelling":
        # stack symbols X and XX: the stacks [X,XX] and [XX,X] are different but are SPELLED alike; both pushes and any
        # non-empty subset (mask) of six pops that tell them apart
        push = [("s0", "a", eps, "s0", "X"), ("s0", "b", eps, "s0", "XX")]
        pops = [("s0", "a", "X", "s1", eps), ("s0", "b", "X", "s1", eps), ("s0", "a", "XX", "s1", eps),
                ("s0", "b", "XX", "s1", eps), ("s1", "a", "X", "s1", eps), ("s1", "b", "XX", "s1", eps)]
        tr = push + [pops[i] for i in range(6) if (src["mask"] >> i) & 1]
        return U.make_pda(["s0", "s1"], "ab", ["X", "XX"], tr, "s0", ["s1"], eps)
    if src["kind"] == "pda_markers":
        # stack alphabets that contain the markers the constructions want to use themselves: the dummy symbol of
        # the push/pop form and ALL candidates for the bottom-of-stack marker
        rng = random.Random(src["seed"])
        G = rng.choice(["∅", "∅X", "$@#*&!?", "$@#*&!?∅"])
        P, _ = U.random_pda(rng, rng.randint(1, 3), "a", G, ntrans=rng.randint(1, 5), eps=eps, prefix="s")
        return P
    if src["kind"] == "pda_apos":
        # state names with an apostrophe: pda_to_cfg calls its variables p'q, so (x', y) and (x, 'y) look alike;
        # pushes leave x / x', pops enter y / 'y
        rng = random.Random(src["seed"])
        Q = ["x", "x'", "'y", "y"]
        trans = []
        for _ in range(rng.randint(1, 2)):
            trans.append((rng.choice(["x", "x'"]), rng.choice(["a", eps]), eps, rng.choice(Q), "X"))
        for _ in range(rng.randint(1, 2)):
            trans.append((rng.choice(Q), rng.choice(["a", eps]), "X", rng.choice(["y", "'y"]), eps))
        for _ in range(rng.randint(0, 2)):
            trans.append((rng.choice(Q), rng.choice(["a", eps]), rng.choice(["X", eps]), rng.choice(Q), rng.choice(["X", eps])))
        return U.make_pda(Q, "a", "X", sorted(set(trans)), "x", [rng.choice(["y", "'y"])], eps)
    if src["kind"] == "pda_trans":
        return U.make_pda(src["Q"], src["S"], src["G"], [tuple(t) for t in src["T"]], src["q0"], src["F"], eps)
    raise ValueError(src)


# accepted words whose runs need LONG epsilon paths in configuration space (deep stacks drained by epsilon pops)
DEEP = [
    # push an X per a, then guess the end, drain the stack by epsilon pops, accept on the bottom marker
    ({"kind": "pda_trans", "Q": ["i", "p", "d", "f"], "S": "a", "G": "X$", "q0": "i", "F": ["f"],
      "T": [["i", "ε", "ε", "p", "$"], ["p", "a", "ε", "p", "X"], ["p", "ε", "ε", "d", "ε"], ["d", "ε", "X", "d", "ε"],
            ["d", "ε", "$", "f", "ε"]]}, ["a" * 7, "a" * 12, "a" * 16]),
    # a^n b^n with n up to 8
    ({"kind": "pda_trans", "Q": ["q1", "q2", "q3", "q4"], "S": "ab", "G": "0$", "q0": "q1", "F": ["q1", "q4"],
      "T": [["q1", "ε", "ε", "q2", "$"], ["q2", "a", "ε", "q2", "0"], ["q2", "b", "0", "q3", "ε"],
            ["q3", "b", "0", "q3", "ε"], ["q3", "ε", "$", "q4", "ε"]]}, ["a" * 6 + "b" * 6, "a" * 8 + "b" * 8, "a" * 8 + "b" * 7]),
    # two symbols pushed per letter, popped one by one through a two-state epsilon loop
    ({"kind": "pda_trans", "Q": ["s", "t", "u", "v"], "S": "a", "G": "XY", "q0": "s", "F": ["v"],
      "T": [["s", "a", "ε", "t", "X"], ["t", "ε", "ε", "s", "Y"], ["s", "ε", "Y", "u", "ε"], ["u", "ε", "X", "s", "ε"],
            ["s", "ε", "ε", "v", "ε"]]}, ["a" * 5, "a" * 9]),
]

def chain_srcs(rng, count):
    """(i) balanced computations that are the concatenation of THREE or FOUR push...pop segments at the same stack
    height through different states with different stack symbols (segment: epsilon push, pop on a letter - the word
    abc / abca has one letter per segment), the states named by a random permutation (the order of the state set
    follows the names); (ii) PDAs that push their 'bottom marker' again higher up the stack because their initial
    state lies on a cycle: they accept with symbols left on the stack although they look like the normal form"""
    out = []
    for i in range(count):
        k = 3 + (i % 3 == 2)
        names = ["p%d" % j for j in range(2 * k + 1)] if i % 2 else list("abcdefghi"[: 2 * k + 1].upper())
        rng.shuffle(names)
        T = []
        for j in range(k):
            q, m, q1 = names[2 * j], names[2 * j + 1], names[2 * j + 2]
            T.append([q, "ε", "ε", m, "uvwx"[j]])
            T.append([m, "abca"[j], "uvwx"[j], q1, "ε"])
        if i % 4 == 3:
            T.append([names[2], "b", "ε", names[2], "ε"])          # a stack-free loop between two segments
        out.append({"kind": "pda_trans", "Q": sorted(names), "S": "abc", "G": "uvwx"[:k], "q0": names[0],
                    "F": [names[2 * k]], "T": T, "n": 4 if k == 4 else 3})
    for mk, sym, again in (("$", "A", "A"), ("#", "X", "ε"), ("$", "$x", "x")):
        out.append({"kind": "pda_trans", "Q": ["q0", "q1", "q2"], "S": "ab", "G": sorted(set(mk + sym)), "q0": "q0", "F": ["q2"],
                    "T": [["q0", "ε", "ε", "q1", mk], ["q1", "a", "ε", "q0", again], ["q1", "b", mk, "q2", "ε"]]})
    return out


def _rise(h, lead, syms):
    """an accepting run whose epsilon stretch RISES h symbols above both of its end configurations: (a letter,) h
    epsilon pushes, h epsilon pops, accept - a search for the epsilon path must not bound the stack height by its ends"""
    Q = ["r%d" % i for i in range(2 * h + 2)]
    T = []
    k = 0
    if lead:
        T.append([Q[0], "a", "ε", Q[1], "ε"])
        k = 1
    st = []
    for i in range(h):
        x = syms[i % len(syms)]
        T.append([Q[k], "ε", "ε", Q[k + 1], x])
        st.append(x)
        k += 1
    for i in range(h):
        T.append([Q[k], "ε", st.pop(), Q[k + 1], "ε"])
        k += 1
    return ({"kind": "pda_trans", "Q": Q[: k + 1], "S": "a", "G": sorted(set(syms)), "q0": Q[0], "F": [Q[k]], "T": T},
            ["a"] if lead else [""])


DEEP += [_rise(h, lead, syms) for h in (2, 3, 4) for lead in (0, 1) for syms in ("X", "XY")]

SPECIAL = [
    # a^n b^n (Sipser)
    {"kind": "pda_trans", "Q": ["q1", "q2", "q3", "q4"], "S": "ab", "G": "0$", "q0": "q1", "F": ["q1", "q4"],
     "T": [["q1", "ε", "ε", "q2", "$"], ["q2", "a", "ε", "q2", "0"], ["q2", "b", "0", "q3", "ε"],
           ["q3", "b", "0", "q3", "ε"], ["q3", "ε", "$", "q4", "ε"]]},
    # accepts with a non-empty stack
    {"kind": "pda_trans", "Q": ["q0", "q1"], "S": "a", "G": "X", "q0": "q0", "F": ["q1"],
     "T": [["q0", "a", "ε", "q1", "X"]]},
    # stack-growing epsilon cycle
    {"kind": "pda_trans", "Q": ["q0", "q1"], "S": "a", "G": "X", "q0": "q0", "F": ["q1"],
     "T": [["q0", "ε", "ε", "q0", "X"], ["q0", "a", "X", "q1", "ε"]]},
    # replace and no-op moves, several accepting states
    {"kind": "pda_trans", "Q": ["p", "q", "r"], "S": "ab", "G": "XY", "q0": "p", "F": ["q", "r"],
     "T": [["p", "a", "ε", "q", "X"], ["q", "b", "X", "r", "Y"], ["r", "ε", "ε", "p", "ε"], ["q", "a", "X", "q", "X"]]},
    # markers the constructions want to use are already stack symbols
    {"kind": "pda_trans", "Q": ["q0", "q1"], "S": "a", "G": "$@", "q0": "q0", "F": ["q1"],
     "T": [["q0", "a", "ε", "q1", "$"], ["q1", "a", "$", "q0", "@"]]},
    # no accepting state
    {"kind": "pda_trans", "Q": ["q0"], "S": "a", "G": "X", "q0": "q0", "F": [], "T": [["q0", "a", "ε", "q0", "X"]]},
    # two replace moves into one state pushing different symbols
    {"kind": "pda_trans", "Q": ["q0", "q1", "q2", "q3"], "S": "ab", "G": "XYZ", "q0": "q0", "F": ["q3"],
     "T": [["q0", "ε", "ε", "q1", "Z"], ["q1", "a", "Z", "q2", "X"], ["q1", "b", "Z", "q2", "Y"],
           ["q2", "a", "X", "q3", "ε"], ["q2", "b", "Y", "q3", "ε"]]},
]
