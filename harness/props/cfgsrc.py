"""Grammar sources shared by C02, C07, C08, C13, C15, C16."""
import itertools
import random

from .. import universe as U

RHS2 = U.rhs_pool("SA", "ab", 2)                 # 21 right-hand sides
RULES2 = [(l, r) for l in "SA" for r in RHS2]      # 42 rules


def small_grammars(max_rules=3):
    """all rule sets of size <= max_rules over RULES2 that contain a rule for S (put first)"""
    for k in range(1, max_rules + 1):
        for comb in itertools.combinations(range(len(RULES2)), k):
            rules = [RULES2[i] for i in comb]
            if not any(l == "S" for l, _ in rules):
                continue
            i = next(i for i, (l, _) in enumerate(rules) if l == "S")
            rules.insert(0, rules.pop(i))
            yield rules


SPECIAL = [
    [("S", "aSb"), ("S", "")],
    [("S", "AB"), ("A", "a"), ("A", ""), ("B", "b"), ("B", "A")],
    [("S", "A"), ("A", "B"), ("B", "S"), ("B", "b")],                    # cyclic unit rules
    [("S", "aSbS"), ("S", "")],                                           # same nullable variable twice
    [("S", "AA"), ("A", "a"), ("A", "")],
    [("S", "ASA"), ("S", "aB"), ("A", "B"), ("A", "S"), ("B", "b"), ("B", "")],   # Sipser 2.10
    [("S", "TT"), ("T", "AA"), ("T", "BB"), ("A", "a"), ("B", "b")],
    [("S", "AB"), ("S", "a"), ("A", "a"), ("B", "b")],
    [("S", "abAB"), ("A", "bAB"), ("A", ""), ("B", "BAa"), ("B", "A"), ("B", "")],
    [("S", "aAb"), ("A", "aAb"), ("A", "ab"), ("S", "A")],
    [("S", "SS"), ("S", "a"), ("S", "")],
    [("S", "A"), ("A", "A"), ("A", "a")],                                 # useless self rule
    [("S", "Ab"), ("A", "Aa"), ("B", "b")],                               # unproductive A, useless B
]


# unit-rule cycles WITH EXITS (a member of the cycle has a second unit alternative / the cycle is entered from several
# sides): what a variable inherits must not depend on the order in which `for A in V` visits the cycle
UNIT_CYCLES = [
    [("S", "PdT"), ("P", "Q"), ("P", "T"), ("P", "a"), ("Q", "P"), ("Q", "b"), ("T", "c")],
    [("S", "QQ"), ("P", "Q"), ("P", "T"), ("Q", "P"), ("T", "c")],
    [("S", "PQ"), ("P", "Q"), ("P", "T"), ("Q", "P"), ("Q", "U"), ("T", "c"), ("U", "d")],
    [("S", "PP"), ("P", "Q"), ("Q", "T"), ("T", "P"), ("T", "U"), ("U", "d")],
    [("S", "P"), ("S", "aQ"), ("P", "Q"), ("Q", "T"), ("Q", "S"), ("T", "P"), ("T", "b")],
    [("S", "QbT"), ("P", "Q"), ("Q", "T"), ("T", "Q"), ("T", "P"), ("P", "U"), ("U", "a"), ("U", "")],
]
# right-hand sides of 5-7 symbols: cfg_make_rules_of_length_two has to chain three and more fresh variables
LONG_RHS = [
    [("S", "aSbSc"), ("S", "d")],
    [("S", "abAba"), ("A", "aAbAbAa"), ("A", "b")],
    [("S", "AbAbAb"), ("A", "a"), ("A", "")],
    [("S", "aAbBcS"), ("S", ""), ("A", "aaaaa"), ("B", "A"), ("B", "bSbSb")],
]


def unit_cycle_srcs(rng, count):
    """the cycle grammars with the roles P, Q, T, U played by the letters A-D in a random assignment (the set order
    of the variables follows their names)"""
    out = []
    for i in range(count):
        rules = UNIT_CYCLES[i % len(UNIT_CYCLES)]
        perm = list("ABCD")
        rng.shuffle(perm)
        m = dict(zip("PQTU", perm))
        out.append({"kind": "cfg_rules", "rules": [[m.get(l, l), "".join(m.get(c, c) for c in r)] for l, r in rules]})
    return out


def build(src):
    if src["kind"] == "cfg_rules":
        vn = U.VAR_NAME_POOLS[src["vnames"]] if src.get("vnames") is not None else None
        return U.make_cfg([tuple(r) for r in src["rules"]], start=src.get("start"), V=src.get("V"),
                          Sigma=src.get("Sigma"), eps=src.get("eps", "ε"), vnames=vn)
    raise ValueError(src)


def random_src(rng, cnf=False, many_vars=False):
    vars_ = rng.choice(["SA", "SAB", "SAB", "SABC"])
    rules = U.random_cfg(rng, vars_=vars_, terms=rng.choice(["ab", "ab", "a", "abc"]),
                         nrules=rng.randint(2, 7), maxlen=rng.choice([2, 3, 3, 4]), cnf=cnf)
    src = {"kind": "cfg_rules", "rules": [list(r) for r in rules]}
    if many_vars:
        # 24-27 declared variables: both branches of cfg_fresh_variable
        extra = "CDEFGHIJKLMNOPQRTUVWXYZ"[: rng.choice([20, 21, 22, 23])]
        src["V"] = list(extra)
    return src


def dense_src(rng):
    """dense grammars, mostly binary rules (the start variable included in right-hand sides): sub-words are
    derived by several variables through different split points"""
    vs = "SABC"[: rng.choice([3, 4])]
    rules = [(v, rng.choice("ab")) for v in vs if rng.random() < 0.8]
    for _ in range(rng.randint(4, 8)):
        rules.append((rng.choice(vs), rng.choice(vs) + rng.choice(vs)))
    rules = list(dict.fromkeys(rules))
    if not any(l == "S" for l, _ in rules):
        rules.insert(0, ("S", "AB"))
    i = next(i for i, (l, _) in enumerate(rules) if l == "S")
    rules.insert(0, rules.pop(i))
    return {"kind": "cfg_rules", "rules": [list(r) for r in rules]}


NULLABLE_ORDER = [   # nullable variables found THROUGH other nullable variables, next to non-nullable partners: which
    # variables a worklist / fix-point of the nullable set meets first depends on the ORDER of the rules
    [("S", "Xc"), ("X", "Yb"), ("Y", ""), ("Y", "C"), ("C", "")],
    [("S", "Yb"), ("S", "YbYb"), ("Y", ""), ("Y", "CD"), ("C", ""), ("D", "")],
    [("S", "AYB"), ("A", "a"), ("A", "Y"), ("Y", "CC"), ("Y", ""), ("C", ""), ("B", "b")],
    [("S", "XY"), ("X", "aY"), ("Y", "CD"), ("Y", "y"), ("C", ""), ("C", "D"), ("D", "")],
]


def nullable_order_srcs(rng, per):
    """the grammars of NULLABLE_ORDER with the rules after the first in `per` random orders each"""
    for rules in NULLABLE_ORDER:
        for _ in range(per):
            rest = rules[1:]
            rng.shuffle(rest)
            yield {"kind": "cfg_rules", "rules": [list(rules[0])] + [list(r) for r in rest]}


def tall_src(rng):
    """HEIGHT versus YIELD: a variable with a flat alternative of long yield (U -> PP, P -> XX, X -> a^m: derivation
    height 3, yield 4m) and a deep alternative of short yield (U -> aT, T -> aV, ..., -> aa: height d + 1, yield d + 2).
    Anything that estimates shortest yields from the first COMPLETED derivation is wrong from n = d + 3 on"""
    m = rng.choice([2, 3])
    d = rng.choice([3, 4])
    c = rng.choice(["a", "a", "b"])
    chain = list("TVWY"[:d])
    rules = [("U", "PP"), ("U", "a" + chain[0]), ("P", "XX"), ("X", "a" * m)]
    for x, y in zip(chain, chain[1:]):
        rules.append((x, "a" + y))
    rules.append((chain[-1], "aa"))
    if rng.random() < 0.3:
        rules.append(("U", "XXX"))
    rng.shuffle(rules)
    return {"kind": "cfg_rules", "rules": [["S", c + "U"]] + [list(r) for r in rules]}, d


def eps_as_terminal(src):
    """the same grammar with the terminal b replaced by the GLYPH ε used as an ordinary terminal; the grammar's
    epsilon symbol is '_' (a grammar may use any symbol as its epsilon)"""
    return dict(src, rules=[[l, r.replace("b", "ε")] for l, r in src["rules"]], eps="_")


def nondegenerate(G):
    """every variable derives a non-empty word (the domain of C13)"""
    from gambatools.cfg import Variable
    ok = set()
    changed = True
    while changed:
        changed = False
        for r in G.R:
            if r.variable in ok:
                continue
            syms = r.alternative.symbols
            if syms and all((not isinstance(x, Variable)) or x in ok for x in syms):
                # derives a non-empty word if it has a terminal or some variable part non-empty (all ok vars are)
                ok.add(r.variable)
                changed = True
    return ok >= set(G.V)
