"""C18 - NFA union, concatenation and star are correct for arbitrary operands (and histories)."""
import random

from .. import abstraction as ab
from .. import universe as U
from . import base, gen
from ..worker import guarded

PID = "C18"
PREFIXES = ["p", "r", "t", "q", "x", "q1"]


def tasks(tier, seed):
    hs = gen.hashseeds(tier, seed)
    n = 12 if tier == "quick" else 48
    cnt = 150 if tier == "quick" else 500
    return gen.spread([{"kind": "sessions", "count": cnt, "seed": seed * 100 + i} for i in range(n)], hs)


def session(seed):
    """one session = a sequence of constructions in one process, the later ones re-using earlier
    results and the library's shared default identifier generator (the history)."""
    import gambatools.nfa_algorithms as na
    from gambatools.identifier_generator import IdentifierGenerator
    rng = random.Random(seed)
    S = rng.choice(["a", "ab", "ab", "abc"])
    eps = rng.choice(gen.EPSS)
    if eps in S:
        eps = ""
    pool = []
    prefixes = rng.sample(PREFIXES, 4)
    mixed = rng.random() < 0.3           # operands with DIFFERENT epsilon symbols
    for i, pf in enumerate(prefixes):
        e_i = eps
        if mixed and i % 2 == 1:
            e_i = next(x for x in gen.EPSS if x != eps and x not in S)
        N = U.random_nfa(rng, rng.randint(1, 3), S if rng.random() < 0.8 else S[:1], eps=e_i, prefix=pf,
                         total=rng.random() < 0.3)
        pool.append(N)
    if rng.random() < 0.2:
        # one operand's epsilon symbol is an INPUT symbol of another operand
        pool.append(U.random_nfa(rng, rng.randint(1, 3), "a", eps="e", prefix="m", total=rng.random() < 0.3))
        pool.append(U.random_nfa(rng, rng.randint(1, 3), "ae", eps=rng.choice(["", "ε"]), prefix="n", total=rng.random() < 0.3))
    own = IdentifierGenerator(rng.choice([0, 0, 5, 9, 9, 10])) if rng.random() < 0.4 else None
    if rng.random() < 0.3:
        # operand states q8, q9, q10, q11, ...: the generator's proposals collide several times in a row
        big = U.random_nfa(rng, rng.randint(3, 5), S, eps=eps, prefix="s", total=rng.random() < 0.3)
        off = rng.choice([7, 8, 9])
        pool.append(U.rename_fa(big, {q: "q%d" % (int(q[1:]) + off) for q in big.Q}))
    steps = rng.randint(2, 5)
    for step in range(steps):
        op = rng.choice(["union", "concatenation", "repetition", "repetition"])
        if op == "repetition":
            A = rng.choice(pool)
            B = None
        else:
            cand = [(X, Y) for X in pool for Y in pool if X is not Y and X.Q.isdisjoint(Y.Q)]
            if not cand:
                continue
            A, B = rng.choice(cand)
        a, b = ab.nfa(A), (ab.nfa(B) if B is not None else ab.nfa(A))
        if op == "repetition":
            R, exc = guarded(lambda: na.nfa_repetition(A, own) if own else na.nfa_repetition(A))
        elif op == "union":
            R, exc = guarded(lambda: na.nfa_union(A, B, own) if own else na.nfa_union(A, B))
        else:
            R, exc = guarded(lambda: na.nfa_concatenation(A, B))
        ev = {"op": "nfa_op", "name": op, "a": a, "b": b, "exc": exc, "step": step, "own_generator": own is not None,
              "src": {"kind": "session", "seed": seed}}
        if exc == "none":
            ev["res"] = ab.nfa(R)
            pool.append(R)
        yield ev


def drive(task):
    if task["kind"] == "gen_replay":
        from .. import session_replay
        for ev in session_replay.drive_file(task["path"], task["lo"], task["hi"]):
            if ev["op"] != "operands_kept":        # operand integrity is property C19, not C18
                yield ev
        return
    for i in range(task["count"]):
        yield from session(task["seed"] * 100000 + i)


def redrive(src):
    if src["kind"] == "gen_line":
        from .. import session_replay
        for ev in session_replay.replay_line(src["line"]):
            if ev["op"] != "operands_kept":
                yield ev
        return
    yield from session(src["seed"])


MODELS = {"quick": [("Session", "Session_q.cfg", "heap-level model of the three constructions: 256 operand pairs x all "
                    "histories of <= 3 calls, printable epsilon")],
          "thorough": [("Session", "Session_t.cfg", "all histories of <= 4 calls"),
                       ("Session", "Session_t0.cfg", "all histories of <= 3 calls, epsilon = ''")]}
RULE = ("seeded sessions of 2-5 constructions in one process: four random operand NFAs (1-3 states, prefixes incl. 'q' "
        "= the generator's hint, four epsilon symbols, partial/total tables), later calls re-use earlier results and "
        "the shared default identifier generator (or an explicit one); one event per call; non-trivial = not the first "
        "call of its session (has a history); distinct = distinct (operation, operands)")


def nontrivial(e):
    return e.get("step", 0) > 0


MATCHERS = {}


def gen_tasks(pid, tier, res):
    """(G): TLC enumerates every behaviour of Session.tla up to the call bound; each is replayed."""
    import os
    from .. import tlc, common
    cfg = "Session_gen_q.cfg" if tier == "quick" else "Session_gen_t.cfg"
    path = os.path.join(common.outdir(pid, "gen"), "session_traces.ndjson")
    n, dist, gen_ = tlc.generate_behaviours("Session", cfg, path)
    res["behaviours"] = n
    res["cfg"] = cfg
    parts = 16
    step = (n + parts - 1) // parts
    return [{"kind": "gen_replay", "path": path, "lo": i * step, "hi": min(n, (i + 1) * step), "hashseed": i % 3}
            for i in range(parts) if i * step < n]


def check(tier, seed):
    info = {}
    ts = tasks(tier, seed) + gen_tasks(PID, tier, info)

    def extra(res, done):
        res.notes["spec_behaviours_replayed_into_impl"] = info

    return base.standard_check(PID, tier, seed, ts, MODELS[tier], RULE, nontrivial, matchers=MATCHERS, extra=extra,
                               assumptions=["<= 3 states per base "
                                            "operand, results nest up to depth 5"])


def replay(path, seed):
    return base.standard_replay(PID, path, redrive)
