"""C15 - simulation traces and derivations are genuine witnesses and are always produced."""
import random

from .. import abstraction as ab
from .. import universe as U
from . import base, gen, cfgsrc, pdasrc
from ..worker import guarded

PID = "C15"
LIMIT = 4.0
MAX_TIMEOUTS = 8


def tasks(tier, seed):
    q = tier == "quick"
    hs = [0, 1, 2, 3, 4, 5, 6, 7] if q else list(range(32))
    ts = []
    ts += [dict(t, what="nfa", n=3) for t in gen.nfa_src_tasks(2, "ab", 8, stride=5 if q else 1)]
    ts += [dict(t, what="nfa", n=3) for t in gen.nfa_src_tasks(3, "a", 8, stride=2001 if q else 97)]
    ts += [{"kind": "rnd_nfa", "count": 300 if q else 1500, "seed": seed * 10 + i, "what": "nfa", "n": 3}
           for i in range(4 if q else 16)]
    ts += [dict(t, what="dfa", n=3) for t in gen.dfa_src_tasks(3, "ab", 2, stride=11 if q else 1, pools=(0, 5))]
    ts += [{"kind": "pda", "part": i, "parts": 4, "stride": 25 if q else 3, "n": 3} for i in range(4)]
    ts += [{"kind": "rnd_pda", "count": 120 if q else 800, "seed": seed * 10 + i, "n": 3} for i in range(2 if q else 8)]
    ts += [{"kind": "cfg", "count": 250 if q else 1500, "seed": seed * 10 + i, "n": 4} for i in range(3 if q else 12)]
    return gen.spread(ts, hs)


def fa_events(A, kind, n, src, budget):
    import gambatools.nfa_algorithms as na
    import gambatools.dfa_algorithms as da
    absA = ab.fa(A)
    for w in U.words_upto(sorted(A.Sigma), n if len(A.Sigma) < 3 else 2):
        if budget["t"] <= 0:
            budget["skipped"] += 1
            return
        if kind == "dfa":
            run, exc = guarded(lambda: da.dfa_simulate_word(A, w), LIMIT)
        else:
            run, exc = guarded(lambda: na.nfa_simulate_word(A, w), LIMIT)
        if exc == "Timeout":
            budget["t"] -= 1
        yield {"op": "sim_fa", "kind": kind, "fa": absA, "w": ab.word(w), "isnone": run is None,
               "run": [[ab.enc(q), ab.word(u)] for (q, u) in (run or [])], "exc": exc, "src": dict(src, w=w)}


def path_events(N, src, rng):
    """(T) direct calls of nfa_find_epsilon_path: the pops / examined edges reported by the hooks are
    replayed through the step functions of Steps.tla (shared with EpsPath.tla)"""
    import gambatools.nfa_algorithms as na
    from gambatools import _verif
    if not _verif.ON:
        return
    Q = sorted(N.Q)
    for _ in range(2):
        R = set(rng.sample(Q, rng.randint(1, max(1, len(Q) - 1))))
        f = rng.choice(Q)
        _verif.take()
        path, exc = guarded(lambda: na.nfa_find_epsilon_path(N, set(R), f), LIMIT)
        tr = _verif.take()
        if exc != "none":
            continue
        steps = [["pop", ab.enc(t["src"])] if t["ev"] == "path.pop" else ["edge", ab.enc(t["src"]), ab.enc(t["target"])]
                 for t in tr if t["ev"] in ("path.pop", "path.edge")]
        yield {"op": "path_trace", "fa": ab.nfa(N), "R": ab.sset(R), "f": ab.enc(f), "steps": steps,
               "res": [ab.enc(x) for x in path] if path is not None else ["~none~"], "src": dict(src, w="")}


def pda_events(P, n, src, budget, limit=40, words=None):
    import gambatools.pda_algorithms as pa
    from gambatools.global_settings import GambaTools
    absP = ab.pda(P)
    default = GambaTools.pda_epsilon_closure_max_iterations
    if limit is None:
        limit = 1000          # the library's documented default: the setting is left alone for this call
    else:
        GambaTools.pda_epsilon_closure_max_iterations = limit
    try:
        for w in (words if words is not None else U.words_upto(sorted(P.Sigma), n if len(P.Sigma) < 2 else 2)):
            if budget["t"] <= 0:
                budget["skipped"] += 1
                return
            run, exc = guarded(lambda: pa.pda_simulate_word(P, w), LIMIT)
            if exc == "Timeout":
                budget["t"] -= 1
            yield {"op": "sim_pda", "pda": absP, "w": ab.word(w), "isnone": run is None, "limit": limit,
                   "run": [[ab.enc(q), ab.word(u), [ab.enc(x) for x in st]] for (q, u, st) in (run or [])],
                   "exc": exc, "src": dict(src, w=w)}
    finally:
        GambaTools.pda_epsilon_closure_max_iterations = default


def cfg_events(src, n):
    import gambatools.cfg_algorithms as ca
    G0 = cfgsrc.build(src)
    if G0.is_chomsky():
        G = G0
    else:
        G, exc = guarded(lambda: ca.cfg_to_chomsky(G0))
        if exc != "none":
            return
    A = ab.cfg(G)
    ws, exc = guarded(lambda: sorted(w for w in ca.cfg_words_up_to_n(G, n) if w), 30)
    rng = random.Random(len(str(A)))
    ws = ws or []
    for w in (ws if len(ws) <= 5 else rng.sample(ws, 5)):
        for mode in ("leftmost", "rightmost"):
            d, exc = guarded(lambda: ca.cfg_derive_word(G, w, mode), LIMIT)
            yield {"op": "derive", "cfg": A, "w": ab.word(w), "mode": mode, "exc": exc,
                   "seq": [[ab.sym(x) if hasattr(x, "upper") and type(x).__name__ in ("Variable", "Terminal")
                            else ["t", ab.enc(x)] for x in el] for el in (d or [])],
                   "src": dict(src, n=n)}


def drive(task):
    budget = {"t": MAX_TIMEOUTS, "skipped": 0}
    k = task["kind"]
    if k == "sched_replay":
        from .. import schedule_replay
        yield from schedule_replay.drive_file(task["path"], task["lo"], task["hi"], task.get("stride", 1))
        return
    if task.get("what") == "nfa":
        rng = random.Random(task.get("seed", 5))
        for src in gen.nfa_srcs(task):
            N = gen.build_nfa(src)
            yield from fa_events(N, "nfa", task["n"], src, budget)
            yield from path_events(N, src, rng)
    elif task.get("what") == "dfa":
        for src in gen.dfa_srcs(task):
            yield from fa_events(gen.build_dfa(src), "dfa", task["n"], src, budget)
    elif k == "pda":
        for i, src in enumerate(pdasrc.small_pdas(3)):
            if i % task["parts"] == task["part"] and (i // task["parts"]) % task["stride"] == 0:
                yield from pda_events(pdasrc.build(src), task["n"], src, budget)
        if task["part"] == 0:
            for src in pdasrc.SPECIAL:
                yield from pda_events(pdasrc.build(src), task["n"], src, budget)
            for src, words in pdasrc.DEEP:
                yield from pda_events(pdasrc.build(src), 0, src, budget, limit=60, words=words)
            # under the DEFAULT setting (1000 iterations): branching closures of 127 and 255 configurations
            for d in (6, 7):
                src = {"kind": "pda_tree", "depth": d, "default_limit": 1}
                yield from pda_events(pdasrc.build(src), 0, src, budget, limit=None, words=["a"])
    elif k == "rnd_pda":
        for i in range(task["count"]):
            src = {"kind": "pda_rnd", "seed": task["seed"] * 100000 + i, "multichar": 1}
            yield from pda_events(pdasrc.build(src), task["n"], src, budget)
    elif k == "cfg":
        rng = random.Random(task["seed"])
        for rules in cfgsrc.SPECIAL:
            yield from cfg_events({"kind": "cfg_rules", "rules": [list(r) for r in rules]}, task["n"])
        for i in range(task["count"]):
            src = cfgsrc.random_src(rng, cnf=rng.random() < 0.6)
            if i % 5 == 4:
                src["vnames"] = rng.randrange(len(U.VAR_NAME_POOLS))      # multi-character variable names
            yield from cfg_events(src, task["n"])
            if i % 3 == 1:
                # history: the same rule list with ANOTHER start variable, in the same process
                lhs = sorted({r[0] for r in src["rules"]} - {src["rules"][0][0]})
                if lhs:
                    yield from cfg_events(dict(src, start=lhs[0]), task["n"])


def redrive(src):
    budget = {"t": 100, "skipped": 0}
    k = src["kind"]
    if k == "gen_line":
        from .. import schedule_replay
        yield from schedule_replay.replay_line(src["line"])
        return
    w = src.pop("w", None)
    if k in ("exh_nfa", "rnd_nfa"):
        evs = fa_events(gen.build_nfa(src), "nfa", 3, src, budget)
    elif k in ("exh_dfa", "rnd_dfa"):
        evs = fa_events(gen.build_dfa(src), "dfa", 3, src, budget)
    elif k.startswith("pda"):
        evs = pda_events(pdasrc.build(src), 3, src, budget,
                         limit=None if src.get("default_limit") else 60 if w and len(w) > 3 else 40,
                         words=[w] if w and (len(w) > 3 or src.get("default_limit")) else None)
    else:
        yield from cfg_events(src, src.pop("n", 4))
        return
    for e in evs:
        if w is None or e["src"].get("w") == w:
            yield e


MODELS = {"quick": [("EpsPath", "EpsPath_q.cfg", "all eps-graphs on 3 states x all source sets / targets x all pop and "
                     "edge orders: the back-pointer walk terminates with a genuine path"),
                    ("NfaSim", "NfaSim_q.cfg", "nfa_simulate_word: forward pass with the stack of state sets, backward reconstruction "
                     "with every choice of accepting state, epsilon path and letter-move source; all NFAs on 2 states over {a}, words <= 2: "
                     "never stuck on an accepted word, partial result always a valid run suffix, result genuine, none iff rejected"),
                    ("PdaSim", "PdaSim_q.cfg", "pda_simulate_word: NfaSim over configurations; all PDAs on 2 states over {a} / {X} with <= 3 "
                     "moves, words <= 1, closures of <= 6 configurations"),
                    ("Derive", "Derive_q.cfg", "cfg_derive_word (tree construction + extraction worklists): every list of <= 3 "
                     "CNF rules over {S,A,B}/{a,b} in every order x every word <= 3 of the language x both modes: a valid "
                     "leftmost / rightmost derivation, termination")],
          "thorough": [("EpsPath", "EpsPath_t.cfg", "all eps-graphs on 4 states"),
                       ("NfaSim", "NfaSim_t.cfg", "all NFAs on 2 states over {a,b}, words <= 2 (647 k states)"),
                       ("PdaSim", "PdaSim_t.cfg", "PDAs with <= 3 moves, words <= 2, closures of <= 8 configurations"),
                       ("Derive", "Derive_q.cfg", "rule lists <= 3, words <= 3"),
                       ("Derive", "Derive_t.cfg", "rule lists <= 4, words <= 4")]}
RULE = ("NFA(2,{a,b}) and NFA(3,{a}) (strided), random NFAs (epsilon self-loops and cycles frequent), DFA(3,{a,b}) "
        "(strided), the PDA universes of C09 plus three PDAs with deep stacks drained by epsilon pops on words of length "
        "5-16, CNF grammars (hand-written + random, converted when necessary; every recorded derivation is also compared "
        "with the one DeriveSteps.tla computes - binding); every word "
        "<= 3 (2 for larger alphabets) simulated under 8 (32) PYTHONHASHSEEDs; a call that does not return within 4 s "
        "is a non-termination (at most 8 per task are waited for); derivations leftmost and rightmost for <= 5 "
        "generated words per grammar; non-trivial = the word is accepted and non-empty; distinct = distinct (object, "
        "word, mode)")


def nontrivial(e):
    if e["op"] == "sched_replay":
        return len(e["src"]["line"]["schedule"]) >= 3
    if e["op"] == "path_trace":
        return len(e["steps"]) >= 3
    return (not e.get("isnone", False)) and len(e["w"]) > 0


MATCHERS = {}


def check(tier, seed):
    from .. import schedule_replay
    info = {}
    ts = tasks(tier, seed) + schedule_replay.gen_tasks(PID, "path", tier, info, quick_stride=3)

    def extra(res, done):
        res.notes["model_schedules_forced_onto_impl"] = dict(
            info, meaning="every pop order and, per popped state, every order of its outgoing edges of the path search "
                          "on all epsilon graphs over 3 states x source sets x targets (Schedules.tla, Algo = path) is "
                          "forced onto nfa_find_epsilon_path and, for one source state, onto nfa_simulate_word / "
                          "pda_simulate_word of the empty word; the runs are judged and the returned path is compared "
                          "with the model's")

    return base.standard_check(PID, tier, seed, ts, MODELS[tier], RULE, nontrivial, matchers=MATCHERS, extra=extra,
                               assumptions=["termination is observed with a CPU-time limit of 4 s per call (calls "
                                            "that terminate take < 10 ms) and explained by the EpsPath model",
                                            "PDA simulation judged under closure limit 40"])


def replay(path, seed):
    return base.standard_replay(PID, path, redrive)
