"""(G) Forcing the real algorithms through every schedule TLC enumerates from spec/Schedules.tla.
The hooks _verif.force/restore make the algorithm's own pop take the element the schedule names."""
import json
from collections import defaultdict

from . import abstraction as ab
from .worker import guarded


def build_dfa(j):
    from gambatools.dfa import DFA
    return DFA(set(j["Q"]), set(j["S"]), {(t[0], t[1]): t[2] for t in j["T"]}, j["q0"], set(j["F"]))


def _pc_actual(r, tr):
    """the configurations the closure returned; a result larger than the model allows (one start configuration
    plus what `limit` pops of <= 3 moves can add) is recorded by its size only - it already differs from `expected`"""
    r = list(r or [])
    if len(r) > 1 + 3 * tr["limit"] + len(tr["final"]):
        return [["oversized result", [str(len(r))]]]
    return sorted([c.q, list(c.stack)] for c in r)


class Chooser:
    """follows a schedule; records whether every scheduled choice was available"""

    def __init__(self, site, schedule, match):
        self.site, self.schedule, self.match, self.k, self.ok = site, schedule, match, 0, True

    def __call__(self, site, S):
        if site != self.site:
            return None
        if self.k >= len(self.schedule):
            self.ok = False
            return None
        want = self.schedule[self.k]
        self.k += 1
        for x in S:
            if self.match(x, want):
                return x
        self.ok = False
        return None


def replay_line(line):
    from gambatools import _verif
    import gambatools.dfa_algorithms as da
    import gambatools.nfa_algorithms as na
    from gambatools.nfa import NFA
    tr = json.loads(line) if isinstance(line, str) else line
    src = {"kind": "gen_line", "line": tr}
    algo = tr["algo"]
    if algo in ("tf", "unit"):
        yield from replay_order_line(tr)
        return
    if algo == "path":
        yield from replay_path_line(tr)
        return
    if algo == "hop":
        D = build_dfa(tr["d1"])
        ch = Chooser("hop.pop", tr["schedule"], lambda x, w: set(x[0]) == set(w[0]) and x[1] == w[1])
        _verif.CHOOSER = ch
        _verif.take()
        pre = ab.dfa(D)
        try:
            R, exc = guarded(lambda: da.dfa_hopfcroft(D))
        finally:
            _verif.CHOOSER = None
        evs = _verif.take()
        ev = {"op": "minimise", "algo": "dfa_hopfcroft", "fa": pre, "exc": exc, "post": ab.dfa(D), "src": src}
        if exc == "none":
            ev["res"] = ab.dfa(R)
        yield ev
        end = [t for t in evs if t["ev"] == "hop.end"]
        yield {"op": "sched_replay", "algo": "hop", "followed": ch.ok and ch.k == len(tr["schedule"]),
               "expected": sorted(sorted(b) for b in tr["final"]),
               "actual": sorted(sorted(b) for b in end[0]["P"]) if end else [], "src": src}
    elif algo == "iso":
        D1, D2 = build_dfa(tr["d1"]), build_dfa(tr["d2"])
        ch = Chooser("iso.pick", tr["schedule"], lambda x, w: list(x) == list(w))
        _verif.CHOOSER = ch
        try:
            r, exc = guarded(lambda: da.dfa_isomorphic1(D1, D2))
        finally:
            _verif.CHOOSER = None
        _verif.take()
        yield {"op": "iso", "variant": "dfa_isomorphic1", "d1": ab.dfa(D1), "d2": ab.dfa(D2),
               "res": bool(r) if exc == "none" else False, "res_swapped": bool(r) if exc == "none" else False,
               "exc": exc, "exc_swapped": exc, "src": src}
        yield {"op": "sched_replay", "algo": "iso", "followed": ch.ok and ch.k == len(tr["schedule"]),
               "expected": [tr["final"]], "actual": ["true" if r else "false"] if exc == "none" else [exc], "src": src}
    elif algo == "pc":
        from . import universe as U
        from gambatools.pda_algorithms import pda_epsilon_closure, pda_accepts_word, PDAState
        from gambatools.global_settings import GambaTools
        P = U.make_pda(["s0", "s1"], "a", "X", [tuple(t) for t in tr["moves"]], "s0", ["s1"], eps="eps")
        ch = Chooser("pc.pop", tr["schedule"], lambda x, w: x.q == w[0] and list(x.stack) == list(w[1]))
        default = GambaTools.pda_epsilon_closure_max_iterations
        GambaTools.pda_epsilon_closure_max_iterations = tr["limit"]
        _verif.CHOOSER = ch
        _verif.DETAIL = True
        try:
            r, exc = guarded(lambda: pda_epsilon_closure(P, [PDAState("s0", [])]))
            # the acceptance test of the empty word computes exactly this closure: forced through the same schedule
            ch2 = Chooser("pc.pop", tr["schedule"], ch.match)
            _verif.CHOOSER = ch2
            acc, exc2 = guarded(lambda: pda_accepts_word(P, ""))
        finally:
            _verif.CHOOSER = None
            _verif.DETAIL = False
            GambaTools.pda_epsilon_closure_max_iterations = default
        _verif.take()
        yield {"op": "pda_accepts", "pda": ab.pda(P), "n": 0, "limit": tr["limit"], "limit_after": tr["limit"],
               "accepted": ab.words([""] if acc else []), "exc": exc2, "src": src}
        yield {"op": "sched_replay", "algo": "pc", "followed": ch.ok and ch.k == len(tr["schedule"]) and ch2.ok,
               "expected": sorted([c[0], list(c[1])] for c in tr["final"]),
               "actual": _pc_actual(r, tr) if exc == "none" else [exc], "src": src}
    elif algo == "ec":
        Q = sorted({x for e in tr["edges"] for x in e} | set(tr["start"]) | {"s0", "s1", "s2"})
        delta = defaultdict(set)
        for p, q in tr["edges"]:
            delta[p, "e"].add(q)
        N = NFA(set(Q), {"a"}, delta, Q[0], set(), "e")
        ch = Chooser("ec.pop", tr["schedule"], lambda x, w: x == w)
        _verif.CHOOSER = ch
        try:
            r, exc = guarded(lambda: na.epsilon_closure(N, set(tr["start"])))
        finally:
            _verif.CHOOSER = None
        _verif.take()
        yield {"op": "eclose", "fa": ab.nfa(N), "cases": [{"arg": sorted(tr["start"]), "res": ab.sset(r or [])}],
               "src": src}
        yield {"op": "sched_replay", "algo": "ec", "followed": ch.ok and ch.k == len(tr["schedule"]),
               "expected": sorted(tr["final"]), "actual": sorted(r or []), "src": src}


class PathChooser:
    """nfa_find_epsilon_path / pda_find_epsilon_path: the schedule is a sequence of pops, each followed by the
    edges of the popped state in the order in which they are examined (a prefix for the pop that discovers f)"""

    def __init__(self, prefix, schedule, key):
        self.pop_site, self.edge_site, self.key = prefix + ".pop", prefix + ".edge", key
        self.groups = []
        for x in schedule:
            if x[0] == "pop":
                self.groups.append((x[1], []))
            else:
                self.groups[-1][1].append(x[2])
        self.k, self.ok, self.edges_seen = 0, True, 0

    def __call__(self, site, S):
        if site == self.pop_site:
            if self.k >= len(self.groups):
                self.ok = False
                return None
            want = self.groups[self.k][0]
            self.k += 1
            for x in S:
                if self.key(x) == want:
                    return x
            self.ok = False
            return None
        if site == self.edge_site:
            if not 0 < self.k <= len(self.groups):
                self.ok = False
                return None
            want = self.groups[self.k - 1][1]
            by = {}
            for x in S:
                by.setdefault(self.key(x), []).append(x)
            last = self.k == len(self.groups)
            if any(t not in by for t in want) or (not last and set(want) != set(by)):
                self.ok = False
                return None
            self.edges_seen += len(want)
            return [x for t in want for x in by[t]] + [x for t in sorted(by) if t not in want for x in by[t]]
        return None

    def followed(self):
        return self.ok and self.k == len(self.groups) and self.edges_seen == sum(len(g[1]) for g in self.groups)


PATH_BUDGET = {"timeouts": 6}       # per process: calls that may be waited for (1 s of CPU time each; they take < 1 ms)


def _pguard(fn):
    r, exc = guarded(fn, 1.0)
    if exc == "Timeout":
        PATH_BUDGET["timeouts"] -= 1
    return r, exc


def replay_path_line(tr):
    """a schedule of the path search forced onto nfa_find_epsilon_path directly (any source set), and - for a
    single source state - onto nfa_simulate_word / pda_simulate_word of the empty word, where it is the one path
    the backward reconstruction needs (initial state = source, accepting set = {target})"""
    from gambatools import _verif
    import gambatools.nfa_algorithms as na
    import gambatools.pda_algorithms as pa
    from gambatools.nfa import NFA
    from . import universe as U
    src = {"kind": "gen_line", "line": tr}
    if PATH_BUDGET["timeouts"] <= 0:
        return                      # non-termination has been reported six times by this process already
    Q = ["s0", "s1", "s2"] + sorted({x for e in tr["edges"] for x in e} - {"s0", "s1", "s2"})
    R, f, sched = list(tr["R"]), tr["f"], tr["schedule"]

    def mk(q0):
        delta = defaultdict(set)
        for p, q in tr["edges"]:
            delta[p, "e"].add(q)
        return NFA(set(Q), {"a"}, delta, q0, {f}, "e")
    N = mk(R[0])
    ch = PathChooser("path", sched, lambda x: x)
    _verif.CHOOSER = ch
    _verif.take()
    try:
        path, exc = _pguard(lambda: na.nfa_find_epsilon_path(N, set(R), f))
    finally:
        _verif.CHOOSER = None
    evs = _verif.take()
    if exc == "none":
        steps = [["pop", ab.enc(t["src"])] if t["ev"] == "path.pop" else ["edge", ab.enc(t["src"]), ab.enc(t["target"])]
                 for t in evs if t["ev"] in ("path.pop", "path.edge")]
        yield {"op": "path_trace", "fa": ab.nfa(N), "R": ab.sset(R), "f": ab.enc(f), "steps": steps,
               "res": [ab.enc(x) for x in path] if path is not None else ["~none~"], "src": src}
    yield {"op": "sched_replay", "algo": "path", "followed": ch.followed(), "expected": list(tr["final"]),
           "actual": (list(path) if path is not None else ["~none~"]) if exc == "none" else [exc], "src": src}
    if len(R) != 1:
        return
    # the public simulations of the empty word under the same schedule
    ch = PathChooser("path", sched, lambda x: x)
    _verif.CHOOSER = ch
    try:
        run, exc = _pguard(lambda: na.nfa_simulate_word(N, ""))
    finally:
        _verif.CHOOSER = None
    _verif.take()
    yield {"op": "sim_fa", "kind": "nfa", "fa": ab.nfa(N), "w": ab.word(""), "isnone": run is None,
           "run": [[ab.enc(q), ab.word(u)] for (q, u) in (run or [])], "exc": exc, "src": src}
    reach = tr["final"] != ["~none~"]
    yield {"op": "sched_replay", "algo": "path/nfa_simulate_word", "followed": ch.followed() if reach and sched else True,
           "expected": list(tr["final"]) if reach else ["~none~"],
           "actual": ([q for (q, u) in run] if run is not None else ["~none~"]) if exc == "none" else [exc], "src": src}
    P = U.make_pda(Q, "a", "X", [(p, "eps", "eps", q, "eps") for p, q in tr["edges"]], R[0], [f], eps="eps")
    ch = PathChooser("ppath", sched, lambda x: x.q if hasattr(x, "q") else x[0])
    _verif.CHOOSER = ch
    try:
        run, exc = _pguard(lambda: pa.pda_simulate_word(P, ""))
    finally:
        _verif.CHOOSER = None
    _verif.take()
    yield {"op": "sim_pda", "pda": ab.pda(P), "w": ab.word(""), "isnone": run is None, "limit": 1000,
           "run": [[ab.enc(q), ab.word(u), [ab.enc(x) for x in st]] for (q, u, st) in (run or [])],
           "exc": exc, "src": src}
    yield {"op": "sched_replay", "algo": "path/pda_simulate_word", "followed": ch.followed() if reach and sched else True,
           "expected": list(tr["final"]) if reach else ["~none~"],
           "actual": ([q for (q, u, st) in run] if run is not None else ["~none~"]) if exc == "none" else [exc], "src": src}


class OrderChooser:
    """dictates the order of a whole collection (the hook _verif.ordered)"""

    def __init__(self, site, schedule):
        self.site, self.schedule, self.used, self.ok = site, schedule, 0, True

    def __call__(self, site, xs):
        if site != self.site:
            return None
        by = {str(x): x for x in xs}
        if set(by) != set(self.schedule) or len(by) != len(self.schedule):
            self.ok = False
            return None
        self.used += 1
        return [by[k] for k in self.schedule]


def replay_order_line(tr):
    from gambatools import _verif
    import gambatools.dfa_algorithms as da
    import gambatools.cfg_algorithms as ca
    from gambatools.cfg import CFG, Rule, Alternative, Variable, Terminal
    src = {"kind": "gen_line", "line": tr}
    if tr["algo"] == "tf":
        D = build_dfa(tr["d1"])
        ch = OrderChooser("tf.order", tr["schedule"])
        _verif.CHOOSER = ch
        pre = ab.dfa(D)
        try:
            R, exc = guarded(lambda: da.dfa_minimize(D))
        finally:
            _verif.CHOOSER = None
        _verif.take()
        ev = {"op": "minimise", "algo": "dfa_minimize", "fa": pre, "exc": exc, "post": ab.dfa(D), "src": src}
        if exc == "none":
            ev["res"] = ab.dfa(R)
        yield ev
        yield {"op": "sched_replay", "algo": "tf", "followed": ch.ok and ch.used == 2,
               "expected": sorted("{" + ",".join(sorted(b)) + "}" for b in tr["final"]),
               "actual": sorted(R.Q) if exc == "none" else [exc], "src": src}
    else:
        def sym(x):
            return Variable(x[1]) if x[0] == "v" else Terminal(x[1])
        R0 = [Rule(Variable(r[0]), Alternative([sym(x) for x in r[1]])) for r in tr["rules"]]
        G = CFG({Variable(v) for v in tr["vars"]}, {Terminal("a"), Terminal("b")}, R0, Variable(tr["start"]))
        ch = OrderChooser("unit.var", tr["schedule"])
        _verif.CHOOSER = ch
        pre = ab.cfg(G)
        try:
            H, exc = guarded(lambda: ca.cfg_eliminate_unit_rules(G))
        finally:
            _verif.CHOOSER = None
        _verif.take()
        ev = {"op": "chomsky_phase", "phase": 3, "pre": pre, "post": ab.cfg(G), "exc": exc, "n": 3, "src": src}
        if exc == "none":
            ev["res"] = ab.cfg(H)
        yield ev
        yield {"op": "sched_replay", "algo": "unit", "followed": ch.ok and ch.used == 1,
               "expected": [[r[0], [list(x) for x in r[1]]] for r in tr["final"]],
               "actual": ab.cfg(H)["R"] if exc == "none" else [exc], "src": src}


def drive_file(path, lo, hi, stride=1):
    with open(path) as f:
        for i, ln in enumerate(f):
            if lo <= i < hi and (i - lo) % stride == 0:
                yield from replay_line(ln)


def gen_tasks(pid, algo, tier, info, parts=8, quick_stride=4):
    import os
    from . import tlc, common
    path = os.path.join(common.outdir(pid, "gen"), "schedules_%s.ndjson" % algo)
    n, dist, g = tlc.generate_behaviours("Schedules", "Schedules_%s.cfg" % algo, path)
    info["schedules_" + algo] = n
    step = (n + parts - 1) // parts
    return [{"kind": "sched_replay", "path": path, "lo": i * step, "hi": min(n, (i + 1) * step),
             "stride": quick_stride if tier == "quick" else 1, "hashseed": i % 3} for i in range(parts) if i * step < n]
