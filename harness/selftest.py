"""Binding self-test (run by setup.sh): the trace specification must REJECT a corrupted recording
and ACCEPT the genuine one.  For a few operations one genuine event is recorded from the real
library, then one field of a copy is corrupted (or one hook event removed from a fine trace); TLC
has to fail exactly the corrupted copies."""
import copy
import json
import os
import subprocess
import sys

from . import common, tlc


def record():
    """genuine events from the real code (in a worker process, hooks on)"""
    code = r'''
import json, random, sys
sys.path.insert(0, %r)
from harness.props import c01, c04, c03, c11, c20, c08, c06, c09, pdasrc
from harness import universe as U
out = []
rng = random.Random(1)
src = {"kind": "exh_nfa", "k": 2, "S": "ab", "code": 12345, "eps": "", "n": 2}
out += list(c01._events_for(c01.build(src), 2, src, rng))
out += [e for e in c04.one({"kind": "exh_dfa", "k": 3, "S": "ab", "code": 1234, "pool": 0, "perm": 0})]
out += list(c03.one({"kind": "exh_nfa", "k": 2, "S": "ab", "code": 4321, "eps": "e"}))
out += list(c11.events({"kind": "tm_code", "nwork": 1, "gamma": "a_", "code": 77}, 1, rng))[:1]
out += list(c20.one({"kind": "pairs", "k": 2, "S": "ab", "c1": 9, "c2": 9, "p2": "t"}))
out += [e for e in c06.dfa_events({"kind": "exh_dfa", "k": 3, "S": "ab", "code": 2345, "pool": 0, "perm": 0}) if e["op"] == "rip_trace"]
out += [e for e in c09.pc_events(pdasrc.build(pdasrc.SPECIAL[0]), pdasrc.SPECIAL[0], rng, 5)][:1]
from harness.props import cfgsrc
out += [e for e in c08.events({"kind": "cfg_rules", "rules": [["S", "aSbA"], ["S", ""], ["A", "S"], ["A", "ab"]]}, 2)
        if e["op"] == "chomsky_phase" and e["phase"] in (2, 4)]
from harness import dfaops_replay
line = {"op": "reverse", "d1": {"Q": ["q1", "trap1"], "S": ["a"], "T": [["q1", "a", "trap1"], ["trap1", "a", "q1"]], "q0": "q1", "F": ["q1"], "eps": "~none~"},
        "d2": {"Q": ["t0"], "S": ["a"], "T": [["t0", "a", "t0"]], "q0": "t0", "F": [], "eps": "~none~"},
        "res": {"Q": ["q1", "trap1", "q2"], "S": ["a"], "T": [["trap1", "a", "q1"], ["q1", "a", "trap1"], ["q2", "eps", "q1"]], "q0": "q2", "F": ["q1"], "eps": "eps"}}
out += [e for e in dfaops_replay.replay_line(line) if e["op"] == "sched_replay"]
from harness.props import c16
out += list(c16._events({"kind": "pda_rnd", "seed": 5, "eps": "e"}))[:1]
out += list(c16._events({"kind": "tm_rnd", "seed": 7}))[:1]
from harness.props import c15
out += [e for e in c15.cfg_events({"kind": "cfg_rules", "rules": [["S", "AB"], ["S", "AA"], ["A", "a"], ["B", "b"], ["A", "AB"]]}, 3)
        if e["op"] == "derive" and len(e["seq"]) >= 4][:2]
from harness import parser_replay
pl = {"kind": "tm", "lines": [{"k": "initial", "t": ["p"]}, {"k": "kw", "t": ["accept", "x-1"]},
      {"k": "tr", "t": ["p", "p", ["ok", False, "a", "B", "R"]]}], "err": "bad_state_label", "result": {"Q": []}}
out += [e for e in parser_replay.replay_line(pl) if e["op"] == "parser_replay"]
from harness import schedule_replay
sl = {"algo": "path", "R": ["s0"], "f": "s2", "edges": [["s0", "s0"], ["s0", "s1"], ["s1", "s0"], ["s1", "s2"]],
      "final": ["s0", "s1", "s2"], "schedule": [["pop", "s0", "s0"], ["edge", "s0", "s1"], ["edge", "s0", "s0"],
                                                ["pop", "s1", "s1"], ["edge", "s1", "s0"], ["edge", "s1", "s2"]]}
out += [e for e in schedule_replay.replay_line(sl) if e["op"] == "path_trace"]
from gambatools.nfa import NFA
Nsim = NFA({"s0", "s1"}, {"a"}, {("s0", "e"): {"s0", "s1"}}, "s0", {"s1"}, "e")
out += [e for e in c15.fa_events(Nsim, "nfa", 0, {"kind": "selftest"}, {"t": 5, "skipped": 0}) if not e["isnone"]][:1]
print(json.dumps(out))
''' % common.VERIF
    p = subprocess.run([common.PY, "-c", code], env=common.worker_env(0), stdout=subprocess.PIPE,
                       stderr=subprocess.PIPE, text=True)
    if p.returncode != 0:
        raise tlc.MachineryError("selftest recording failed:\n" + p.stderr[-2000:])
    return json.loads(p.stdout.strip().split("\n")[-1])


def corrupt(e):
    """a corrupted copy of event e, or None"""
    c = copy.deepcopy(e)
    op = e["op"]
    if op == "eclose":
        c["cases"][0]["res"] = sorted(set(c["cases"][0]["res"]) ^ {c["fa"]["Q"][-1]})
    elif op == "accepts_all":
        w = ["a"]
        c["accepted"] = [x for x in c["accepted"] if x != w] if w in c["accepted"] else c["accepted"] + [w]
    elif op == "ec_trace":
        if not c["pops"]:
            return None
        del c["pops"][0]                     # one hook event removed
    elif op == "minimise":
        if "res" not in c:
            return None
        c["res"]["F"] = sorted(set(c["res"]["Q"]) - set(c["res"]["F"]))
    elif op == "hop_trace":
        if len(c["pops"]) < 2:
            return None
        del c["pops"][1], c["states"][1]      # one pop removed from the schedule
    elif op == "nfa_to_dfa":
        c["res"]["q0"] = c["res"]["Q"][-1] if c["res"]["q0"] != c["res"]["Q"][-1] else c["res"]["Q"][0]
    elif op == "tm_run":
        if len(c["seq"]) < 2:
            return None
        c["seq"][1][2] += 1                  # head position of the second configuration
    elif op == "chomsky_phase":
        if "res" not in c or len(c["res"]["R"]) < 2:
            return None
        c["res"]["R"][0], c["res"]["R"][1] = c["res"]["R"][1], c["res"]["R"][0]      # the rule list in another order
    elif op == "sched_replay":
        c["actual"] = [c["actual"][0].replace("q2", "q3")]      # the code named its new state differently
    elif op == "pc_trace":
        if len(c["pops"]) < 2:
            return None
        del c["pops"][0]                     # one hook event removed
    elif op == "rip_trace":
        del c["rips"][0]                     # one hook event removed
    elif op == "path_trace":
        del c["steps"][0]                    # the first pop of the (forced) path search removed
    elif op == "roundtrip":
        tr = [i for i, l in enumerate(c.get("plines", [])) if l["k"] == "tr"]
        if not tr:
            return None
        del c["plines"][tr[-1]]              # the printer forgot one edge line
    elif op == "derive":
        c["seq"][1], c["seq"][2] = c["seq"][2], c["seq"][1]        # two sentential forms exchanged
    elif op == "sim_fa":
        # still a VALID run (the epsilon self-loop is a move) but not one nfa_simulate_word can build: a segment is a
        # branch of a search tree and visits no state twice - only the binding clause of NfaSim.tla can reject it
        c["run"] = [c["run"][0]] + c["run"]
    elif op == "parser_replay":
        c["exc"] = "none"                    # the parser accepted what the model rejects
    elif op == "iso":
        c["res"] = not c["res"]
    elif op == "iso_trace":
        c["res"] = "false" if c["res"] == "true" else "true"
    else:
        return None
    return c


def main():
    evs = record()
    good, bad = [], []
    n = 0
    for e in evs:
        n += 1
        e = dict(e, id=n)
        good.append(e)
        c = corrupt(e)
        if c is not None:
            n += 1
            c["id"] = n
            bad.append(c)
    d = common.outdir("selftest")
    path = os.path.join(d, "events.ndjson")
    with open(path, "w") as f:
        for e in good + bad:
            f.write(json.dumps(e, sort_keys=True) + "\n")
    fails, total, _ = tlc.run_judge([path])
    failed = set(fails)
    missed = [e for e in bad if e["id"] not in failed]
    spurious = [e for e in good if e["id"] in failed]
    print("binding self-test: %d genuine events accepted, %d corrupted events rejected (ops: %s)" % (
        len(good) - len(spurious), len(bad) - len(missed), ",".join(sorted({e["op"] for e in bad}))))
    if missed or spurious or not bad:
        for e in missed:
            print("  NOT REJECTED: corrupted", e["op"])
        for e in spurious:
            print("  REJECTED: genuine", e["op"], fails[e["id"]])
        return 1
    return 0


if __name__ == "__main__":
    try:
        sys.exit(main())
    except tlc.MachineryError as ex:
        print("selftest machinery error:", ex)
        sys.exit(1)
