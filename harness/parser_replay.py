"""(G) Replaying the layouts TLC enumerates from spec/LineParser.tla into the real parsers."""
import json

from . import abstraction as ab
from .worker import guarded


def render(lines):
    out = []
    for l in lines:
        if l["k"] == "skip":
            out.append("% comment")
        elif l["k"] == "kw":
            out.append(" ".join(l["t"]))
        elif l["k"] == "tr":
            out.append(" ".join(l["t"][:2] + [x[2] for x in l["t"][2:]]))
        else:
            out.append(" ".join([l["k"]] + l["t"]))
    return "\n".join(out)


def norm(o):
    return {"Q": sorted(o["Q"]), "S": sorted(o["S"]), "T": sorted([list(t) for t in o["T"]]), "q0": o["q0"],
            "F": sorted(o["F"]), "eps": o["eps"]}


def replay_line(line):
    """Yields the ordinary 'parse' event (judged against Text.tla) and a binding event comparing the
    real outcome with the operational model's outcome."""
    import gambatools.dfa_algorithms as da
    import gambatools.nfa_algorithms as na
    from .props import c17
    tr = json.loads(line) if isinstance(line, str) else line
    kind = tr["kind"]
    text = render(tr["lines"])
    src = {"kind": "gen_line", "line": tr}
    yield c17.one_event(kind, text, tr["lines"], src)
    parser = da.parse_dfa if kind == "dfa" else na.parse_nfa
    X, exc = guarded(lambda: parser(text))
    ev = {"op": "parser_replay", "kind": kind, "model_err": tr["err"], "exc": exc, "src": src,
          "expected": norm(tr["result"]) if tr["err"] == "none" else {},
          "actual": {}}
    if exc == "none":
        a = ab.dfa(X) if kind == "dfa" else ab.nfa(X)
        ev["actual"] = norm(a)
    yield ev


def drive_file(path, lo, hi):
    with open(path) as f:
        for i, ln in enumerate(f):
            if lo <= i < hi:
                yield from replay_line(ln)
