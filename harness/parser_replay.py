"""(G) Replaying the layouts TLC enumerates from spec/LineParser.tla into the real parsers."""
import json

from . import abstraction as ab
from .worker import guarded


def label_text(kind, x):
    """the token of an abstract label: <<"ok", glyph, symbols...>> or <<"bad", raw>>"""
    if x[0] == "bad":
        return ab.dec(x[1])
    if kind == "pda":
        return "%s,%s%s" % tuple(ab.dec(y) for y in x[2:5])
    if kind == "tm":
        return "%s%s,%s" % tuple(ab.dec(y) for y in x[2:5])
    return ab.dec(x[2])


def render(lines, kind="dfa"):
    out = []
    for l in lines:
        if l["k"] == "skip":
            out.append("% comment")
        elif l["k"] == "kw":
            out.append(" ".join(ab.dec(x) for x in l["t"]))
        elif l["k"] == "tr":
            out.append(" ".join([ab.dec(x) for x in l["t"][:2]] + [label_text(kind, x) for x in l["t"][2:]]))
        else:
            out.append(" ".join([l["k"]] + [ab.dec(x) for x in l["t"]]))
    return "\n".join(out)


def norm(o):
    r = {"Q": sorted(o["Q"]), "S": sorted(o["S"]), "T": sorted([list(t) for t in o["T"]]), "q0": o["q0"]}
    for k in ("F", "G"):
        if k in o:
            r[k] = sorted(o[k])
    for k in ("eps", "qa", "qr", "blank"):
        if k in o:
            r[k] = o[k]
    return r


def replay_line(line):
    """Yields the ordinary 'parse' event (judged against Text.tla) and a binding event comparing the
    real outcome with the operational model's outcome."""
    import gambatools.dfa_algorithms as da
    import gambatools.nfa_algorithms as na
    import gambatools.pda_algorithms as pa
    import gambatools.tm_algorithms as ta
    from .props import c17
    tr = json.loads(line) if isinstance(line, str) else line
    kind = tr["kind"]
    text = render(tr["lines"], kind)
    src = {"kind": "gen_line", "line": tr}
    yield c17.one_event(kind, text, tr["lines"], src)
    parser = {"dfa": da.parse_dfa, "nfa": na.parse_nfa, "pda": pa.parse_pda, "tm": ta.parse_tm}[kind]
    X, exc = guarded(lambda: parser(text))
    ev = {"op": "parser_replay", "kind": kind, "model_err": tr["err"], "exc": exc, "src": src,
          "expected": norm(tr["result"]) if tr["err"] == "none" else {},
          "actual": {}}
    if exc == "none":
        a = {"dfa": ab.dfa, "nfa": ab.nfa, "pda": ab.pda, "tm": ab.tm}[kind](X)
        ev["actual"] = norm(a)
    yield ev


def drive_file(path, lo, hi):
    with open(path) as f:
        for i, ln in enumerate(f):
            if lo <= i < hi:
                yield from replay_line(ln)
