"""Shared plumbing of the checks: worker processes, evidence, known findings, replay files."""
import json
import os
import subprocess
import sys
import time
from concurrent.futures import ThreadPoolExecutor

from . import tlc

VERIF = tlc.VERIF
OUT = tlc.OUT
REPO = os.environ.get("VERIF_REPO", "/repo")
PY = "/venv/bin/python"
GUARD = "GAMBATOOLS_VERIF"


def outdir(pid, *sub):
    d = os.path.join(OUT, pid, *sub)
    os.makedirs(d, exist_ok=True)
    return d


def worker_env(hashseed, extra=None):
    e = dict(os.environ)
    e["PYTHONHASHSEED"] = str(hashseed)
    e["PYTHONPATH"] = os.path.join(REPO, "src") + os.pathsep + os.path.join(REPO, "notebooks") + os.pathsep + VERIF
    e["PYTHONDONTWRITEBYTECODE"] = "1"
    e[GUARD] = "1"
    if extra:
        e.update(extra)
    return e


def run_workers(pid, tasks, parallel=16, timeout=3000):
    """tasks: list of dicts (must contain 'hashseed'); each is run by harness.worker in its own
    process and writes out/<pid>/events/<k>.ndjson.  Returns list of (task, path, meta)."""
    d = outdir(pid, "events")
    for f in os.listdir(d):
        os.unlink(os.path.join(d, f))

    def one(k_task):
        k, task = k_task
        tpath = os.path.join(d, "task_%04d.json" % k)
        epath = os.path.join(d, "ev_%04d.ndjson" % k)
        task = dict(task, index=k)
        with open(tpath, "w") as f:
            json.dump(task, f)
        p = subprocess.run([PY, "-m", "harness.worker", pid, tpath, epath], cwd=VERIF,
                           env=worker_env(task.get("hashseed", 0), task.get("env")),
                           stdout=subprocess.PIPE, stderr=subprocess.PIPE, text=True, timeout=timeout)
        if p.returncode != 0:
            raise tlc.MachineryError("worker %s task %d failed:\n%s" % (pid, k, p.stderr[-3000:]))
        meta = json.loads(p.stdout.strip().split("\n")[-1])
        return task, epath, meta

    with ThreadPoolExecutor(max_workers=parallel) as ex:
        return list(ex.map(one, enumerate(tasks)))


def load_events(paths, ids=None):
    res = {}
    for p in paths:
        with open(p) as f:
            for ln in f:
                if not ln.strip():
                    continue
                e = json.loads(ln)
                if ids is None or e["id"] in ids:
                    res[e["id"]] = e
    return res


# ---------------------------------------------------------------- known findings
def load_known():
    p = os.path.join(VERIF, "known_findings.json")
    if not os.path.exists(p):
        return []
    with open(p) as f:
        return json.load(f).get("findings", [])


class Result:
    def __init__(self, pid, tier, seed):
        self.pid, self.tier, self.seed = pid, tier, seed
        self.t0 = time.time()
        self.violations = []       # (description, replay dict)
        self.known_hits = {}       # finding id -> count
        self.states = 0
        self.transitions = 0
        self.traces = 0
        self.evaluations = 0
        self.nontrivial = 0
        self.samples = []
        self.models = []
        self.notes = {}
        self.assumptions = []
        self.exhaustive = False
        self.rule = ""

    def add_model(self, r, constants=""):
        self.states += r["distinct"]
        self.transitions += r["generated"]
        self.models.append({"module": r["module"], "cfg": r["cfg"], "distinct_states": r["distinct"],
                            "states_generated": r["generated"], "wall_s": r["wall_s"], "constants": constants,
                            "coverage": r["coverage"], "completed": r.get("finished", True)})

    def violation(self, desc, replay):
        self.violations.append((desc, replay))

    def finish(self, level="model_checking"):
        wall = time.time() - self.t0
        rdir = outdir(self.pid, "replay")
        for f in os.listdir(rdir):
            os.unlink(os.path.join(rdir, f))
        lines = []
        for k, (desc, rep) in enumerate(self.violations[:50]):
            p = os.path.join(rdir, "%03d.json" % k)
            with open(p, "w") as f:
                json.dump({"property": self.pid, "what": desc, "replay": rep}, f, indent=1)
            lines.append("VIOLATION property=%s replay=%s  # %s" % (self.pid, p, desc[:300]))
        cov = {
            "states": max(self.states, 0), "transitions": max(self.transitions, 0),
            "traces_validated_against_impl": self.traces,
            "evaluations": max(self.evaluations, 1), "distinct_nontrivial": self.nontrivial,
            "rule": self.rule, "samples": self.samples[:6] or ["(no sample recorded)"],
            "exhaustive": self.exhaustive, "models": self.models, "known_findings_hit": self.known_hits,
        }
        cov.update(self.notes)
        if cov["states"] < 1 or cov["transitions"] < 1:
            # no model run in this check: fall back to generic keys only
            cov.pop("states"), cov.pop("transitions")
        ev = {"property_id": self.pid, "tier": self.tier, "seed": self.seed, "level": level, "coverage": cov,
              "assumptions": self.assumptions, "wall_s": round(wall, 1), "violations": len(self.violations)}
        evdir = os.environ.get("VERIF_EVIDENCE_DIR") or os.path.join(VERIF, "evidence")
        os.makedirs(evdir, exist_ok=True)
        with open(os.path.join(evdir, self.pid + ".json"), "w") as f:
            json.dump(ev, f, indent=1, sort_keys=True)
        for fid, n in sorted(self.known_hits.items()):
            print("KNOWN-FINDING: property=%s %s (%d events)" % (self.pid, fid, n))
        for ln in lines:
            print(ln)
        for c, n in sorted(self.notes.get("binding_mismatches", {}).items()):
            print("  binding mismatch (model vs code, not a property violation) %s : %d events" % (c, n))
        for cls, n in sorted(self.notes.get("violation_classes", {}).items()):
            print("  violation class %s : %d events" % (cls, n))
        print("%s %s: %d model states, %d events judged, %d violations, %.0fs" % (
            self.pid, self.tier, self.states, self.traces, len(self.violations), wall))
        return 1 if self.violations else 0
