"""Small exhaustive universes and seeded random generators of library objects.
Imports gambatools lazily (only inside worker processes)."""
import itertools
import random
from collections import defaultdict


def subsets(xs):
    xs = list(xs)
    for r in range(len(xs) + 1):
        for c in itertools.combinations(xs, r):
            yield set(c)


def names(k, prefix="s"):
    return ["%s%d" % (prefix, i) for i in range(k)]


# ------------------------------------------------------------------ DFA
def dfa_from_code(k, S, code, prefix="s"):
    """code enumerates DFA(k,S): digits base k for delta (in order of (q,a)), then F bitmask."""
    from gambatools.dfa import DFA
    Q = names(k, prefix)
    S = sorted(S)
    delta = {}
    for q in Q:
        for a in S:
            delta[q, a] = Q[code % k]
            code //= k
    F = {Q[i] for i in range(k) if (code >> i) & 1}
    return DFA(set(Q), set(S), delta, Q[0], F)


def dfa_count(k, S):
    return (k ** (k * len(S))) * (2 ** k)


def all_dfas(k, S, prefix="s"):
    for code in range(dfa_count(k, S)):
        yield code, dfa_from_code(k, S, code, prefix)


def random_dfa(rng, k, S, prefix="s", reachable_bias=False):
    from gambatools.dfa import DFA
    Q = names(k, prefix)
    delta = {(q, a): rng.choice(Q) for q in Q for a in S}
    p = rng.choice([0.0, 0.3, 0.5, 0.5, 0.7, 1.0])
    F = {q for q in Q if rng.random() < p}
    return DFA(set(Q), set(S), delta, Q[0], F)


# ------------------------------------------------------------------ NFA
def nfa_from_code(k, S, code, eps="", prefix="s", plain_dict=False):
    """NFA(k,S): for each (q, x) with x in S+[eps] a subset of Q (bitmask of k bits), then F."""
    from gambatools.nfa import NFA
    Q = names(k, prefix)
    labels = sorted(S) + [eps]
    delta = defaultdict(set)
    for q in Q:
        for x in labels:
            m = code % (1 << k)
            code //= (1 << k)
            tg = {Q[i] for i in range(k) if (m >> i) & 1}
            if tg:
                delta[q, x] = tg
    F = {Q[i] for i in range(k) if (code >> i) & 1}
    if plain_dict or code % 3 == 0:
        delta = dict(delta)            # a PARTIAL plain dict: undefined entries mean the empty set
    return NFA(set(Q), set(S), delta, Q[0], F, eps)


def nfa_count(k, S):
    return (2 ** k) ** (k * (len(S) + 1)) * (2 ** k)


def random_nfa(rng, k, S, eps="", prefix="s", density=None, total=False):
    from gambatools.nfa import NFA
    Q = names(k, prefix)
    labels = sorted(S) + [eps]
    delta = defaultdict(set) if not total else {}
    d = density if density is not None else rng.choice([0.15, 0.25, 0.4])
    for q in Q:
        for x in labels:
            tg = {r for r in Q if rng.random() < (d * 1.3 if x == eps else d)}
            if tg or total:
                delta[q, x] = tg
    p = rng.choice([0.0, 0.3, 0.5, 0.7, 1.0])
    F = {q for q in Q if rng.random() < p}
    if not total and rng.random() < 0.3:
        delta = dict(delta)            # partial plain dict
    return NFA(set(Q), set(S), delta, Q[0], F, eps)


def late_split_dfa(rng, m=None, probes=None):
    """dozens of states that split LATE: m anchor states f_i told apart early (distinct accepting-successor
    patterns), a sink, and second-level states that differ only in which anchors they reach - they stay in one
    class until the partition already has more than m classes (scale beyond the exhaustive universes)"""
    from gambatools.dfa import DFA
    m = m or rng.choice([12, 13, 14, 15])
    probes = probes or rng.choice([40, 50, 60])
    S = "abcd"
    f = ["f%d" % i for i in range(m)]
    Q = set(f) | {"sink"}
    delta = {("sink", s): "sink" for s in S}
    for i in range(m):
        for k, s in enumerate(S):
            delta[f[i], s] = f[0] if ((i + 1) >> k) & 1 else "sink"
    pairs = rng.sample([(i, j) for i in range(m) for j in range(m)], min(probes, m * m))
    for (i, j) in pairs:
        x = "x%d_%d" % (i, j)
        Q.add(x)
        delta[x, "a"], delta[x, "b"] = f[i], f[j]
        delta[x, "c"] = delta[x, "d"] = "sink" if rng.random() < 0.8 else x
    # a 4-ary tree of router states makes every second-level state reachable
    level = ["x%d_%d" % pr for pr in pairs]
    n = 0
    while len(level) > 1:
        nxt = []
        for k in range(0, len(level), 4):
            r = "r%d" % n
            n += 1
            Q.add(r)
            kids = level[k:k + 4]
            for i, s_ in enumerate(S):
                delta[r, s_] = kids[min(i, len(kids) - 1)]
            nxt.append(r)
        level = nxt
    return DFA(Q, set(S), delta, level[0], set(f))


def chain_nfa(rng, k, S, eps="", prefix="s"):
    """k states threaded by ONE long epsilon path (k-1 moves, random order) plus a few symbol moves:
    closures that need many rounds / deep recursion (sizes 5-16: beyond the exhaustive universes)"""
    from gambatools.nfa import NFA
    Q = names(k, prefix)
    order = Q[:]
    rng.shuffle(order)
    delta = defaultdict(set)
    for p, q in zip(order, order[1:]):
        delta[p, eps].add(q)
    for _ in range(rng.randint(0, 3)):
        delta[rng.choice(Q), rng.choice(sorted(S))].add(rng.choice(Q))
    F = {order[-1]} if rng.random() < 0.7 else {rng.choice(Q)}
    if rng.random() < 0.3:
        delta = dict(delta)
    return NFA(set(Q), set(S), delta, order[0] if rng.random() < 0.7 else rng.choice(Q), F, eps)


def rename_fa(A, mapping):
    """renamed copy of a DFA/NFA (a second source of hash-order variety)"""
    from gambatools.dfa import DFA
    from gambatools.nfa import NFA
    m = lambda q: mapping[q]
    if isinstance(A, DFA):
        return DFA({m(q) for q in A.Q}, set(A.Sigma), {(m(q), a): m(r) for (q, a), r in A.delta.items()}, m(A.q0),
                   {m(q) for q in A.F})
    plain = not isinstance(A.delta, defaultdict)
    delta = {} if plain else defaultdict(set)
    for (q, a), R in A.delta.items():
        if R or plain:
            delta[m(q), a] = {m(r) for r in R}
    return NFA({m(q) for q in A.Q}, set(A.Sigma), delta, m(A.q0), {m(q) for q in A.F}, A.epsilon)


NAME_POOLS = [
    ["s0", "s1", "s2", "s3", "s4", "s5", "s6", "s7"],
    ["q0", "q1", "q2", "q3", "q4", "q5", "q6", "q7"],
    ["a", "b", "c", "d", "e", "f", "g", "h"],
    ["x9", "p", "A1", "zz", "k", "m0", "B", "w_"],
    ["7", "11", "3", "5", "0", "2", "13", "1"],
    ["q1", "q10", "q", "s", "s2", "1", "11", "q11"],      # names that are substrings of each other
    ["a", "b", "a,b", "c", "b,c", "a,b,c", "d", "c,d"],   # names whose printed state sets collide
    ["{a}", "{b}", "{a,b}", "{c}", "{a,b,c}", "{}", "{b,c}", "{a,c}"],   # names that are printed state sets themselves
    ["p", "q", "{p,q}", "{p}", "r", "{p,q,r}", "{{p}}", "{q}"],          # plain names next to the sets they would print as
]


# ------------------------------------------------------------------ words
def words_upto(S, n):
    S = sorted(S)
    for k in range(n + 1):
        for t in itertools.product(S, repeat=k):
            yield "".join(t)


# ------------------------------------------------------------------ regexps
def all_regexps(ops, leaves):
    """all trees with exactly `ops` operators over the given leaves (strings '0','1',symbols)"""
    from gambatools import regexp as R

    def leaf(x):
        return R.Zero() if x == "0" else R.One() if x == "1" else R.Symbol(x)

    def gen(n):
        if n == 0:
            for x in leaves:
                yield leaf(x)
            return
        for r in gen(n - 1):
            yield R.Iteration(r)
        for k in range(n):
            for l in gen(k):
                for r in gen(n - 1 - k):
                    yield R.Sum(l, r)
                    yield R.Concat(l, r)

    return gen(ops)


def _abs_trees(n, leaves):
    if n == 0:
        yield from leaves
        return
    for r in _abs_trees(n - 1, leaves):
        yield ("star", r)
    for k in range(n):
        for l in _abs_trees(k, leaves):
            for r in _abs_trees(n - 1 - k, leaves):
                yield ("sum", l, r)
                yield ("cat", l, r)


def _holes(t):
    return (1 if t == "#" else 0) if isinstance(t, str) else sum(_holes(x) for x in t[1:])


def _nullable(t):
    if isinstance(t, str):
        return t == "1"
    if t[0] == "star":
        return True
    if t[0] == "sum":
        return _nullable(t[1]) or _nullable(t[2])
    return _nullable(t[1]) and _nullable(t[2])


def _subst(t, c):
    if isinstance(t, str):
        return c if t == "#" else t
    return (t[0],) + tuple(_subst(x, c) for x in t[1:])


def _build_re(t):
    from gambatools import regexp as R
    if isinstance(t, str):
        return R.Zero() if t == "0" else R.One() if t == "1" else R.Symbol(t)
    if t[0] == "star":
        return R.Iteration(_build_re(t[1]))
    return (R.Sum if t[0] == "sum" else R.Concat)(_build_re(t[1]), _build_re(t[2]))


def context_regexps(which):
    """CONTEXT[CORE] trees of depth up to 4: every core with 1-2 operators over {1,a,b} placed in every context with
    1-2 operators over {#,1,a,b} (one hole): 78 204 trees with 2-4 operators, a structured slice of the 80 535 + ...
    trees of that size.  which = 'star_nullable': only the cores that are a star over a nullable expression (a**,
    (1+a)*, ...: automata whose initial state is accepting and re-entered); 'rest': the others."""
    cores = [t for n in (1, 2) for t in _abs_trees(n, ["1", "a", "b"])]
    ctxs = [t for n in (1, 2) for t in _abs_trees(n, ["#", "1", "a", "b"]) if _holes(t) == 1]
    for c in cores:
        sn = c[0] == "star" and _nullable(c[1])
        if (which == "star_nullable") != sn:
            continue
        for k in ctxs:
            yield _build_re(_subst(k, c))


def random_regexp(rng, ops, syms, p_zero=0.12, p_one=0.15):
    from gambatools import regexp as R
    if ops == 0:
        x = rng.random()
        if x < p_zero:
            return R.Zero()
        if x < p_zero + p_one:
            return R.One()
        return R.Symbol(rng.choice(syms))
    c = rng.random()
    if c < 0.35 or ops == 1:
        return R.Iteration(random_regexp(rng, ops - 1, syms, p_zero, p_one))
    k = rng.randint(0, ops - 1)
    l = random_regexp(rng, k, syms, p_zero, p_one)
    r = random_regexp(rng, ops - 1 - k, syms, p_zero, p_one)
    return R.Sum(l, r) if c < 0.65 else R.Concat(l, r)


def related_regexps(rng, syms):
    """trees built from a small random r and a near-copy r2 of it (operands swapped, a leaf changed):
    the shapes on which absorption / idempotence style rewrite rules fire"""
    from gambatools import regexp as R
    import copy

    def clone(x):
        # rebuilt through the constructors (copy.deepcopy would depend on how the classes implement copying)
        if isinstance(x, R.Iteration):
            return R.Iteration(clone(x.operand))
        if isinstance(x, R.Sum):
            return R.Sum(clone(x.left), clone(x.right))
        if isinstance(x, R.Concat):
            return R.Concat(clone(x.left), clone(x.right))
        if isinstance(x, R.Symbol):
            return R.Symbol(x.symbol)
        return type(x)()

    def mutate(x):
        x = clone(x)
        nodes = []

        def walk(n):
            nodes.append(n)
            if isinstance(n, R.Iteration):
                walk(n.operand)
            elif isinstance(n, (R.Sum, R.Concat)):
                walk(n.left)
                walk(n.right)
        walk(x)
        n = rng.choice(nodes)
        if isinstance(n, (R.Sum, R.Concat)):
            n.left, n.right = n.right, n.left
        elif isinstance(n, R.Symbol):
            n.symbol = rng.choice(syms)
        return x

    r = random_regexp(rng, rng.choice([0, 1, 1, 2, 2, 3]), syms, 0.05, 0.08)
    r2 = mutate(r) if rng.random() < 0.7 else clone(r)
    St, Su, Ca = R.Iteration, R.Sum, R.Concat
    return [Su(St(r), r2), Su(r2, St(r)), Ca(St(r), St(r2)), Su(r, r2), Ca(r, r2), St(Su(r, r2)), Su(St(r), St(r2)),
            Ca(St(r), r2), Ca(r2, St(r)), St(Ca(r, r2)), Su(Ca(r, r2), Ca(r2, r)), Su(Su(r, r2), r)]


def related_regexps_described(rng, syms, describe):
    """as related_regexps, but every tree comes with the description of what was ASKED of the constructors
    (describe = abstraction of the two base trees, taken before anything is built from them): the trees share
    their operand OBJECTS, so a constructor that hands back another node for the same operands shows"""
    from gambatools import regexp as R
    base = related_regexps(rng, syms)          # only for its random choices: rebuilt below with descriptions
    r, r2 = base[3].left, base[3].right
    a, a2 = describe(r), describe(r2)
    St = lambda x: (R.Iteration(x[0]), ["star", x[1]])                      # noqa
    Su = lambda x, y: (R.Sum(x[0], y[0]), ["sum", x[1], y[1]])             # noqa
    Ca = lambda x, y: (R.Concat(x[0], y[0]), ["cat", x[1], y[1]])          # noqa
    x, y = (r, a), (r2, a2)
    return [Su(St(x), y), Su(y, St(x)), Ca(St(x), St(y)), Su(x, y), Ca(x, y), St(Su(x, y)), Su(St(x), St(y)),
            Ca(St(x), y), Ca(y, St(x)), St(Ca(x, y)), Su(Ca(x, y), Ca(y, x)), Su(Su(x, y), x), Ca(Su(x, y), x), Su(Ca(x, y), y)]


def prefix_regexps_described(rng, syms, describe):
    """PREFIX-related operands: x = l1 op l2 (op l3), y = the same chain continued by one or two more leaves, each
    associated to the left or to the right; composed like the related trees (x* . y*, x* + y*, x . y, ...).  An
    equality test that compares flattened operand lists only as far as the shorter one goes takes x for y"""
    from gambatools import regexp as R
    op = rng.choice(["sum", "cat"])
    mk = R.Sum if op == "sum" else R.Concat
    k = rng.randint(2, 3)
    leaves = [rng.choice(list(syms) + ["1"]) for _ in range(k + rng.randint(1, 2))]

    def leaf(c):
        return (R.One(), ["one"]) if c == "1" else (R.Symbol(c), ["sym", c])

    def chain(ls, left):
        items = [leaf(c) for c in ls]
        if left:
            acc = items[0]
            for it in items[1:]:
                acc = (mk(acc[0], it[0]), [op, acc[1], it[1]])
        else:
            acc = items[-1]
            for it in reversed(items[:-1]):
                acc = (mk(it[0], acc[0]), [op, it[1], acc[1]])
        return acc
    x = chain(leaves[:k], rng.random() < 0.5)
    y = chain(leaves, rng.random() < 0.5)
    if rng.random() < 0.5:
        x, y = y, x
    St = lambda x: (R.Iteration(x[0]), ["star", x[1]])                      # noqa
    Su = lambda x, y: (R.Sum(x[0], y[0]), ["sum", x[1], y[1]])             # noqa
    Ca = lambda x, y: (R.Concat(x[0], y[0]), ["cat", x[1], y[1]])          # noqa
    return [Ca(St(x), St(y)), Su(St(x), St(y)), Su(x, y), Ca(x, y), St(Su(x, y)), Su(St(x), y), Ca(St(x), y),
            Ca(y, St(x)), St(Ca(St(x), St(y)))]


# ------------------------------------------------------------------ CFG
# multi-character variable names (legal: a Variable is any string): prefixes of each other, concatenations of
# each other, digits / underscores / primes as the library's own fresh names have them
VAR_NAME_POOLS = [
    {"S": "S", "A": "A", "B": "AB", "C": "BA", "D": "B"},          # [A,BA] and [AB,A] both spell ABA
    {"S": "S0", "A": "S", "B": "S00", "C": "0S", "D": "S_0"},       # [S,0S] and [S0,S] both spell S0S
    {"S": "X1", "A": "X11", "B": "X", "C": "1X", "D": "X1X"},       # [X1,1X] and [X11,X] both spell X11X
    {"S": "A'", "A": "A", "B": "'A", "C": "A''", "D": "AA"},        # [A','A] and [A'',A] both spell A''A
]


def make_cfg(rules, start=None, V=None, Sigma=None, eps="ε", vnames=None):
    """rules: list of (lhs, rhs-string); upper case = variable, lower = terminal; vnames renames the variables"""
    from gambatools.cfg import CFG, Rule, Alternative, Variable, Terminal
    nm = (lambda c: vnames.get(c, c)) if vnames else (lambda c: c)
    R = []
    for lhs, rhs in rules:
        R.append(Rule(Variable(nm(lhs)), Alternative([Variable(nm(c)) if c.isupper() else Terminal(c) for c in rhs])))
    Vs = set(Variable(nm(l)) for l, _ in rules) | {Variable(nm(c)) for _, rhs in rules for c in rhs if c.isupper()}
    if V:
        Vs |= {Variable(nm(v)) for v in V}
    Ts = {Terminal(c) for _, rhs in rules for c in rhs if not c.isupper()}
    if Sigma:
        Ts |= {Terminal(c) for c in Sigma}
    S = Variable(nm(start if start else rules[0][0]))
    Vs.add(S)
    return CFG(Vs, Ts, R, S, Terminal(eps))


def rhs_pool(vars_, terms, maxlen):
    syms = list(vars_) + list(terms)
    pool = [""]
    for n in range(1, maxlen + 1):
        pool += ["".join(t) for t in itertools.product(syms, repeat=n)]
    return pool


def random_cfg(rng, vars_="SAB", terms="ab", nrules=None, maxlen=3, cnf=False):
    nrules = nrules or rng.randint(2, 6)
    vs = list(vars_)
    rules = []
    if cnf:
        for _ in range(nrules):
            lhs = rng.choice(vs)
            if rng.random() < 0.45:
                rules.append((lhs, rng.choice(terms)))
            else:
                body = [v for v in vs if v != vs[0]] or vs
                rules.append((lhs, rng.choice(body) + rng.choice(body)))
        if rng.random() < 0.3:
            rules.append((vs[0], ""))
    else:
        for _ in range(nrules):
            lhs = rng.choice(vs)
            n = rng.choice([0, 1, 1, 2, 2, 2, 3][: maxlen + 4])
            n = min(n, maxlen)
            rhs = "".join(rng.choice(vs + list(terms) + list(terms)) for _ in range(n))
            rules.append((lhs, rhs))
    if not any(l == vs[0] for l, _ in rules):
        rules.insert(0, (vs[0], rng.choice(terms)))
    # start variable's rule first (simple format: start = lhs of first rule)
    i = next(i for i, (l, _) in enumerate(rules) if l == vs[0])
    rules.insert(0, rules.pop(i))
    # no duplicate rules
    seen, out = set(), []
    for r in rules:
        if r not in seen:
            seen.add(r)
            out.append(r)
    return out


# ------------------------------------------------------------------ PDA
def make_pda(Q, S, G, trans, q0, F, eps="ε"):
    from gambatools.pda import PDA
    delta = defaultdict(set)
    for (p, a, u, q, v) in trans:
        delta[p, a, u].add((q, v))
    if len(trans) % 3 == 1:
        delta = dict(delta)            # every third PDA carries its relation in a plain (partial) dict
    return PDA(set(Q), set(S), set(G), delta, q0, set(F), eps)


def pda_transitions(Q, S, G, eps):
    return [(p, a, u, q, v) for p in Q for a in list(S) + [eps] for u in list(G) + [eps] for q in Q
            for v in list(G) + [eps]]


def random_pda(rng, k=2, S="a", G="X", ntrans=None, eps="ε", prefix="s"):
    Q = names(k, prefix)
    pool = pda_transitions(Q, S, G, eps)
    n = ntrans if ntrans is not None else rng.randint(1, min(6, len(pool)))
    trans = rng.sample(pool, n)
    p = rng.choice([0.3, 0.5, 0.7])
    F = [q for q in Q if rng.random() < p]
    return make_pda(Q, S, G, trans, Q[0], F, eps), trans


# ------------------------------------------------------------------ TM
def make_tm(Q, S, G, delta, q0, qa, qr, blank="_"):
    from gambatools.tm import TM
    return TM(set(Q), set(S), set(G), dict(delta), q0, qa, qr, blank)


def random_tm(rng, k=2, S="a", extra="", blank="_", p_missing=0.25):
    W = names(k, "w")
    Q = W + ["qA", "qR"]
    G = list(S) + list(extra) + [blank]
    delta = {}
    for p in W:
        for a in G:
            if rng.random() < p_missing:
                continue
            delta[p, a] = (rng.choice(Q), rng.choice(G), rng.choice("LR"))
    return make_tm(Q, S, G, delta, W[0], "qA", "qR", blank)


def rename_pda(P, m):
    from gambatools.pda import PDA
    delta = defaultdict(set)
    for (p, a, u), tg in P.delta.items():
        for (q, v) in tg:
            delta[m[p], a, u].add((m[q], v))
    return PDA({m[q] for q in P.Q}, set(P.Sigma), set(P.Gamma), delta, m[P.q0], {m[q] for q in P.F}, P.epsilon)


def rename_tm(T, m):
    from gambatools.tm import TM
    delta = {(m[p], a): (m[q], b, d) for (p, a), (q, b, d) in T.delta.items()}
    return TM({m[q] for q in T.Q}, set(T.Sigma), set(T.Gamma), delta, m[T.q0], m[T.q_accept], m[T.q_reject], T.blank)


# names that are keywords of the OTHER automaton kinds' text formats (legal state names for this kind)
KEYWORD_NAMES = {
    "dfa": ["epsilon", "accept", "reject", "blank", "tape_symbols", "stack_symbols"],
    "nfa": ["accept", "reject", "blank", "tape_symbols", "stack_symbols", "q"],
    "pda": ["accept", "reject", "blank", "tape_symbols", "q", "r"],
    "tm": ["epsilon", "stack_symbols", "q", "r", "s", "t"],
}


def keyword_named(kind, X, rng):
    Q = sorted(X.Q)
    names = list(KEYWORD_NAMES[kind])
    rng.shuffle(names)
    if len(Q) > len(names):
        return None
    m = {q: names[i] for i, q in enumerate(Q)}
    if kind in ("dfa", "nfa"):
        return rename_fa(X, m)
    return rename_pda(X, m) if kind == "pda" else rename_tm(X, m)


def reorder_delta(A, src):
    """The insertion order of a transition table (a dict) is no part of the automaton: for two of three sources the
    table of the object is refilled, in place, in an order shuffled by the source's own seed / code."""
    import random as _r
    key = src.get("seed", src.get("code", 0))
    if not isinstance(key, int):
        key = len(str(key))
    if key % 3 == 0:
        return A
    d = A.delta
    items = list(d.items())
    if key % 3 == 1:
        _r.Random(key).shuffle(items)
    else:
        items.reverse()
    d.clear()
    for k, v in items:
        d[k] = v
    return A
