"""./check <id> quick|thorough | --replay <path>"""
import importlib
import json
import os
import sys
import traceback

from . import common, tlc


def main(argv):
    if len(argv) < 2:
        print("usage: check <Cnn> quick|thorough|--replay <path>")
        return 2
    pid = argv[0].upper()
    seed = int(os.environ.get("VERIF_SEED", "0") or 0)
    try:
        mod = importlib.import_module("harness.props." + pid.lower())
        if argv[1] == "--replay":
            return mod.replay(argv[2], seed)
        tier = os.environ.get("VERIF_TIER") if argv[1] not in ("quick", "thorough") else argv[1]
        if tier not in ("quick", "thorough"):
            tier = "quick"
        return mod.check(tier, seed)
    except tlc.MachineryError as e:
        print("MACHINERY-ERROR %s: %s" % (pid, e))
        return 2
    except Exception:
        traceback.print_exc()
        print("MACHINERY-ERROR %s: unexpected exception" % pid)
        return 2


if __name__ == "__main__":
    sys.exit(main(sys.argv[1:]))
