"""(G) Every (input, operation, result) of spec/DfaOps.tla, replayed into the real DFA constructions:
the real result has to be the model's result, state names included (binding clause), and is judged
against the property like every other dfa_op event."""
import json

from . import abstraction as ab
from .worker import guarded

EPS = "ε"          # the model writes "eps" for the library's default epsilon symbol


def build(j, partial=False):
    from gambatools.dfa import DFA
    delta = {(t[0], t[1]): t[2] for t in j["T"]}
    return DFA(set(j["Q"]), set(j["S"]), delta, j["q0"], set(j["F"]), check_validity=not partial)


def model_fa(j):
    """the model's result in the harness' abstract form"""
    eps = EPS if j["eps"] == "eps" else j["eps"]
    T = sorted([ab.enc(t[0]), ab.enc(EPS if t[1] == "eps" and j["eps"] == "eps" else t[1]), ab.enc(t[2])] for t in j["T"])
    return {"Q": sorted(ab.enc(q) for q in j["Q"]), "S": sorted(ab.enc(a) for a in j["S"]), "T": T, "q0": ab.enc(j["q0"]),
            "F": sorted(ab.enc(q) for q in j["F"]), "eps": ab.enc(eps)}


def replay_line(line):
    import gambatools.dfa_algorithms as da
    tr = json.loads(line) if isinstance(line, str) else line
    src = {"kind": "dfaops_line", "line": tr}
    op = tr["op"]
    total = len(tr["d1"]["T"]) == len(tr["d1"]["Q"]) * len(tr["d1"]["S"])
    D1 = build(tr["d1"], partial=not total)
    fns = {"complement": da.dfa_complement, "reverse": da.dfa_reverse, "no_prefix": da.dfa_no_prefix,
           "no_extend": da.dfa_no_extend, "remove_unreachable": da.dfa_remove_unreachable_states,
           "make_total": da.dfa_make_total, "union": da.dfa_union, "intersection": da.dfa_intersection,
           "symmetric_difference": da.dfa_symmetric_difference}
    binary = op in ("union", "intersection", "symmetric_difference")
    pre = ab.dfa(D1)
    if binary:
        D2 = build(tr["d2"])
        R, exc = guarded(lambda: fns[op](D1, D2))
        ev = {"op": "dfa_op", "name": op, "a": pre, "b": ab.dfa(D2), "exc": exc, "reskind": "dfa", "src": src}
    else:
        R, exc = guarded(lambda: fns[op](D1))
        ev = {"op": "dfa_op", "name": op, "a": pre, "exc": exc, "reskind": "nfa" if op in ("reverse", "no_prefix") else "dfa",
              "src": src}
    if exc == "none":
        ev["res"] = ab.fa(R)
    yield ev
    nfa_res = op in ("reverse", "no_prefix")

    def core(x):
        d = {k: sorted(x[k]) if isinstance(x[k], list) else x[k] for k in ("Q", "S", "T", "q0", "F")}
        if nfa_res:
            d["eps"] = x["eps"]
        return json.dumps(d, sort_keys=True)
    yield {"op": "sched_replay", "algo": "dfaops/" + op, "followed": True, "expected": [core(model_fa(tr["res"]))],
           "actual": [core(ab.fa(R))] if exc == "none" else [exc], "src": src}


def drive_file(path, lo, hi, stride=1):
    with open(path) as f:
        for i, ln in enumerate(f):
            if lo <= i < hi and (i - lo) % stride == 0:
                yield from replay_line(ln)


def gen_tasks(pid, cfgs, tier, info, parts=4, quick_stride=1):
    import os
    from . import tlc, common
    ts = []
    for cfg in cfgs:
        path = os.path.join(common.outdir(pid, "gen"), cfg.replace(".cfg", ".ndjson"))
        n, dist, g = tlc.generate_behaviours("DfaOps", cfg, path)
        info[cfg] = n
        step = (n + parts - 1) // parts
        ts += [{"kind": "dfaops_replay", "path": path, "lo": i * step, "hi": min(n, (i + 1) * step),
                "stride": quick_stride if tier == "quick" else 1, "hashseed": i % 3} for i in range(parts) if i * step < n]
    return ts
