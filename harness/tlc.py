"""Running TLC: model runs (M) and Judge/Trace runs (J/T) in parallel JVMs."""
import json
import os
import re
import shutil
import subprocess
import tempfile
import time
import uuid
from concurrent.futures import ThreadPoolExecutor

VERIF = os.path.dirname(os.path.dirname(os.path.abspath(__file__)))
SPEC = os.path.join(VERIF, "spec")
OUT = os.environ.get("VERIF_OUT") or os.path.join(VERIF, "out")
JAR = "/opt/veriftools/tla/tla2tools.jar:/opt/veriftools/tla/CommunityModules-deps.jar"


class MachineryError(Exception):
    """Anything that is not a verdict: TLC crash, parse error, missing DONE line."""


def _java(args, env=None, timeout=None, heap="3g", gc_threads=2, cwd=SPEC, extra_jvm=()):
    cmd = ["java", "-XX:+UseParallelGC", "-XX:ParallelGCThreads=%d" % gc_threads, "-Xmx" + heap,
           "-Xss16m", *extra_jvm, "-cp", JAR, "tlc2.TLC"] + args
    e = dict(os.environ)
    e.pop("JAVA_TOOL_OPTIONS", None)
    if env:
        e.update(env)
    t0 = time.time()
    try:
        p = subprocess.run(cmd, cwd=cwd, env=e, stdout=subprocess.PIPE, stderr=subprocess.STDOUT,
                           timeout=timeout, text=True, errors="replace")
    except subprocess.TimeoutExpired as ex:
        out = ex.stdout if isinstance(ex.stdout, str) else (ex.stdout or b"").decode("utf8", "replace")
        raise MachineryError("TLC timed out after %ss: %s\n%s" % (timeout, " ".join(args), out[-2000:]))
    return p.returncode, p.stdout, time.time() - t0


def _metadir():
    d = os.path.join(OUT, "tlc", uuid.uuid4().hex)
    os.makedirs(d, exist_ok=True)
    return d


_STATS = re.compile(r"(\d+) states generated, (\d+) distinct states found")


def parse_stats(out):
    m = None
    for m in _STATS.finditer(out):
        pass
    if not m:
        return 0, 0
    return int(m.group(1)), int(m.group(2))


def parse_coverage(out):
    """per-action counts from '-coverage' output: <Action line ...>: distinct:total"""
    cov = {}
    for m in re.finditer(r"^<(\w+) line \d+, col \d+ to line \d+, col \d+ of module (\w+)>: (\d+):(\d+)", out, re.M):
        cov[m.group(2) + "!" + m.group(1)] = [int(m.group(3)), int(m.group(4))]
    return cov


def run_model(module, cfg, workers=16, timeout=1800, heap="12g", simulate=None, depth=None, env=None,
              coverage=True, extra=()):
    """Exhaustive (or -simulate) run of an algorithm model.  Returns dict with
    ok (no invariant/property violated), states, distinct, coverage, out."""
    md = _metadir()
    args = ["-workers", str(workers), "-metadir", md, "-noGenerateSpecTE", "-config",
            os.path.join(SPEC, "mc", cfg)]
    if coverage:
        args += ["-coverage", "1"]
    if simulate:
        args += ["-simulate", simulate]
    if depth:
        args += ["-depth", str(depth)]
    args += list(extra)
    args += [os.path.join(SPEC, module + ".tla")]
    try:
        rc, out, wall = _java(args, env=env, timeout=timeout, heap=heap, gc_threads=8)
    finally:
        shutil.rmtree(md, ignore_errors=True)
    gen, dist = parse_stats(out)
    violated = None
    m = re.search(r"Error: Invariant (\w+) is violated", out)
    if m:
        violated = m.group(1)
    m2 = re.search(r"Error: Action property (\w+) is violated|Error: Temporal properties were violated", out)
    if m2 and not violated:
        violated = m2.group(1) or "temporal"
    finished = "Model checking completed" in out or "Finished in" in out
    if rc != 0 and violated is None:
        raise MachineryError("TLC failed on %s/%s (rc=%s):\n%s" % (module, cfg, rc, out[-3000:]))
    return {"module": module, "cfg": cfg, "ok": violated is None, "violated": violated, "generated": gen,
            "distinct": dist, "coverage": parse_coverage(out), "wall_s": round(wall, 1), "out": out,
            "finished": finished}


_FAIL = re.compile(r'^<<"FAIL", (.*)>>$')


def _parse_tla_value(s):
    """Parse the tiny subset of TLA+ values our Judge prints: ints, strings, sets, tuples."""
    pos = 0

    def ws():
        nonlocal pos
        while pos < len(s) and s[pos] in " \n\t":
            pos += 1

    def val():
        nonlocal pos
        ws()
        if s.startswith("<<", pos):
            pos += 2
            items = seq(">>")
            return items
        if s[pos] == "{":
            pos += 1
            return seq("}")
        if s[pos] == '"':
            j = pos + 1
            buf = []
            while s[j] != '"':
                if s[j] == "\\":
                    j += 1
                buf.append(s[j])
                j += 1
            pos = j + 1
            return "".join(buf)
        m = re.match(r"-?\d+|TRUE|FALSE|\w+", s[pos:])
        tok = m.group(0)
        pos += len(tok)
        if tok == "TRUE":
            return True
        if tok == "FALSE":
            return False
        try:
            return int(tok)
        except ValueError:
            return tok

    def seq(close):
        nonlocal pos
        items = []
        ws()
        if s.startswith(close, pos):
            pos += len(close)
            return items
        while True:
            items.append(val())
            ws()
            if s.startswith(close, pos):
                pos += len(close)
                return items
            if s[pos] == ",":
                pos += 1
            else:
                raise ValueError("bad TLA value at %d: %s" % (pos, s))

    return val()


def printed_tuples(out):
    """All tuples TLC printed with PrintT.  Long values are pretty-printed over several lines
    ('<< "FAIL",' newline ...): collect text from a line starting with '<<' until the brackets
    balance (strings skipped), then parse."""
    res = []
    lines = out.split("\n")
    i = 0
    while i < len(lines):
        ln = lines[i]
        if not ln.startswith("<<"):
            i += 1
            continue
        buf = []
        depth = 0
        instr = False
        closed = False
        j = i
        while j < len(lines) and not closed:
            t = lines[j]
            k = 0
            while k < len(t):
                ch = t[k]
                if instr:
                    if ch == "\\":
                        k += 1
                    elif ch == '"':
                        instr = False
                elif ch == '"':
                    instr = True
                elif t.startswith("<<", k):
                    depth += 1
                    k += 1
                elif t.startswith(">>", k):
                    depth -= 1
                    k += 1
                elif ch in "{[(":
                    depth += 1
                elif ch in "}])":
                    depth -= 1
                k += 1
            buf.append(t)
            j += 1
            if depth <= 0 and not instr:
                closed = True
        text = " ".join(x.strip() for x in buf)
        try:
            res.append(_parse_tla_value(text))
        except Exception:
            pass
        i = j
    return res


def _judge_one(path, module, cfgname, timeout):
    md = _metadir()
    args = ["-workers", "1", "-metadir", md, "-noGenerateSpecTE", "-config", os.path.join(SPEC, "mc", cfgname),
            os.path.join(SPEC, module + ".tla")]
    try:
        rc, out, wall = _java(args, env={"EVENTS": path}, timeout=timeout, heap="3g", gc_threads=1)
    finally:
        shutil.rmtree(md, ignore_errors=True)
    fails = {}
    done = None
    for v in printed_tuples(out):
        if v and v[0] == "FAIL":
            fails[v[1]] = sorted(v[2])
        elif v and v[0] == "DONE":
            done = v[1]
    if done is None:
        raise MachineryError("Judge run did not complete on %s (rc=%s):\n%s" % (path, rc, out[-4000:]))
    return fails, done, wall


def run_judge(event_files, module="Judge", cfgname="Judge.cfg", parallel=16, timeout=3600):
    """Judge every NDJSON file.  Returns (fails: {event id -> [clauses]}, n_events, wall)."""
    t0 = time.time()
    fails = {}
    total = 0
    files = [f for f in event_files if os.path.getsize(f) > 0]
    with ThreadPoolExecutor(max_workers=parallel) as ex:
        for f, d, _ in ex.map(lambda p: _judge_one(p, module, cfgname, timeout), files):
            fails.update(f)
            total += d
    return fails, total, time.time() - t0


def generate_behaviours(module, cfg, outpath, timeout=1800, heap="8g"):
    """(G) run TLC with a CONSTRAINT that prints <<"TRACE", json>> for every reachable state
    (one worker: lines are not interleaved); write the JSON lines to outpath.
    Returns (n_lines, distinct_states, generated)."""
    md = _metadir()
    args = ["-workers", "1", "-metadir", md, "-noGenerateSpecTE", "-config", os.path.join(SPEC, "mc", cfg),
            os.path.join(SPEC, module + ".tla")]
    try:
        rc, out, wall = _java(args, timeout=timeout, heap=heap, gc_threads=4)
    finally:
        shutil.rmtree(md, ignore_errors=True)
    if rc != 0 or "Finished in" not in out:
        raise MachineryError("behaviour generation %s/%s failed:\n%s" % (module, cfg, out[-3000:]))
    n = 0
    seen = set()
    with open(outpath, "w") as f:
        for ln in out.split("\n"):
            pass
        for v in printed_tuples(out):
            if v and v[0] == "TRACE":
                js = v[1]
                if js in seen:
                    continue
                seen.add(js)
                f.write(js + "\n")
                n += 1
    gen, dist = parse_stats(out)
    return n, dist, gen


def run_tlaps(module, timeout=600):
    """Check spec/proofs/<module>.tla with the TLA+ proof system (tlapm).  Returns number of
    obligations proved; raises MachineryError if some obligation fails."""
    d = os.path.join(OUT, "tlaps", uuid.uuid4().hex)
    os.makedirs(d, exist_ok=True)
    shutil.copy(os.path.join(SPEC, "proofs", module + ".tla"), d)
    try:
        p = subprocess.run(["tlapm", "--toolbox", "0", "0", module + ".tla"], cwd=d, stdout=subprocess.PIPE,
                           stderr=subprocess.STDOUT, text=True, timeout=timeout)
    except subprocess.TimeoutExpired:
        raise MachineryError("tlapm timed out on " + module)
    finally:
        pass
    out = p.stdout
    shutil.rmtree(d, ignore_errors=True)
    m = re.search(r"All (\d+) obligations? proved", out)
    if not m:
        raise MachineryError("TLAPS did not prove %s:\n%s" % (module, out[-2000:]))
    return int(m.group(1))
