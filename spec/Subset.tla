------------------------------- MODULE Subset -------------------------------
(* Model of nfa_algorithms.nfa_to_dfa: a LIFO worklist of state subsets.      *)
(* DFA states are the subsets themselves (the code names them by printing the *)
(* sorted subset).  `for a in Sigma` iterates a Python set: the order in which *)
(* new subsets are pushed is nondeterministic.                                *)
EXTENDS Util, FA
CONSTANTS Q, S, Q0
Eps == "eps"
Labels == S \cup {Eps}
VARIABLES N, Qd, deltad, Fd, todo
vars == <<N, Qd, deltad, Fd, todo>>

Init == /\ \E T \in SUBSET (Q \X Labels \X Q) : \E F \in SUBSET Q :
              N = [Q |-> Q, S |-> S, T |-> T, q0 |-> Q0, F |-> F, eps |-> Eps]
        /\ LET X0 == EClosure(N, {N.q0})
           IN /\ Qd = {X0}
              /\ deltad = {}
              /\ Fd = IF X0 \cap N.F # {} THEN {X0} ELSE {}
              /\ todo = <<X0>>

Succ(X, a) == EClosure(N, {t[3] : t \in {t \in N.T : t[1] \in X /\ t[2] = a}})

Perms(X) == {f \in [1..Cardinality(X) -> X] : \A i, j \in 1..Cardinality(X) : i # j => f[i] # f[j]}

Expand ==
  /\ todo # <<>>
  /\ LET X == todo[Len(todo)]
         rest == SubSeq(todo, 1, Len(todo) - 1)
         new == {Succ(X, a) : a \in S} \ Qd
     IN /\ deltad' = deltad \cup {<<X, a, Succ(X, a)>> : a \in S}
        /\ Fd' = Fd \cup {Y \in {Succ(X, a) : a \in S} : Y \cap N.F # {}}
        /\ Qd' = Qd \cup new
        /\ \E p \in Perms(new) : todo' = rest \o p
  /\ UNCHANGED N

Next == Expand
Spec == Init /\ [][Next]_vars

D == [Q |-> Qd, S |-> S, T |-> deltad, q0 |-> EClosure(N, {N.q0}), F |-> Fd, eps |-> "~none~"]
Done == todo = <<>>

LoopInv == \A X \in Qd : (\A i \in DOMAIN todo : todo[i] # X) =>
              \A a \in S : \E t \in deltad : t[1] = X /\ t[2] = a
ResultValid == Done => ValidDFA(D)
ResultReachable == Done => Reach(D) = Qd
ResultEquivalent == Done => FaEquiv(N, D)
FinalsRight == \A X \in Qd : (X \in Fd) <=> (X \cap N.F # {})
Bounded == Cardinality(Qd) <= 2 ^ Cardinality(Q)
(* C13 inside the specification: the construction's own result satisfies the criterion of the     *)
(* NFA->DFA exercise checker (labels = the subsets themselves)                                    *)
OwnAnswerPassesNfa2DfaChecker ==
  Done => /\ Qd # {} /\ D.S = N.S
          /\ \A X \in Qd : X \subseteq N.Q
          /\ D.q0 = EClosure(N, {N.q0})
          /\ \A X \in Qd : (X \in Fd) <=> (X \cap N.F # {})
          /\ \A X \in Qd : \A a \in S :
                LET tg == {t[3] : t \in {t \in deltad : t[1] = X /\ t[2] = a}}
                IN Cardinality(tg) = 1 /\ \A Y \in tg : Y = Step(N, X, a)
=============================================================================
