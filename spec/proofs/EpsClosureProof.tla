------------------------- MODULE EpsClosureProof -------------------------
(* UNBOUNDED partial correctness of the closure loop of C01 (the loop of       *)
(* nfa_algorithms.epsilon_closure as modelled in EpsClosure.tla), proved with   *)
(* TLAPS for ANY state set Q (finite or not), ANY epsilon-edge relation E and   *)
(* ANY start set X0 - where TLC explores all graphs on 3-4 states.              *)
(*                                                                              *)
(* Closure is the least subset of Q that contains X0 and is closed under E      *)
(* (the intersection of all such sets).  Inv is inductive; at termination       *)
(* (todo = {}) it gives result = Closure.  Termination itself (for finite Q) is *)
(* the variant checked by TLC (EpsClosure!Decreases).                           *)
EXTENDS TLAPS
CONSTANTS Q, E, X0
ASSUME Assump == E \subseteq (Q \X Q) /\ X0 \subseteq Q
VARIABLES result, todo
vars == <<result, todo>>

Init == result = X0 /\ todo = X0
New(q) == {e[2] : e \in {e \in E : e[1] = q}} \ result
Pop(q) == /\ q \in todo
          /\ result' = result \cup New(q)
          /\ todo' = (todo \ {q}) \cup New(q)
Next == \E q \in todo : Pop(q)
Spec == Init /\ [][Next]_vars

Closed(S) == X0 \subseteq S /\ \A e \in E : e[1] \in S => e[2] \in S
Closure == {q \in Q : \A S \in SUBSET Q : Closed(S) => q \in S}

Inv == /\ X0 \subseteq result
       /\ todo \subseteq result
       /\ result \subseteq Q
       /\ \A e \in E : e[1] \in (result \ todo) => e[2] \in result
       /\ result \subseteq Closure

LEMMA ClosureClosed == Closed(Closure)
  <1>1. X0 \subseteq Closure
    BY Assump DEF Closure, Closed
  <1>2. \A e \in E : e[1] \in Closure => e[2] \in Closure
    BY Assump DEF Closure, Closed
  <1> QED BY <1>1, <1>2 DEF Closed

THEOREM InitInv == Init => Inv
  BY Assump, ClosureClosed DEF Init, Inv, Closed

THEOREM NextInv == Inv /\ [Next]_vars => Inv'
  <1> SUFFICES ASSUME Inv, [Next]_vars PROVE Inv'
    OBVIOUS
  <1>1. CASE UNCHANGED vars
    BY <1>1 DEF Inv, vars
  <1>2. CASE Next
    <2> PICK q \in todo : Pop(q)
      BY <1>2 DEF Next
    <2>1. X0 \subseteq result'
      BY DEF Inv, Pop
    <2>2. todo' \subseteq result'
      BY DEF Inv, Pop, New
    <2>3. result' \subseteq Q
      BY Assump DEF Inv, Pop, New
    <2>4. \A e \in E : e[1] \in (result' \ todo') => e[2] \in result'
      BY DEF Inv, Pop, New
    <2>5. result' \subseteq Closure
      <3>1. q \in Closure
        BY DEF Inv
      <3>2. New(q) \subseteq Closure
        BY <3>1, ClosureClosed DEF New, Closed
      <3> QED BY <3>2 DEF Inv, Pop
    <2> QED BY <2>1, <2>2, <2>3, <2>4, <2>5 DEF Inv
  <1> QED BY <1>1, <1>2

THEOREM Invariance == Spec => []Inv
  BY InitInv, NextInv, PTL DEF Spec

(* what the property needs: when the loop stops, the result IS the closure *)
THEOREM ExactAtTermination == Inv /\ todo = {} => result = Closure
  <1> SUFFICES ASSUME Inv, todo = {} PROVE result = Closure
    OBVIOUS
  <1>1. Closed(result)
    BY DEF Inv, Closed
  <1>2. Closure \subseteq result
    BY <1>1 DEF Closure, Inv
  <1> QED BY <1>2 DEF Inv
=============================================================================
