------------------------- MODULE PdaClosureProof -------------------------
(* UNBOUNDED correctness of the bounded worklist loop of C09                    *)
(* (pda_algorithms.pda_epsilon_closure as modelled by PdaRun!Pop with the        *)
(* operators PDA!PcResult / PcTodo), proved with TLAPS for ANY set C of          *)
(* configurations (infinite for a PDA: the stack is unbounded), ANY one-step     *)
(* epsilon relation E on it, ANY finite start set X0 and ANY limit - where TLC   *)
(* explores PDAs with <= 3 moves and limits <= 4.                                *)
(*                                                                              *)
(*  Sound              : whatever the pop order and wherever the limit cuts the  *)
(*                       loop, every configuration in `result` is in the closure *)
(*                       (so the acceptance test never answers True wrongly).    *)
(*  ExactWhenExhausted : if the loop stops because todo is empty, result is the  *)
(*                       closure.                                                *)
(*  CompleteBelowLimit : if the closure has at most Limit configurations the     *)
(*                       loop cannot be cut short: when it stops, todo is empty  *)
(*                       and result is the closure, whatever the pop order.      *)
(*                       (Every configuration is popped at most once: the number *)
(*                       of pops is the cardinality of result \ todo.)           *)
EXTENDS Naturals, FiniteSets, FiniteSetTheorems, TLAPS
CONSTANTS C, E, X0, Limit
ASSUME Assump == E \subseteq (C \X C) /\ X0 \subseteq C /\ Limit \in Nat
VARIABLES result, todo, iter
vars == <<result, todo, iter>>

Init == result = X0 /\ todo = X0 /\ iter = 0
New(q) == {e[2] : e \in {e \in E : e[1] = q}} \ result
Pop(q) == /\ q \in todo
          /\ iter < Limit
          /\ result' = result \cup New(q)
          /\ todo' = (todo \ {q}) \cup New(q)
          /\ iter' = iter + 1
Next == \E q \in todo : Pop(q)
Spec == Init /\ [][Next]_vars

Stopped == todo = {} \/ iter = Limit          \* the negation of the loop condition

Closed(S) == X0 \subseteq S /\ \A e \in E : e[1] \in S => e[2] \in S
Closure == {q \in C : \A S \in SUBSET C : Closed(S) => q \in S}

Popped == result \ todo

Inv == /\ X0 \subseteq result
       /\ todo \subseteq result
       /\ result \subseteq C
       /\ \A e \in E : e[1] \in Popped => e[2] \in result
       /\ result \subseteq Closure
       /\ iter \in Nat
       /\ iter <= Limit
       /\ IsFiniteSet(Popped)
       /\ Cardinality(Popped) = iter

LEMMA ClosureClosed == Closed(Closure)
  <1>1. X0 \subseteq Closure
    BY Assump DEF Closure, Closed
  <1>2. \A e \in E : e[1] \in Closure => e[2] \in Closure
    BY Assump DEF Closure, Closed
  <1> QED BY <1>1, <1>2 DEF Closed

THEOREM InitInv == Init => Inv
  <1> SUFFICES ASSUME Init PROVE Inv
    OBVIOUS
  <1>1. Popped = {}
    BY DEF Init, Popped
  <1>2. IsFiniteSet(Popped) /\ Cardinality(Popped) = 0
    BY <1>1, FS_EmptySet
  <1> QED BY <1>1, <1>2, Assump, ClosureClosed DEF Init, Inv, Closed

THEOREM NextInv == Inv /\ [Next]_vars => Inv'
  <1> SUFFICES ASSUME Inv, [Next]_vars PROVE Inv'
    OBVIOUS
  <1>1. CASE UNCHANGED vars
    BY <1>1 DEF Inv, vars, Popped
  <1>2. CASE Next
    <2> PICK q \in todo : Pop(q)
      BY <1>2 DEF Next
    <2>1. X0 \subseteq result'
      BY DEF Inv, Pop
    <2>2. todo' \subseteq result'
      BY DEF Inv, Pop, New
    <2>3. result' \subseteq C
      BY Assump DEF Inv, Pop, New
    <2>p. Popped' = Popped \cup {q}
      BY DEF Inv, Pop, New, Popped
    <2>4. \A e \in E : e[1] \in Popped' => e[2] \in result'
      BY <2>p DEF Inv, Pop, New, Popped
    <2>5. result' \subseteq Closure
      <3>1. q \in Closure
        BY DEF Inv
      <3>2. New(q) \subseteq Closure
        BY <3>1, ClosureClosed DEF New, Closed
      <3> QED BY <3>2 DEF Inv, Pop
    <2>6. iter' \in Nat /\ iter' <= Limit
      BY Assump DEF Inv, Pop
    <2>7. IsFiniteSet(Popped') /\ Cardinality(Popped') = iter'
      <3>1. q \notin Popped
        BY DEF Popped
      <3>2. IsFiniteSet(Popped) /\ Cardinality(Popped) = iter
        BY DEF Inv
      <3>3. IsFiniteSet(Popped \cup {q}) /\ Cardinality(Popped \cup {q}) = Cardinality(Popped) + 1
        BY <3>1, <3>2, FS_AddElement
      <3> QED BY <2>p, <3>2, <3>3 DEF Pop
    <2> QED BY <2>1, <2>2, <2>3, <2>4, <2>5, <2>6, <2>7 DEF Inv
  <1> QED BY <1>1, <1>2

THEOREM Invariance == Spec => []Inv
  BY InitInv, NextInv, PTL DEF Spec

(* soundness of every (also a truncated) result *)
THEOREM Sound == Inv => result \subseteq Closure
  BY DEF Inv

THEOREM ExactWhenExhausted == Inv /\ todo = {} => result = Closure
  <1> SUFFICES ASSUME Inv, todo = {} PROVE result = Closure
    OBVIOUS
  <1>1. Closed(result)
    BY DEF Inv, Closed, Popped
  <1>2. Closure \subseteq result
    BY <1>1 DEF Closure, Inv
  <1> QED BY <1>2 DEF Inv

(* the closure limit only matters for closures with more than Limit configurations *)
THEOREM CompleteBelowLimit ==
  ASSUME Inv, Stopped, IsFiniteSet(Closure), Cardinality(Closure) <= Limit
  PROVE  todo = {} /\ result = Closure
  <1>1. todo = {}
    <2> SUFFICES ASSUME todo # {} PROVE FALSE
      OBVIOUS
    <2>1. iter = Limit
      BY DEF Stopped
    <2>2. Popped \in SUBSET Closure
      BY DEF Inv, Popped
    <2>3. Cardinality(Popped) <= Cardinality(Closure)
      BY <2>2, FS_Subset
    <2>4. Cardinality(Popped) = Limit
      BY <2>1 DEF Inv
    <2>5. Cardinality(Closure) \in Nat
      BY FS_CardinalityType
    <2>6. Cardinality(Closure) = Cardinality(Popped)
      BY <2>3, <2>4, <2>5, Assump
    <2>7. Closure = Popped
      BY <2>2, <2>6, FS_Subset
    <2>8. PICK c \in todo : TRUE
      OBVIOUS
    <2>9. c \in Closure /\ c \notin Popped
      BY DEF Inv, Popped
    <2> QED BY <2>7, <2>9
  <1>2. result = Closure
    BY <1>1, ExactWhenExhausted
  <1> QED BY <1>1, <1>2
=============================================================================
