-------------------------------- MODULE JPDA --------------------------------
(* Judge clauses for the pushdown properties C09 C10 *)
EXTENDS Util, PDA, CFG

BadP(name, cond) == IF cond THEN {name} ELSE {}

JPdaAccepts(e) ==
  LET P == PdaOf(e.pda)
      acc == ToSet(e.accepted)
      W == WordsUpTo(P.S, e.n)
  IN IF e.exc # "none" THEN {"raised_" \o e.exc}
     ELSE BadP("sound", \E w \in acc : ~PdaAccepts(P, w))
          \cup BadP("complete_below_limit",
                    \E w \in W : w \notin acc /\ PdaAccepts(P, w) /\ ExactRun(P, w, e.limit).below)
          \cup BadP("setting_restored", e.limit_after # e.limit)

(* all accepting configurations reachable on words up to n have an empty stack  *)
(* (decided where the closures stay below cap)                                  *)
EmptyStackOnly(P, n, cap) ==
  \A w \in WordsUpTo(P.S, n) :
     LET r == ExactRun(P, w, cap)
     IN r.below => \A c \in r.cur : c[1] \in P.F => c[2] = <<>>

JPdaTransform(e) ==
  IF e.exc # "none" THEN {"raised_" \o e.exc} \cup BadP("input_unchanged", e.post # e.pre)
  ELSE
  LET P0 == PdaOf(e.pre)
      L0 == PdaLangUpTo(P0, e.n)
  IN BadP("input_unchanged", e.post # e.pre)
     \cup
     (IF e.name = "to_cfg"
      THEN LET G == CfgOf(e.res)
           IN BadP("valid", ~ValidCFG(G))
              \cup BadP("language_equal_up_to_n", CfgLangUpTo(G, P0.S, e.n) # L0)
      ELSE LET P == PdaOf(e.res)
               valid == ValidPDA(P)
           IN BadP("valid", ~valid)
              \cup (IF ~valid THEN {} ELSE
                    BadP("language_equal_up_to_n", {w \in WordsUpTo(P0.S, e.n) : PdaAccepts(P, w)} # L0)
                    \cup BadP("same_input_alphabet", P.S # P0.S)
                    \cup (IF e.name = "push_pop" THEN BadP("push_pop_only", ~IsPushPop(P)) ELSE {})
                    \cup (IF e.name = "one_accepting" THEN BadP("one_accepting_state", Cardinality(P.F) # 1) ELSE {})
                    \cup (IF e.name = "empty_stack"
                          THEN BadP("accepts_only_on_empty_stack", ~EmptyStackOnly(P, e.n, 60)) ELSE {})
                    \cup BadP("fresh_distinct", ~(P0.Q \subseteq P.Q /\ P0.G \subseteq P.G))))
=============================================================================
