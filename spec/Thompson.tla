------------------------------ MODULE Thompson ------------------------------
(* Model of regexp_to_nfa (RegexpToNFAGenerator.generate), the way the code     *)
(* builds the automaton: one IdentifierGenerator hands out q0, q1, ...; a leaf   *)
(* takes one (0, 1) or two (symbol) names; star and sum take one more name AFTER *)
(* their operands (left operand first) and hang it in with epsilon moves;        *)
(* concatenation adds epsilon moves from the left accepting states to the right  *)
(* initial state.  All parts share ONE alphabet set, so the result's alphabet is  *)
(* the set of symbols of the whole expression.                                    *)
(* Checked on every tree with <= MaxOps operators: the result is a valid NFA     *)
(* with exactly the denoted language (C06); the generated names never clash.     *)
(* (G) every (tree, automaton) is printed and compared with the real function.   *)
EXTENDS RegexCode, Json
CONSTANTS Sy, MaxOps
Eps == "eps"
Name(k) == "q" \o ToString(k)

(* Build(r, k) = [Q, T, q0, F, next]: the automaton of r when the generator's index is k *)
RECURSIVE Build(_, _)
Build(r, k) ==
  CASE r[1] = "zero" -> [Q |-> {Name(k)}, T |-> {}, q0 |-> Name(k), F |-> {}, next |-> k + 1]
    [] r[1] = "one"  -> [Q |-> {Name(k)}, T |-> {}, q0 |-> Name(k), F |-> {Name(k)}, next |-> k + 1]
    [] r[1] = "sym"  -> [Q |-> {Name(k), Name(k + 1)}, T |-> {<<Name(k), r[2], Name(k + 1)>>}, q0 |-> Name(k),
                         F |-> {Name(k + 1)}, next |-> k + 2]
    [] r[1] = "star" -> LET N == Build(r[2], k)
                            nq == Name(N.next)
                        IN [Q |-> N.Q \cup {nq}, T |-> N.T \cup {<<f, Eps, N.q0>> : f \in N.F \cup {nq}},
                            q0 |-> nq, F |-> N.F \cup {nq}, next |-> N.next + 1]
    [] r[1] = "sum"  -> LET L == Build(r[2], k)
                            R == Build(r[3], L.next)
                            nq == Name(R.next)
                        IN [Q |-> L.Q \cup R.Q \cup {nq}, T |-> L.T \cup R.T \cup {<<nq, Eps, L.q0>>, <<nq, Eps, R.q0>>},
                            q0 |-> nq, F |-> L.F \cup R.F, next |-> R.next + 1]
    [] r[1] = "cat"  -> LET L == Build(r[2], k)
                            R == Build(r[3], L.next)
                        IN [Q |-> L.Q \cup R.Q, T |-> L.T \cup R.T \cup {<<f, Eps, R.q0>> : f \in L.F},
                            q0 |-> L.q0, F |-> R.F, next |-> R.next]

RECURSIVE SymsOf(_)
SymsOf(r) == CASE r[1] = "sym" -> {r[2]}
               [] r[1] \in {"zero", "one"} -> {}
               [] r[1] = "star" -> SymsOf(r[2])
               [] OTHER -> SymsOf(r[2]) \cup SymsOf(r[3])
NfaOf(r) == LET B == Build(r, 0)
            IN [Q |-> B.Q, S |-> SymsOf(r), T |-> B.T, q0 |-> B.q0, F |-> B.F, eps |-> Eps]

VARIABLES r, stage
vars == <<r, stage>>
Init == r = Zero /\ stage = 0
PickOps == stage = 0 /\ stage' = 1 /\ \E k \in 0..MaxOps : \E t \in TreesOps(Sy, 0) : r' = <<"pick", k, t>>
PickTree == stage = 1 /\ stage' = 2 /\ \E t \in TreesOps(Sy, r[2]) : r' = t
Next == PickOps \/ PickTree
Spec == Init /\ [][Next]_vars

Valid == stage = 2 => ValidNFA(NfaOf(r))
SameLanguage == stage = 2 => ReEquivFa(r, NfaOf(r))
(* every name is handed out once: the number of states is the number of names used *)
NamesNeverClash == stage = 2 => Cardinality(Build(r, 0).Q) = Build(r, 0).next
Emit == stage = 2 => PrintT(<<"TRACE", ToJson([re |-> r, res |-> NfaOf(r)])>>)
=============================================================================
