------------------------------ MODULE RoundTrip ------------------------------
(* C16 as a composition inside the specification: print_dfa / print_nfa (the    *)
(* Printer) followed by the line parser and builder of LineParser.tla must give *)
(* back the automaton, for EVERY small automaton and every order in which the    *)
(* printer may list the labels of one edge (it iterates a dictionary).           *)
EXTENDS LineParser
CONSTANTS Qs, Sy
EpsP == "e"

VARIABLES A
rvars == <<vars, A>>
Labs == IF Kind = "dfa" THEN Sy ELSE Sy \cup {EpsP}
AllA == {[Q |-> Qs, S |-> Sy, T |-> tset, q0 |-> q0, F |-> F, eps |-> IF Kind = "dfa" THEN "~eps~" ELSE EpsP] :
           tset \in (IF Kind = "dfa" THEN {{<<q, a, d[<<q, a>>]>> : q \in Qs, a \in Sy} : d \in [Qs \X Sy -> Qs]}
                  ELSE SUBSET (Qs \X Labs \X Qs)),
           q0 \in Qs, F \in SUBSET Qs}

(* the printer: Printer.tla (header lines, then one line per connected pair of states, every label order) *)
P == INSTANCE Printer
Header(X) == P!PHeader(Kind, X)
Pairs(X) == P!PPairs(Kind, X)
EdgeLines(X, ps) == P!PEdgeLines(Kind, X, ps)

InitRT == /\ A = [Q |-> {}] /\ lines = <<>> /\ pos = 0 /\ items = <<>> /\ states = {} /\ trans = <<>> /\ initial = {}
          /\ final = {} /\ err = "none" /\ ph = "pickA" /\ result = <<>> /\ gl = FALSE
PickA == /\ ph = "pickA" /\ ph' = "print"
         /\ A' \in AllA
         /\ UNCHANGED <<lines, pos, items, states, trans, initial, final, err, result, gl>>
DoPrint == /\ ph = "print" /\ ph' = "parse"
         /\ \E el \in EdgeLines(A, Pairs(A)) : lines' = Header(A) \o el
         /\ pos' = 1
         /\ UNCHANGED <<A, items, states, trans, initial, final, err, result, gl>>
NextRT == PickA \/ DoPrint \/ ((ParseLine \/ EndOfText \/ Build) /\ UNCHANGED A)
SpecRT == InitRT /\ [][NextRT]_rvars

ParseOfPrintIsIdentity == ph = "done" => (err = "none" /\ result = A)
=============================================================================
