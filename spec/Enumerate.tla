------------------------------ MODULE Enumerate ------------------------------
(* Models of the bounded enumerators, level by level as the code builds them.    *)
(* Kind = "nfa": nfa_words_up_to_n - a frontier W mapping each state to the words *)
(*   that lead to it, F1 = states whose closure meets F;                          *)
(* Kind = "cfg": cfg_words_up_to_n on a CNF grammar - sentential forms of          *)
(*   variables of length i, each expanded to words through the terminal rules      *)
(*   (the repaired code adds the length-1 words only for n >= 1).                  *)
(* (regexp_words_up_to_n is transcribed in RegexCode.tla and checked in Simplify.) *)
EXTENDS Util, FA, CFG
CONSTANTS Kind, MaxN, MaxRules

(* ---------------- NFA part ---------------- *)
Qs == {"s0", "s1"}
Sg == {"a", "b"}
Eps == "eps"
MkN(T, F) == [Q |-> Qs, S |-> Sg, T |-> T, q0 |-> "s0", F |-> F, eps |-> Eps]
(* ---------------- CFG part ---------------- *)
Vs == {"S", "A", "B"}
Tm(a) == <<"t", a>>
Vr(x) == <<"v", x>>
AllRules == {<<l, <<Tm(a)>>>> : l \in Vs, a \in Sg}
            \cup {<<l, <<Vr(x), Vr(y)>>>> : l \in Vs, x \in {"A", "B"}, y \in {"A", "B"}}
            \cup {<<"S", <<>>>>}

VARIABLES N, Rs, n, lvl, W, words, stage
vars == <<N, Rs, n, lvl, W, words, stage>>
G == [V |-> Vs, S |-> Sg, R |-> SetToSeq(Rs), start |-> "S"]

Init == N = MkN({}, {}) /\ Rs = {} /\ n = 0 /\ lvl = 0 /\ W = <<>> /\ words = {} /\ stage = 0
Pick1 == /\ stage = 0 /\ stage' = 1
         /\ n' \in 0..MaxN
         /\ IF Kind = "nfa" THEN \E F \in SUBSET Qs : N' = MkN({}, F) /\ UNCHANGED Rs
            ELSE \E r \in AllRules : Rs' = {r} /\ UNCHANGED N
         /\ UNCHANGED <<lvl, W, words>>

Eq(q) == EClosure(N, {q})
Eqa(q, a) == EClosure(N, {t[3] : t \in {t \in N.T : t[1] = q /\ t[2] = a}})
F1 == {q \in Qs : Eq(q) \cap N.F # {}}

MakeWords(x) ==      \* all words obtained by replacing every variable of x through a terminal rule
  LET RECURSIVE MW(_)
      MW(y) == IF y = <<>> THEN {<<>>}
               ELSE {<<a>> \o u : a \in {r[2][1][2] : r \in {r \in Rs : r[1] = y[1] /\ Len(r[2]) = 1}}, u \in MW(Tail(y))}
  IN MW(x)
Replace(x) == UNION {{SubSeq(x, 1, j - 1) \o <<r[2][1][2], r[2][2][2]>> \o SubSeq(x, j + 1, Len(x)) :
                         r \in {r \in Rs : Len(r[2]) = 2 /\ r[1] = x[j]}} : j \in DOMAIN x}

Pick2 == /\ stage = 1 /\ stage' = 2
         /\ IF Kind = "nfa"
            THEN /\ \E T \in SUBSET (Qs \X (Sg \cup {Eps}) \X Qs) : N' = MkN(T, N.F)
                 /\ UNCHANGED Rs
                 /\ W' = [q \in Qs |-> IF q \in EClosure(N', {"s0"}) THEN {<<>>} ELSE {}]
                 /\ words' = IF EClosure(N', {"s0"}) \cap N.F # {} THEN {<<>>} ELSE {}
                 /\ lvl' = 0
            ELSE /\ \E X \in {X \in SUBSET AllRules : Cardinality(X) < MaxRules} : Rs' = Rs \cup X
                 /\ UNCHANGED N
                 /\ W' = {<<"S">>}
                 /\ words' = {}
                 /\ lvl' = 0
         /\ UNCHANGED n

LevelNfa == /\ stage = 2 /\ Kind = "nfa" /\ lvl < n
            /\ LET W1x == [q1 \in Qs |-> UNION {UNION {{Append(u, a) : u \in W[q]} : a \in {a \in Sg : q1 \in Eqa(q, a)}}
                                                : q \in Qs}]
               IN /\ W' = W1x
                  /\ words' = words \cup UNION {W1x[q1] : q1 \in F1}
            /\ lvl' = lvl + 1
            /\ UNCHANGED <<N, Rs, n, stage>>

(* level 0: the empty word; level 1: make_words([S]) if n >= 1; level i >= 2: expand once more *)
LevelCfg == /\ stage = 2 /\ Kind = "cfg" /\ lvl <= n
            /\ IF lvl = 0 THEN words' = (IF <<"S", <<>>>> \in Rs THEN {<<>>} ELSE {}) /\ UNCHANGED W
               ELSE IF lvl = 1 THEN words' = words \cup MakeWords(<<"S">>) /\ UNCHANGED W
               ELSE LET W1 == UNION {Replace(x) : x \in W}
                    IN W' = W1 /\ words' = words \cup UNION {MakeWords(x) : x \in W1}
            /\ lvl' = lvl + 1
            /\ UNCHANGED <<N, Rs, n, stage>>

Next == Pick1 \/ Pick2 \/ LevelNfa \/ LevelCfg
Spec == Init /\ [][Next]_vars

DoneNfa == stage = 2 /\ Kind = "nfa" /\ lvl = n
DoneCfg == stage = 2 /\ Kind = "cfg" /\ lvl = n + 1
NfaExact == DoneNfa => words = LangUpTo(N, n)
NfaLevelInv == (stage = 2 /\ Kind = "nfa") => words = LangUpTo(N, lvl)
CfgExact == DoneCfg => words = CfgLangUpToDef(G, Sg, n)
NothingLonger == stage = 2 => \A u \in words : Len(u) <= n
=============================================================================
