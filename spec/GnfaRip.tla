------------------------------ MODULE GnfaRip ------------------------------
(* Model of dfa_to_gnfa + gnfa_minimize (state elimination).  Edge labels are  *)
(* regexp trees; `for q_rip in Q - {start, accept}` iterates a Python set:      *)
(* \E q.  Every update is R1.R2*.R3 + R4 followed by regexp_simplify (Simp).    *)
EXTENDS RegexCode, DfaUniverse
VARIABLES D, Qg, dg, stage
vars == <<D, Qg, dg, stage>>
QStart == "start"
QAccept == "accept"

RECURSIVE SumOf(_)
SumOf(ss) == IF Len(ss) = 1 THEN <<"sym", ss[1]>> ELSE <<"sum", SumOf(SubSeq(ss, 1, Len(ss) - 1)), <<"sym", ss[Len(ss)]>>>>
(* dfa_to_gnfa sums parallel edges in the iteration order of delta: any order   *)
SymSeqs(X) == {f \in [1..Cardinality(X) -> X] : \A i, j \in 1..Cardinality(X) : i # j => f[i] # f[j]}

InitialLabel(d, p, q, ord) ==
  IF p = QStart THEN (IF q = d.q0 THEN One ELSE Zero)
  ELSE IF q = QAccept THEN (IF p \in d.F THEN One ELSE Zero)
  ELSE IF p = QAccept \/ q = QStart THEN Zero
  ELSE LET X == {a \in S : <<p, a, q>> \in d.T}
       IN IF X = {} THEN Zero ELSE SumOf(CHOOSE f \in SymSeqs(X) : TRUE)

Init == D = DummyDfa /\ Qg = {} /\ dg = <<>> /\ stage = 0
PickF == /\ stage = 0 /\ stage' = 1
         /\ \E F \in SUBSET Q : D' = [DummyDfa EXCEPT !.F = F]
         /\ UNCHANGED <<Qg, dg>>
PickD == /\ stage = 1 /\ stage' = 2
         /\ D' \in DfasWithF(D.F)
         /\ Qg' = Q \cup {QStart, QAccept}
         /\ dg' = [pq \in (Q \cup {QStart, QAccept}) \X (Q \cup {QStart, QAccept}) |->
                      InitialLabel(D', pq[1], pq[2], 0)]

Rip(q) ==
  /\ stage = 2 /\ q \in Qg \ {QStart, QAccept}
  /\ Qg' = Qg \ {q}
  /\ dg' = RipLabels(Qg, dg, q, QStart, QAccept)
  /\ UNCHANGED <<D, stage>>

Next == PickF \/ PickD \/ \E q \in Qg : Rip(q)
Spec == Init /\ [][Next]_vars /\ WF_vars(Next)

Done == stage = 2 /\ Qg = {QStart, QAccept}
Result == dg[<<QStart, QAccept>>]
ResultEquivalent == Done => ReEquivFa(Result, D)
OwnAnswerPassesDfa2RegexpChecker == ResultEquivalent      \* C13: the checker compares the languages
Terminates == <>Done
=============================================================================
