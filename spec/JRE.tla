-------------------------------- MODULE JRE --------------------------------
(* Judge clauses for the regular-expression properties C05 C06 *)
EXTENDS Util, FA, Regex

BadR(name, cond) == IF cond THEN {name} ELSE {}

(* a symbol whose name has several characters matches that string: the harness gives the tree with every such *)
(* symbol spelled out as a concatenation of one-character symbols (same denotation over character words)      *)
SemRe(e) == IF "sem" \in DOMAIN e THEN e.sem ELSE e.re
SemRes(e) == IF "res_sem" \in DOMAIN e THEN e.res_sem ELSE e.res

JReAccepts(e) ==
  LET acc == ToSet(e.accepted)
      S == ToSet(e.sigma)
  IN BadR("matches_denotation", \E w \in WordsUpTo(S, e.n) : (w \in acc) # Matches(SemRe(e), w))

JReSimplify(e) ==
  IF e.exc # "none" THEN {"raised_" \o e.exc}
  ELSE BadR("same_language_exact", ~ReEquiv(SemRe(e), SemRes(e)))
       \cup BadR("not_larger", Nodes(e.res) > Nodes(e.re))

JReToNfa(e) ==
  IF e.exc # "none" THEN {"raised_" \o e.exc}
  ELSE LET N == FaOf(e.res)
           valid == ValidNFA(N)
       IN BadR("valid_nfa", ~valid)
          \cup (IF valid THEN BadR("equivalent_exact", ~ReEquivFa(e.re, N)) ELSE {})

JDfaToRe(e) ==
  IF e.exc # "none" THEN {"raised_" \o e.exc}
  ELSE BadR("equivalent_exact", ~ReEquivFa(e.res, FaOf(e.fa)))
=============================================================================
