-------------------------------- MODULE JRE --------------------------------
(* Judge clauses for the regular-expression properties C05 C06 *)
EXTENDS Util, FA, Regex

BadR(name, cond) == IF cond THEN {name} ELSE {}

JReAccepts(e) ==
  LET acc == ToSet(e.accepted)
      S == ToSet(e.sigma)
  IN BadR("matches_denotation", \E w \in WordsUpTo(S, e.n) : (w \in acc) # Matches(e.re, w))

JReSimplify(e) ==
  IF e.exc # "none" THEN {"raised_" \o e.exc}
  ELSE BadR("same_language_exact", ~ReEquiv(e.re, e.res))
       \cup BadR("not_larger", Nodes(e.res) > Nodes(e.re))

JReToNfa(e) ==
  IF e.exc # "none" THEN {"raised_" \o e.exc}
  ELSE LET N == FaOf(e.res)
           valid == ValidNFA(N)
       IN BadR("valid_nfa", ~valid)
          \cup (IF valid THEN BadR("equivalent_exact", ~ReEquivFa(e.re, N)) ELSE {})

JDfaToRe(e) ==
  IF e.exc # "none" THEN {"raised_" \o e.exc}
  ELSE BadR("equivalent_exact", ~ReEquivFa(e.res, FaOf(e.fa)))
=============================================================================
