------------------------------- MODULE PdaSim -------------------------------
(* Model of pda_algorithms.pda_simulate_word (C15): NfaSim.tla over configurations.  PDAs over  *)
(* Q, input {a}, stack {X} with at most three moves; words <= MaxLen; closures are computed with  *)
(* the cap Cap and a word whose closures exceed it is outside the model (the statement's          *)
(* "below the limit" domain; C09 covers the truncated case).                                       *)
EXTENDS Util, PDA, PdaSimSteps
CONSTANTS Q, Q0, MaxLen, Cap
Eps == "eps"
Pool == {<<p, a, u, q, v>> : p \in Q, a \in {"a", Eps}, u \in {"X", Eps}, q \in Q, v \in {"X", Eps}}
Mk(T, F) == [Q |-> Q, S |-> {"a"}, G |-> {"X"}, T |-> T, q0 |-> Q0, F |-> F, eps |-> Eps]
VARIABLES P, w, pc, i, front, result
vars == <<P, w, pc, i, front, result>>

Init == P = Mk({}, {}) /\ w = <<>> /\ pc = "pick1" /\ i = 0 /\ front = <<Q0, <<>>>> /\ result = <<>>
Pick1 == /\ pc = "pick1" /\ pc' = "pick2"
         /\ \E F \in SUBSET Q, t \in Pool : P' = Mk({t}, F)
         /\ UNCHANGED <<w, i, front, result>>
Pick2 == /\ pc = "pick2" /\ pc' = "forward"
         /\ \E t1 \in Pool, t2 \in Pool : P' = Mk(P.T \cup {t1, t2}, P.F)
         /\ \E u \in WordsUpTo({"a"}, MaxLen) : w' = u
         /\ UNCHANGED <<i, front, result>>
Below == ExactRun(P, w, Cap).below
PreH == PSimPre(P, w, Cap)
Clo(k) == EpsClose(P, PreH[k], Cap)
Forward == /\ pc = "forward"
           /\ IF ~Below THEN pc' = "outside" /\ UNCHANGED <<front, result, i>>
              ELSE IF {c \in Clo(Len(w) + 1) : c[1] \in P.F} = {} THEN pc' = "none" /\ UNCHANGED <<front, result, i>>
              ELSE /\ \E f \in {c \in Clo(Len(w) + 1) : c[1] \in P.F} : front' = f /\ result' = <<<<f[1], <<>>, f[2]>>>>
                   /\ i' = Len(w) /\ pc' = "path"
           /\ UNCHANGED <<P, w>>
Path == /\ pc = "path"
        /\ \E seg \in PEpsSegments(P, PreH[i + 1], Clo(i + 1), front) :
              /\ result' = [k \in 1..(Len(seg) - 1) |-> <<seg[k][1], PSuffix(w, i), seg[k][2]>>] \o result
              /\ front' = seg[1]
        /\ pc' = IF i = 0 THEN "done" ELSE "letter"
        /\ UNCHANGED <<P, w, i>>
Letter == /\ pc = "letter"
          /\ \E c \in Clo(i) : /\ front \in StepOn(P, {c}, w[i])
                               /\ front' = c
                               /\ result' = <<<<c[1], PSuffix(w, i - 1), c[2]>>>> \o result
          /\ i' = i - 1 /\ pc' = "path"
          /\ UNCHANGED <<P, w>>
Next == Pick1 \/ Pick2 \/ Forward \/ Path \/ Letter
Spec == Init /\ [][Next]_vars /\ WF_vars(Next)

StepOkP(c, d) ==
  \E t \in P.T :
     /\ t[1] = c[1] /\ t[4] = d[1]
     /\ IF t[2] = Eps THEN d[2] = c[2] ELSE (c[2] # <<>> /\ Head(c[2]) = t[2] /\ d[2] = Tail(c[2]))
     /\ d[3] \in {x[2] : x \in {x \in {Fire(P, <<c[1], c[3]>>, t)} : CanFire(P, <<c[1], c[3]>>, t, t[2])}}
SuffixValid == pc \in {"path", "letter", "done"} =>
                  /\ \A k \in 1..(Len(result) - 1) : StepOkP(result[k], result[k + 1])
                  /\ result[Len(result)][1] \in P.F /\ result[Len(result)][2] = <<>>
                  /\ <<result[1][1], result[1][3]>> = front
AlwaysProduced == /\ (pc = "path" => PEpsSegments(P, PreH[i + 1], Clo(i + 1), front) # {})
                  /\ (pc = "letter" => \E c \in Clo(i) : front \in StepOn(P, {c}, w[i]))
ResultGenuine == pc = "done" => /\ result[1] = <<P.q0, w, <<>>>>
                                /\ PdaAccepts(P, w)
                                /\ IsModelRunP(P, w, result, Cap)
NoneIffRejected == (pc = "none" => ~PdaAccepts(P, w)) /\ (pc = "done" => PdaAccepts(P, w))
Terminates == <>(pc \in {"done", "none", "outside"})
=============================================================================
