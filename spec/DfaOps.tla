------------------------------- MODULE DfaOps -------------------------------
(* Model of the DFA constructions of C14, written the way dfa_algorithms.py     *)
(* builds them (state names included):                                           *)
(*   complement, the three products ("(p,q)" states, ALL pairs), reverse (new     *)
(*   initial state fresh_state(Q,'q') with epsilon moves to the old accepting     *)
(*   states, transitions turned round), no_prefix (moves out of accepting states  *)
(*   dropped), no_extend (accepting states that can reach an accepting state in   *)
(*   >= 1 steps are demoted), remove_unreachable, make_total (trap state          *)
(*   fresh_state(Q,'trap') is ALWAYS added; missing moves go there).             *)
(* Kind = "unary": every DFA over (Q,S); "binary": every pair (second operand     *)
(* over Q2); "partial": every DFA with any set of moves dropped (make_total).     *)
(* Invariants: the model's result is a valid automaton with exactly the language  *)
(* the reference semantics (FA.tla) demands.  (G) every (input, operation,        *)
(* result) is printed as JSON and compared with what the real function returns.   *)
EXTENDS Util, FA, Json
CONSTANTS Kind, Q, S, Q0, Q2, Q02

Eps == "eps"            \* stands for the library's default epsilon symbol in the results that are NFAs
NoEps == "~none~"
DfaOver(QQ, q0, d, F) == [Q |-> QQ, S |-> S, T |-> {<<q, a, d[<<q, a>>]>> : q \in QQ, a \in S},
                          q0 |-> q0, F |-> F, eps |-> NoEps]
Dummy == DfaOver(Q, Q0, [p \in Q \X S |-> Q0], {})
Dummy2 == DfaOver(Q2, Q02, [p \in Q2 \X S |-> Q02], {})

RECURSIVE FreshFrom(_, _, _)
FreshFrom(X, hint, k) == LET nm == hint \o ToString(k) IN IF nm \notin X THEN nm ELSE FreshFrom(X, hint, k + 1)
Fresh(X, hint) == FreshFrom(X, hint, 1)            \* dfa_algorithms.fresh_state

-----------------------------------------------------------------------------
(* the constructions *)
Complement(D) == [D EXCEPT !.F = D.Q \ D.F]

Pair(p, q) == "(" \o p \o "," \o q \o ")"
Product(D1, D2, Fin(_, _)) ==
  [Q |-> {Pair(p, q) : p \in D1.Q, q \in D2.Q}, S |-> D1.S,
   T |-> {<<Pair(p, q), a, Pair(Delta(D1, p, a), Delta(D2, q, a))>> : p \in D1.Q, q \in D2.Q, a \in D1.S},
   q0 |-> Pair(D1.q0, D2.q0),
   F |-> {Pair(pq[1], pq[2]) : pq \in {pq \in D1.Q \X D2.Q : Fin(pq[1] \in D1.F, pq[2] \in D2.F)}},
   eps |-> NoEps]
UnionOf(D1, D2) == Product(D1, D2, LAMBDA x, y : x \/ y)
InterOf(D1, D2) == Product(D1, D2, LAMBDA x, y : x /\ y)
SymDiffOf(D1, D2) == Product(D1, D2, LAMBDA x, y : x # y)

Reverse(D) ==
  LET n0 == Fresh(D.Q, "q")
  IN [Q |-> D.Q \cup {n0}, S |-> D.S,
      T |-> {<<t[3], t[2], t[1]>> : t \in D.T} \cup {<<n0, Eps, f>> : f \in D.F},
      q0 |-> n0, F |-> {D.q0}, eps |-> Eps]

NoPrefix(D) == [D EXCEPT !.T = {t \in D.T : t[1] \notin D.F}, !.eps = Eps]

Succ(D, X) == {t[3] : t \in {t \in D.T : t[1] \in X}}
ReachGE1(D, q) == ReachSet(DfaEdges(D), Succ(D, {q}))           \* dfa_reachable_states(D, q, 1)
NoExtend(D) == [D EXCEPT !.F = {f \in D.F : ReachGE1(D, f) \cap D.F = {}}]

RemoveUnreachable(D) ==
  LET R == Reach(D)
  IN [D EXCEPT !.Q = R, !.T = {t \in D.T : t[1] \in R}, !.F = D.F \cap R]

Missing(P, QQ) == {qa \in QQ \X P.S : ~\E t \in P.T : t[1] = qa[1] /\ t[2] = qa[2]}
MakeTotal(P) ==          \* P: a DFA whose T may lack moves
  LET trap == Fresh(P.Q, "trap")
      QQ == P.Q \cup {trap}
  IN [P EXCEPT !.Q = QQ, !.T = P.T \cup {<<qa[1], qa[2], trap>> : qa \in Missing(P, QQ)}]

-----------------------------------------------------------------------------
VARIABLES d1, d2, op, res, stage
vars == <<d1, d2, op, res, stage>>
UnaryOps == {"complement", "reverse", "no_prefix", "no_extend", "remove_unreachable", "make_total"}
BinaryOps == {"union", "intersection", "symmetric_difference"}

Init == d1 = Dummy /\ d2 = Dummy2 /\ op = "none" /\ res = Dummy /\ stage = 0
PickF == /\ stage = 0 /\ stage' = 1
         /\ \E F \in SUBSET Q : d1' = [Dummy EXCEPT !.F = F]
         /\ IF Kind = "binary" THEN \E F2 \in SUBSET Q2 : d2' = [Dummy2 EXCEPT !.F = F2] ELSE d2' = d2
         /\ UNCHANGED <<op, res>>
PickD == /\ stage = 1 /\ stage' = 2
         /\ \E d \in [Q \X S -> Q] : d1' = DfaOver(Q, Q0, d, d1.F)
         /\ IF Kind = "binary" THEN \E e \in [Q2 \X S -> Q2] : d2' = DfaOver(Q2, Q02, e, d2.F) ELSE d2' = d2
         /\ UNCHANGED <<op, res>>
(* "partial": drop any set of moves *)
Drop == /\ stage = 2 /\ Kind = "partial" /\ op = "none" /\ stage' = 2
        /\ \E X \in SUBSET d1.T : X # {} /\ d1' = [d1 EXCEPT !.T = d1.T \ X]
        /\ op' = "dropped"
        /\ UNCHANGED <<d2, res>>
Apply(o) ==
  /\ stage = 2 /\ stage' = 3 /\ op' = o
  /\ CASE Kind = "unary" -> o \in UnaryOps /\ op = "none"
       [] Kind = "binary" -> o \in BinaryOps /\ op = "none"
       [] Kind = "partial" -> o = "make_total" /\ op = "dropped"
  /\ res' = CASE o = "complement" -> Complement(d1)
              [] o = "reverse" -> Reverse(d1)
              [] o = "no_prefix" -> NoPrefix(d1)
              [] o = "no_extend" -> NoExtend(d1)
              [] o = "remove_unreachable" -> RemoveUnreachable(d1)
              [] o = "make_total" -> MakeTotal(d1)
              [] o = "union" -> UnionOf(d1, d2)
              [] o = "intersection" -> InterOf(d1, d2)
              [] o = "symmetric_difference" -> SymDiffOf(d1, d2)
  /\ UNCHANGED <<d1, d2>>
Next == PickF \/ PickD \/ Drop \/ \E o \in UnaryOps \cup BinaryOps : Apply(o)
Spec == Init /\ [][Next]_vars

-----------------------------------------------------------------------------
Done == stage = 3
IsNfaResult == op \in {"reverse", "no_prefix"}
ResultValid == Done => IF IsNfaResult THEN ValidNFA(res) ELSE ValidDFA(res)
(* a partial DFA read as an NFA without epsilon moves has the language of the DFA with a trap *)
AsNfa(P) == [P EXCEPT !.eps = Eps]
ResultLanguage ==
  Done =>
    CASE op = "complement" -> IsComplementOf(res, d1)
      [] op = "reverse" -> IsReverseOf(res, d1)
      [] op = "no_prefix" -> IsNoPrefixOf(res, d1)
      [] op = "no_extend" -> IsNoExtendOf(res, d1)
      [] op = "remove_unreachable" -> FaEquiv(res, d1)
      [] op = "make_total" -> FaEquiv(res, AsNfa(d1))
      [] op = "union" -> IsUnionOf(res, d1, d2)
      [] op = "intersection" -> IsInterOf(res, d1, d2)
      [] op = "symmetric_difference" -> IsSymDiffOf(res, d1, d2)
(* structure the notebook checkers rely on *)
ProductHasAllPairs == (Done /\ op \in BinaryOps) => Cardinality(res.Q) = Cardinality(d1.Q) * Cardinality(d2.Q)
ReverseAddsOneState == (Done /\ op = "reverse") => Cardinality(res.Q) = Cardinality(d1.Q) + 1
NoUnreachableLeft == (Done /\ op = "remove_unreachable") => Reach(res) = res.Q

J(A) == [Q |-> A.Q, S |-> A.S, T |-> A.T, q0 |-> A.q0, F |-> A.F, eps |-> A.eps]
Emit == Done => PrintT(<<"TRACE", ToJson([op |-> op, d1 |-> J(d1), d2 |-> J(d2), res |-> J(res)])>>)
=============================================================================
