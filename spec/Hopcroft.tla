------------------------------ MODULE Hopcroft ------------------------------
(* Model of dfa_algorithms.dfa_hopfcroft, written like the code:              *)
(*  - the waiting set W_cal is a Python set, `pop()` is \E wa \in W;           *)
(*  - the code's test `P in W_cal` compares a block with (block, symbol)       *)
(*    pairs and is never true, so a split always adds (smaller half, b) and a  *)
(*    stale (P, b) stays in W  -- named deviation Hop_StaleSplitterKept;       *)
(*  - blocks of the copied partition are disjoint, so the inner `for P` order  *)
(*    cannot influence the outcome of one iteration (one action per pop);      *)
(*  - unreachable states are not removed.                                      *)
EXTENDS DfaUniverse, Steps
VARIABLES D, P, W, stage
vars == <<D, P, W, stage>>

MinOf(A, B) == IF Cardinality(A) <= Cardinality(B) THEN A ELSE B

Init == D = DummyDfa /\ P = {} /\ W = {} /\ stage = 0
PickF == /\ stage = 0 /\ stage' = 1
         /\ \E F \in SUBSET Q : D' = [DummyDfa EXCEPT !.F = F]
         /\ UNCHANGED <<P, W>>
PickD == /\ stage = 1 /\ stage' = 2
         /\ D' \in DfasWithF(D.F)
         /\ P' = HopInitP(D')
         /\ W' = HopInitW(D')

SplitIn(Wb, a, B) == {p \in B : Delta(D, p, a) \in Wb}

StepHop(wa) ==
  /\ P' = HopP(D, P, wa)
  /\ W' = HopW(D, P, W, wa)
  /\ UNCHANGED <<D, stage>>

Pop == stage = 2 /\ \E wa \in W : StepHop(wa)
Next == PickF \/ PickD \/ Pop
Spec == Init /\ [][Next]_vars /\ WF_vars(Next)

Done == stage = 2 /\ W = {}
M == BlockDfa(D, P)

PartitionInv == stage = 2 =>
                /\ IsPartition(P, Q)
                /\ \A B \in P : B \subseteq D.F \/ B \cap D.F = {}
                (* never separates equivalent states *)
                /\ \A C \in NerodePartition(D) : \E B \in P : C \subseteq B
DoneIsNerode == Done => P = NerodePartition(D)
DoneIsMoore == Done => P = MoorePartition(D)        \* the same statement through the cheap formulation
DoneResultOk == Done => ResultOk(D, M)
(* C13 inside the specification: the minimal-DFA checker compares the number of states with the   *)
(* library's quotient (= the Myhill-Nerode classes of ALL states) and the languages               *)
OwnAnswerPassesMinimalChecker ==
  Done => /\ M.S = D.S /\ Cardinality(M.Q) = NerodeClasses(D, D.Q) /\ FaEquiv(D, M)
InputUnchanged == [][stage = 2 => D' = D]_vars
Terminates == <>Done
(* variant: each step either splits a block or shrinks W *)
Measure == (Cardinality(Q) - Cardinality(P)) * (Cardinality(Q) * Cardinality(S) * 4 + 1) + Cardinality(W)
=============================================================================
