------------------------------- MODULE Printer -------------------------------
(* The four automaton printers (print_dfa / print_nfa / print_pda / print_tm)  *)
(* as operators from an abstract automaton to description lines (Text.tla's     *)
(* line format).  Used (i) by RoundTrip / RoundTripPT, which compose them with  *)
(* the parser model, and (ii) by the Judge, which checks that the text the REAL *)
(* printer produced is one of the texts this model produces (PrintedAsModel):   *)
(* every declaration line, in the order of the code, then one line per          *)
(* connected pair of states carrying all its labels exactly once.               *)
(* What the model leaves open is what the code leaves to the dictionary order:  *)
(* the order of the labels on an edge line (and token order inside a set line,   *)
(* which the code sorts and the parser ignores).                                 *)
EXTENDS Util

PGlyph(kind) == IF kind = "tm" THEN "~25a1~" ELSE "~03b5~"
PLn(k, t) == [k |-> k, t |-> t]
PDst(kind) == IF kind = "pda" THEN 4 ELSE 3
PLabel(kind, t) ==
  CASE kind \in {"dfa", "nfa"} -> <<"ok", t[2] = PGlyph(kind), t[2]>>
    [] kind = "pda" -> <<"ok", PGlyph(kind) \in {t[2], t[3], t[5]}, t[2], t[3], t[5]>>
    [] kind = "tm"  -> <<"ok", PGlyph(kind) \in {t[2], t[4]}, t[2], t[4], t[5]>>
PPairs(kind, X) == {<<t[1], t[PDst(kind)]>> : t \in X.T}
PLabelsOf(kind, X, pq) == {PLabel(kind, t) : t \in {t \in X.T : t[1] = pq[1] /\ t[PDst(kind)] = pq[2]}}

PHeader(kind, X) ==
  CASE kind = "dfa" -> <<PLn("states", SetToSeq(X.Q)), PLn("final", SetToSeq(X.F)), PLn("initial", <<X.q0>>),
                         PLn("kw", <<"input_symbols">> \o SetToSeq(X.S))>>
    [] kind = "nfa" -> <<PLn("states", SetToSeq(X.Q)), PLn("final", SetToSeq(X.F)), PLn("initial", <<X.q0>>),
                         PLn("kw", <<"input_symbols">> \o SetToSeq(X.S)), PLn("kw", <<"epsilon", X.eps>>)>>
    [] kind = "pda" -> <<PLn("states", SetToSeq(X.Q)), PLn("final", SetToSeq(X.F)), PLn("initial", <<X.q0>>),
                         PLn("kw", <<"input_symbols">> \o SetToSeq(X.S)), PLn("kw", <<"stack_symbols">> \o SetToSeq(X.G)),
                         PLn("kw", <<"epsilon", X.eps>>)>>
    [] kind = "tm"  -> <<PLn("states", SetToSeq(X.Q)), PLn("initial", <<X.q0>>), PLn("kw", <<"accept", X.qa>>),
                         PLn("kw", <<"reject", X.qr>>), PLn("kw", <<"input_symbols">> \o SetToSeq(X.S)),
                         PLn("kw", <<"tape_symbols">> \o SetToSeq(X.G)), PLn("kw", <<"blank", X.blank>>)>>

RECURSIVE PEdgeLines(_, _, _)
(* all ways to print the edge lines: for every connected pair some order of its labels *)
PEdgeLines(kind, X, ps) ==
  IF ps = {} THEN {<<>>}
  ELSE LET pq == CHOOSE x \in ps : TRUE
       IN {<<PLn("tr", <<pq[1], pq[2]>> \o ord)>> \o rest :
             ord \in PermSeqs(PLabelsOf(kind, X, pq)), rest \in PEdgeLines(kind, X, ps \ {pq})}
(* the texts the printer may produce *)
PTexts(kind, X) == {PHeader(kind, X) \o el : el \in PEdgeLines(kind, X, PPairs(kind, X))}

(* ---------- recognising a recorded text without enumerating the label orders ---------- *)
PNorm(l) ==
  CASE l.k = "tr" -> [k |-> "tr", a |-> <<l.t[1], l.t[2]>>, s |-> {l.t[j] : j \in 3..Len(l.t)}, n |-> Len(l.t) - 2]
    [] l.k = "kw" -> [k |-> "kw", a |-> <<l.t[1]>>, s |-> {l.t[j] : j \in 2..Len(l.t)}, n |-> Len(l.t) - 1]
    [] OTHER -> [k |-> l.k, a |-> <<>>, s |-> ToSet(l.t), n |-> Len(l.t)]
PrintedAsModel(kind, X, lines) ==
  LET h == PHeader(kind, X)
      ps == PPairs(kind, X)
      edge(pq) == LET L == PLabelsOf(kind, X, pq)
                  IN [k |-> "tr", a |-> pq, s |-> L, n |-> Cardinality(L)]
  IN /\ Len(lines) = Len(h) + Cardinality(ps)
     /\ \A i \in 1..Len(h) : PNorm(lines[i]) = PNorm(h[i])
     /\ {PNorm(lines[i]) : i \in (Len(h) + 1)..Len(lines)} = {edge(pq) : pq \in ps}
=============================================================================
