------------------------------- MODULE JPARSE -------------------------------
(* Judge clauses for C17: the outcome of a real parser on a rendered description *)
(* is judged against the declarative meaning of Text.tla.                         *)
EXTENDS Util, FA, PDA, TM, Text

BadZ(name, cond) == IF cond THEN {name} ELSE {}

DescOf(e) == [kind |-> e.kind, lines |-> e.lines, badstate |-> ToSet(e.badstate), badsym |-> ToSet(e.badsym),
              glyph |-> e.glyph]
ParsedOf(e) == CASE e.kind \in {"dfa", "nfa"} -> FaOf(e.parsed)
                 [] e.kind = "pda" -> PdaOf(e.parsed)
                 [] e.kind = "tm" -> TmOf(e.parsed)
ClassOk(e) == CASE e.kind = "dfa" -> ValidDFA(FaOf(e.parsed))
                [] e.kind = "nfa" -> ValidNFA(FaOf(e.parsed))
                [] e.kind = "pda" -> ValidPDA(PdaOf(e.parsed))
                [] e.kind = "tm" -> ValidTM(TmOf(e.parsed))

JParse(e) ==
  LET D == DescOf(e)
      wf == WellFormed(D)
  IN IF e.exc = "Timeout" THEN {"terminates"}
     ELSE (IF wf THEN BadZ("wellformed_parses_exactly", e.exc # "none" \/ ParsedOf(e) # Describes(D))
           ELSE BadZ("malformed_rejected", e.exc = "none"))
          \cup (IF e.exc = "none" THEN BadZ("class_invariants", ~ClassOk(e)) ELSE {})
(* (G) binding: the real parser's outcome equals the operational model's outcome *)
JParserReplay(e) ==
  BadZ("binding_rejects_like_model", (e.model_err = "none") # (e.exc = "none"))
  \cup BadZ("binding_builds_like_model", e.model_err = "none" /\ e.exc = "none" /\ e.actual # e.expected)
=============================================================================
