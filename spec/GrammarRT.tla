------------------------------ MODULE GrammarRT ------------------------------
(* Behavioural model of the grammar round trip (C16): pick a grammar rule by     *)
(* rule, print it (GrammarText!PrintCfg), read the epsilon symbol in one pass,   *)
(* parse the text line by line, build the grammar - and get an equal grammar.    *)
(* Mode = "pinned" exhibits the defect of the pinned revision: a grammar whose   *)
(* terminals include the glyph the printer uses for the empty alternative.       *)
EXTENDS GrammarText
CONSTANTS Vars, Terms, MaxRules, MaxLen, Mode

Syms == {<<"v", X>> : X \in Vars} \cup {<<"t", a>> : a \in Terms}
RECURSIVE SeqsUpTo(_, _)
SeqsUpTo(X, n) == IF n = 0 THEN {<<>>} ELSE LET P == SeqsUpTo(X, n - 1) IN P \cup {Append(s, x) : s \in P, x \in X}
AllRules == Vars \X SeqsUpTo(Syms, MaxLen)
VarsIn(R) == UNION {{Ch(R[i][2][j]) : j \in {j \in DOMAIN R[i][2] : R[i][2][j][1] = "v"}} : i \in DOMAIN R}
(* the domain of the statement: every variable has a rule; alphabet = used terminals; start = first rule's variable *)
InDomain(R) == R # <<>> /\ VarsIn(R) \subseteq {R[i][1] : i \in DOMAIN R}

VARIABLES G, text, pos, eps, rules, ph, result
vars == <<G, text, pos, eps, rules, ph, result>>
Init == G = <<>> /\ text = <<>> /\ pos = 0 /\ eps = "" /\ rules = <<>> /\ ph = "pick1" /\ result = <<>>
(* the grammar is chosen rule by rule (spreads the cases over the workers) *)
PickRule == /\ ph \in {"pick1", "pick"} /\ Len(rules) < MaxRules
            /\ \E r \in AllRules : rules' = Append(rules, r)
            /\ ph' = "pick"
            /\ UNCHANGED <<G, text, pos, eps, result>>
StartPrint == /\ ph = "pick" /\ InDomain(rules)
              /\ G' = BuildCfg(rules)
              /\ text' = PrintCfg(BuildCfg(rules), Mode)
              /\ rules' = <<>> /\ ph' = "eps"
              /\ UNCHANGED <<pos, eps, result>>
ReadEps == /\ ph = "eps"                      \* SimpleCFGParser.parse_epsilon: one pass over all lines
           /\ eps' = ParseEps(text) /\ pos' = 1 /\ ph' = "parse"
           /\ UNCHANGED <<G, text, rules, result>>
ParseLine == /\ ph = "parse" /\ pos <= Len(text)
             /\ rules' = IF text[pos].k = "rule" THEN rules \o ParseRuleLine(text[pos], eps, Terms) ELSE rules
             /\ pos' = pos + 1
             /\ UNCHANGED <<G, text, eps, ph, result>>
Build == /\ ph = "parse" /\ pos = Len(text) + 1
         /\ result' = BuildCfg(rules) /\ ph' = "done"
         /\ UNCHANGED <<G, text, pos, eps, rules>>
Next == PickRule \/ StartPrint \/ ReadEps \/ ParseLine \/ Build
Spec == Init /\ [][Next]_vars

ParseOfPrintIsEqual == ph = "done" => SameGrammar(G, result)
=============================================================================
