-------------------------------- MODULE JTM --------------------------------
(* Judge clauses for the Turing machine property C11: tm_simulate_word IS a     *)
(* trace; it is validated as a behaviour of the reference step function.        *)
EXTENDS Util, TM

BadT(name, cond) == IF cond THEN {name} ELSE {}
ConfOf(c) == [q |-> c[1], tape |-> c[2], head |-> c[3]]

JTmRun(e) ==
  LET T == TmOf(e.tm)
      seq == [i \in DOMAIN e.seq |-> ConfOf(e.seq[i])]
      ref == Run(T, e.w, e.k)
      n == Len(seq)
  IN IF e.exc # "none" THEN {"raised_" \o e.exc}
     ELSE BadT("starts_initial", n = 0 \/ Norm(T, seq[1]) # Norm(T, InitConf(T, e.w)))
          \cup BadT("steps_follow_delta",
                    \E i \in 1..(n - 1) : \/ Halting(T, seq[i].q)
                                          \/ Norm(T, seq[i + 1]) # Norm(T, StepConf(T, Pad(T, seq[i]))))
          \cup BadT("head_on_tape", \E i \in 1..n : seq[i].head < 0)
          \cup BadT("stops_at_first_halt_or_budget", n # Len(ref))
          \cup BadT("verdict_three_valued",
                    \E k \in DOMAIN e.verdicts : e.verdicts[k] # Verdict(T, e.w, e.budgets[k]))
          \cup BadT("agrees_with_verdict",
                    n > 0 /\ \E k \in DOMAIN e.budgets : e.budgets[k] = e.k /\
                       e.verdicts[k] # (IF seq[n].q = T.qa THEN "true" ELSE IF seq[n].q = T.qr THEN "false" ELSE "none"))
=============================================================================
