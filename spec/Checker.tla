------------------------------- MODULE Checker -------------------------------
(* C12 inside the specification, for the product checkers (the only family whose   *)
(* code looks at something else than its criterion states): over every pair of      *)
(* small reference DFAs and EVERY answer automaton of a small universe (including   *)
(* answers with a state that is not a product state), the operational model of       *)
(* check_product_automaton (JCHK!ProductModelOk) says OK only if the criterion holds, *)
(* and says OK to the product automaton itself.                                      *)
EXTENDS Util, FA, JCHK
CONSTANTS Op, Len3

Q1 == {"s0", "s1"}
Q2 == {"t0"}
Sg == {"a"}
Names == {"A", "B", "C"}                       \* answer state names
PairOfName(n) == CASE n = "A" -> <<"s0", "t0">> [] n = "B" -> <<"s1", "t0">> [] n = "C" -> <<"s0", "zz">>

Dfa(Q, d, q0, F) == [Q |-> SetToSeq(Q), S |-> SetToSeq(Sg), T |-> SetToSeq({<<q, a, d[<<q, a>>]>> : q \in Q, a \in Sg}),
                     q0 |-> q0, F |-> SetToSeq(F), eps |-> "~eps~"]

VARIABLES e, stage
vars == <<e, stage>>
Init == e = <<>> /\ stage = 0
PickRefs == /\ stage = 0 /\ stage' = 1
            /\ \E d1 \in [Q1 \X Sg -> Q1], F1 \in SUBSET Q1, F2 \in SUBSET Q2 :
                 e' = [family |-> Op, length |-> Len3,
                       d1 |-> Dfa(Q1, d1, "s0", F1),
                       d2 |-> Dfa(Q2, [x \in Q2 \X Sg |-> "t0"], "t0", F2)]
PickAnswer == /\ stage = 1 /\ stage' = 2
              /\ \E QA \in (SUBSET Names) \ {{}} : \E q0 \in QA, FA \in SUBSET QA, dA \in [QA \X Sg -> QA] :
                   e' = [family |-> e.family, length |-> e.length, d1 |-> e.d1, d2 |-> e.d2,
                         ans |-> Dfa(QA, dA, q0, FA),
                         pairs |-> SetToSeq({<<n, PairOfName(n)[1], PairOfName(n)[2]>> : n \in QA})]
Next == PickRefs \/ PickAnswer
Spec == Init /\ [][Next]_vars

ModelNeverOkForWrongAnswer == stage = 2 => ModelSound(e)
(* the product automaton itself (states A, B with the product's transitions and finals) is accepted *)
FinalOp(x, y) == CASE Op = "union" -> x \/ y [] Op = "intersection" -> x /\ y [] OTHER -> x # y
IsTheProduct ==
  LET A == FaOf(e.ans)
      D1 == FaOf(e.d1)
      D2 == FaOf(e.d2)
  IN /\ A.Q = {"A", "B"} /\ A.q0 = "A"
     /\ \A t \in A.T : PairOfName(t[3]) = <<Delta(D1, PairOfName(t[1])[1], t[2]), "t0">>
     /\ A.F = {n \in {"A", "B"} : FinalOp(PairOfName(n)[1] \in D1.F, "t0" \in D2.F)}
ModelAcceptsTheProduct == (stage = 2 /\ IsTheProduct) => ModelOk(e)
(* and the model is not vacuous: it rejects an answer containing a non-product state *)
ModelRejectsNonProductStates == (stage = 2 /\ "C" \in FaOf(e.ans).Q) => ~ModelOk(e)
=============================================================================
