------------------------------- MODULE NfaRun -------------------------------
(* Model of _nfa_cache + nfa_accepts_word / dfa_accepts_word.                *)
(* Eq[q] = closure of {q}; Eqa[q,a] = union of Eq over delta(q,a); the run    *)
(* starts in Eq[q0] and replaces the current set by the union of Eqa.         *)
(* Init: every NFA over (Q, S) with epsilon, every F, every word up to MaxLen *)
EXTENDS Util, FA
CONSTANTS Q, S, MaxLen, Q0
Eps == "eps"
VARIABLES N, w, cur, i, pc
vars == <<N, w, cur, i, pc>>

Labels == S \cup {Eps}
Eq(A, q) == EClosure(A, {q})
Eqa(A, q, a) == UNION {Eq(A, r) : r \in {t[3] : t \in {t \in A.T : t[1] = q /\ t[2] = a}}}

Init == /\ \E T \in SUBSET (Q \X Labels \X Q) : \E F \in SUBSET Q :
              N = [Q |-> Q, S |-> S, T |-> T, q0 |-> Q0, F |-> F, eps |-> Eps]
        /\ w \in WordsUpTo(S, MaxLen)
        /\ cur = {}
        /\ i = 0
        /\ pc = "cache"

BuildCache == /\ pc = "cache"
              /\ cur' = Eq(N, N.q0)
              /\ pc' = "run"
              /\ UNCHANGED <<N, w, i>>

StepRun == /\ pc = "run" /\ i < Len(w)
           /\ cur' = UNION {Eqa(N, q, w[i + 1]) : q \in cur}
           /\ i' = i + 1
           /\ UNCHANGED <<N, w, pc>>

Finish == /\ pc = "run" /\ i = Len(w)
          /\ pc' = "done"
          /\ UNCHANGED <<N, w, cur, i>>

Next == BuildCache \/ StepRun \/ Finish
Spec == Init /\ [][Next]_vars

Verdict == cur \cap N.F # {}
(* the definition: an accepting run exists in the configuration graph *)
VerdictIsDefinition == pc = "done" => (Verdict <=> NfaAccepts(N, w))
(* loop invariant: cur is exactly the set of states reachable on the prefix read *)
CurIsReachable ==
  pc \in {"run", "done"} =>
     cur = {q \in Q : <<q, i>> \in ReachSet(ConfEdges(N, SubSeq(w, 1, i)), {<<N.q0, 0>>})}
=============================================================================
