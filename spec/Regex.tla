------------------------------- MODULE Regex -------------------------------
(* Reference semantics of regular expressions.                               *)
(* A regexp is a nested tuple: <<"zero">>, <<"one">>, <<"sym", a>>,           *)
(* <<"star", r>>, <<"sum", r1, r2>>, <<"cat", r1, r2>>.                       *)
EXTENDS Util, FA

RECURSIVE Matches(_, _), StarPos(_, _, _, _)
(* denotational matching; star by a position dynamic programme:              *)
(*  0 \in P;  j \in P if some i < j, i \in P, r matches w[i+1..j];             *)
(*  w \in L(r* ) iff |w| \in P  (handles nullable operands, no self-recursion)  *)
StarPos(r, w, j, P) ==
  IF j > Len(w) THEN P
  ELSE LET hit == \E i \in P : i < j /\ Matches(r, SubSeq(w, i + 1, j))
       IN StarPos(r, w, j + 1, IF hit THEN P \cup {j} ELSE P)

Matches(r, w) ==
  CASE r[1] = "zero" -> FALSE
    [] r[1] = "one"  -> w = <<>>
    [] r[1] = "sym"  -> w = <<r[2]>>
    [] r[1] = "sum"  -> Matches(r[2], w) \/ Matches(r[3], w)
    [] r[1] = "cat"  -> \E k \in 0..Len(w) :
                           Matches(r[2], SubSeq(w, 1, k)) /\ Matches(r[3], SubSeq(w, k + 1, Len(w)))
    [] r[1] = "star" -> Len(w) \in StarPos(r[2], w, 1, {0})

RECURSIVE Nodes(_)
Nodes(r) == CASE r[1] \in {"zero", "one", "sym"} -> 1
              [] r[1] = "star" -> 1 + Nodes(r[2])
              [] OTHER -> 1 + Nodes(r[2]) + Nodes(r[3])

RECURSIVE Syms(_)
Syms(r) == CASE r[1] \in {"zero", "one"} -> {}
             [] r[1] = "sym" -> {r[2]}
             [] r[1] = "star" -> Syms(r[2])
             [] OTHER -> Syms(r[2]) \cup Syms(r[3])

ReLangUpTo(r, S, n) == {w \in WordsUpTo(S, n) : Matches(r, w)}

-----------------------------------------------------------------------------
(* Glushkov position automaton: regexp questions become automaton questions  *)
(* and are decided exactly by FaEquiv.                                       *)
RECURSIVE Glu(_, _)
Glu(r, base) ==
  CASE r[1] = "zero" -> [null |-> FALSE, first |-> {}, last |-> {}, follow |-> {}, n |-> 0, syms |-> <<>>]
    [] r[1] = "one"  -> [null |-> TRUE, first |-> {}, last |-> {}, follow |-> {}, n |-> 0, syms |-> <<>>]
    [] r[1] = "sym"  -> [null |-> FALSE, first |-> {base + 1}, last |-> {base + 1}, follow |-> {}, n |-> 1,
                         syms |-> <<r[2]>>]
    [] r[1] = "star" -> LET g == Glu(r[2], base)
                        IN [g EXCEPT !.null = TRUE, !.follow = g.follow \cup (g.last \X g.first)]
    [] r[1] = "sum"  -> LET g1 == Glu(r[2], base)
                            g2 == Glu(r[3], base + g1.n)
                        IN [null |-> g1.null \/ g2.null, first |-> g1.first \cup g2.first,
                            last |-> g1.last \cup g2.last, follow |-> g1.follow \cup g2.follow,
                            n |-> g1.n + g2.n, syms |-> g1.syms \o g2.syms]
    [] r[1] = "cat"  -> LET g1 == Glu(r[2], base)
                            g2 == Glu(r[3], base + g1.n)
                        IN [null |-> g1.null /\ g2.null,
                            first |-> g1.first \cup (IF g1.null THEN g2.first ELSE {}),
                            last |-> g2.last \cup (IF g2.null THEN g1.last ELSE {}),
                            follow |-> g1.follow \cup g2.follow \cup (g1.last \X g2.first),
                            n |-> g1.n + g2.n, syms |-> g1.syms \o g2.syms]

Glushkov(r) ==
  LET g == Glu(r, 0)
  IN [Q |-> 0..g.n, S |-> ToSet(g.syms),
      T |-> {<<0, g.syms[p], p>> : p \in g.first} \cup {<<e[1], g.syms[e[2]], e[2]>> : e \in g.follow},
      q0 |-> 0, F |-> g.last \cup (IF g.null THEN {0} ELSE {}), eps |-> "~noeps~"]

ReEquiv(r1, r2) == FaEquiv(Glushkov(r1), Glushkov(r2))
ReEquivFa(r, A) == FaEquiv(Glushkov(r), A)
=============================================================================
