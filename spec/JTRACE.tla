-------------------------------- MODULE JTRACE --------------------------------
(* (T) Fine-grained trace validation.  The hooks of gambatools/_verif.py report    *)
(* every choice an algorithm made (which element the set yielded) and the state     *)
(* after it.  An observed execution is a behaviour of the algorithm model iff every *)
(* reported choice was enabled and every reported state equals the result of the    *)
(* model's step function (Steps.tla - the same operators the models' actions use).  *)
(* A mismatch means model and code have drifted apart: reported as a binding_       *)
(* clause (counted, shown, never a property violation by itself).                   *)
EXTENDS Util, FA, CFG, PDA, Steps, RegexCode

BadB(name, cond) == IF cond THEN {name} ELSE {}
SetOfSets(x) == {ToSet(b) : b \in ToSet(x)}
WSet(x) == {<<ToSet(w[1]), w[2]>> : w \in ToSet(x)}

(* epsilon_closure: start set, then pops <<q, result, todo>> *)
JEcTrace(e) ==
  LET A == FaOf(e.fa)
      E == EpsEdges(A)
      n == Len(e.pops)
      Res(k) == IF k = 0 THEN ToSet(e.start) ELSE ToSet(e.pops[k].result)
      Todo(k) == IF k = 0 THEN ToSet(e.start) ELSE ToSet(e.pops[k].todo)
  IN BadB("binding_ec_choice_enabled", \E k \in 1..n : e.pops[k].q \notin Todo(k - 1))
     \cup BadB("binding_ec_step_is_model_step",
               \E k \in 1..n : \/ Res(k) # EcResult(E, Res(k - 1), e.pops[k].q)
                               \/ Todo(k) # EcTodo(E, Res(k - 1), Todo(k - 1), e.pops[k].q))
     \cup BadB("binding_ec_runs_to_completion", Todo(n) # {})
     \cup BadB("binding_ec_returns_final_state", ToSet(e.res) # Res(n))

(* dfa_to_gnfa + gnfa_minimize: the labels after dfa_to_gnfa, the ripped states in order, the final label *)
JRipTrace(e) ==
  LET D == FaOf(e.fa)
      qs == IF "qs" \in DOMAIN e THEN e.qs ELSE "start"       \* the names the two added states got
      qa == IF "qa" \in DOMAIN e THEN e.qa ELSE "accept"
      Qg0 == D.Q \cup {qs, qa}
      Given(p, q) == {i \in DOMAIN e.gnfa : e.gnfa[i][1] = p /\ e.gnfa[i][2] = q}
      lab0 == [pq \in Qg0 \X Qg0 |-> IF Given(pq[1], pq[2]) = {} THEN Zero
                                       ELSE e.gnfa[CHOOSE i \in Given(pq[1], pq[2]) : TRUE][3]]
      Edge(p, q) == {t[2] : t \in {t \in D.T : t[1] = p /\ t[3] = q}}
      InitialOk(p, q) ==
        LET t == lab0[<<p, q>>]
        IN IF p = qs THEN t = (IF q = D.q0 THEN One ELSE Zero)
           ELSE IF q = qa THEN t = (IF p \in D.F THEN One ELSE Zero)
           ELSE IF p = qa \/ q = qs THEN t = Zero
           ELSE IF Edge(p, q) = {} THEN t = Zero
           ELSE ToSet(SumSyms(t)) = Edge(p, q) /\ Len(SumSyms(t)) = Cardinality(Edge(p, q))
      n == Len(e.rips)
      RECURSIVE St(_)
      St(k) == IF k = 0 THEN <<Qg0, lab0>>
               ELSE LET s == St(k - 1) IN <<s[1] \ {e.rips[k]}, RipLabels(s[1], s[2], e.rips[k], qs, qa)>>
      fin == St(n)
  IN BadB("binding_rip_added_states_are_new", qs \in D.Q \/ qa \in D.Q \/ qs = qa)
     \cup BadB("binding_rip_initial_labels", \E p, q \in Qg0 : ~InitialOk(p, q))
     \cup BadB("binding_rip_choice_enabled",
               \/ ToSet(e.rips) # D.Q \/ n # Cardinality(D.Q))
     \cup (IF ToSet(e.rips) = D.Q /\ n = Cardinality(D.Q)
           THEN BadB("binding_rip_step_is_model_step", fin[2][<<qs, qa>>] # e.res)
           ELSE {})
     \cup BadB("equivalent_exact", ~ReEquivFa(e.res, D))

(* pda_epsilon_closure: start configurations, the limit, then pops <<src, |result|, todo>>, the returned set *)
JPcTrace(e) ==
  LET P == PdaOf(e.pda)
      n == Len(e.pops)
      Conf(c) == <<c[1], c[2]>>
      Confs(x) == {Conf(x[i]) : i \in DOMAIN x}
      Src(k) == Conf(e.pops[k].src)
      Todo(k) == IF k = 0 THEN Confs(e.start) ELSE Confs(e.pops[k].todo)
      RECURSIVE Res(_)
      Res(k) == IF k = 0 THEN Confs(e.start) ELSE PcResult(P, Res(k - 1), Src(k))
  IN BadB("binding_pc_choice_enabled", \E k \in 1..n : Src(k) \notin Todo(k - 1))
     \cup BadB("binding_pc_step_is_model_step",
               \E k \in 1..n : \/ Todo(k) # PcTodo(P, Res(k - 1), Todo(k - 1), Src(k))
                               \/ e.pops[k].nresult # Cardinality(Res(k)))
     \cup BadB("binding_pc_stops_at_limit_or_exhaustion",
               n > e.limit \/ (IF "npops" \in DOMAIN e THEN e.npops > e.limit ELSE FALSE) \/ ~(Todo(n) = {} \/ n = e.limit))
     \cup BadB("binding_pc_returns_final_state",
               (IF "npops" \in DOMAIN e THEN e.npops <= e.limit ELSE TRUE) /\ Confs(e.res) # Res(n))

(* dfa_hopfcroft: states[k] = (P, W) before the k-th pop, pops[k] = <<W, a>>, final P *)
JHopTrace(e) ==
  LET D == FaOf(e.fa)
      n == Len(e.pops)
      P(k) == SetOfSets(e.states[k].P)
      W(k) == WSet(e.states[k].W)
      Pop(k) == <<ToSet(e.pops[k].W), e.pops[k].a>>
  IN BadB("binding_hop_initial_state", n >= 1 /\ (P(1) # HopInitP(D) \/ W(1) # HopInitW(D)))
     \cup BadB("binding_hop_choice_enabled", \E k \in 1..n : Pop(k) \notin W(k))
     \cup BadB("binding_hop_step_is_model_step",
               \E k \in 1..(n - 1) : P(k + 1) # HopP(D, P(k), Pop(k)) \/ W(k + 1) # HopW(D, P(k), W(k), Pop(k)))
     \cup BadB("binding_hop_final_partition",
               IF n = 0 THEN SetOfSets(e.final) # HopInitP(D) \/ HopInitW(D) # {}
               ELSE SetOfSets(e.final) # HopP(D, P(n), Pop(n)) \/ HopW(D, P(n), W(n), Pop(n)) # {})

(* dfa_isomorphic1: the picked pairs, the answer *)
RECURSIVE IsoReplay(_, _, _, _)
IsoReplay(D1, D2, st, picks) ==
  IF picks = <<>> THEN [st |-> st, ok |-> TRUE]
  ELSE LET pr == <<Head(picks)[1], Head(picks)[2]>>
       IN IF st.result # "none" \/ pr \notin st.todo THEN [st |-> st, ok |-> FALSE]
          ELSE IsoReplay(D1, D2, IsoStep(D1, D2, st, pr), Tail(picks))
JIsoTrace(e) ==
  LET D1 == FaOf(e.d1)
      D2 == FaOf(e.d2)
      r == IsoReplay(D1, D2, IsoInit(D1, D2), e.picks)
  IN BadB("binding_iso_choices_enabled", ~r.ok)
     \cup BadB("binding_iso_answer_is_model_answer", r.ok /\ r.st.result # e.res)

(* cfg_eliminate_unit_rules: the order in which the variables were visited *)
JUnitTrace(e) ==
  LET R == e.pre.R
      exp == StartInFront(UnitFinish(UnitVisitAll(R, R, e.order)), e.pre.start)
  IN BadB("binding_unit_order_is_permutation", ToSet(e.order) # ToSet(e.pre.V) \/ Len(e.order) # Len(e.pre.V))
     \cup BadB("binding_unit_result_is_model_result", exp # e.res.R)
(* nfa_find_epsilon_path: pops and examined edges in order, the returned path *)
RECURSIVE PathReplay(_, _, _, _)
PathReplay(E, f, st, steps) ==
  IF steps = <<>> THEN [st |-> st, ok |-> TRUE]
  ELSE LET x == Head(steps)
       IN IF st.found THEN [st |-> st, ok |-> FALSE]                       \* nothing may follow the discovery of f
          ELSE IF x[1] = "pop"
               THEN IF x[2] \notin st.todo THEN [st |-> st, ok |-> FALSE]
                    ELSE PathReplay(E, f, PathPop(st, x[2]), Tail(steps))
               ELSE IF x[2] # st.cur \/ <<x[2], x[3]>> \notin E THEN [st |-> st, ok |-> FALSE]
                    ELSE PathReplay(E, f, PathEdge(st, f, x[3]), Tail(steps))
JPathTrace(e) ==
  LET A == FaOf(e.fa)
      E == EpsEdges(A)
      R == ToSet(e.R)
      r == PathReplay(E, e.f, PathInit(R), e.steps)
  IN BadB("binding_path_choices_enabled", ~r.ok)
     \cup BadB("binding_path_result_is_model_result",
               r.ok /\ (IF e.f \in R THEN e.res # <<e.f>> \/ e.steps # <<>>
                        ELSE IF r.st.found THEN e.res # PathWalk(r.st.bp, R, e.f, Cardinality(A.Q) + 1)
                        ELSE e.res # <<"~none~">> \/ r.st.todo # {}))
(* (G) a schedule enumerated by TLC (Schedules.tla), forced onto the real code: every scheduled   *)
(* choice was available to the code, and the code ends in the state the model ends in           *)
JSchedReplay(e) ==
  BadB("binding_schedule_followed", ~e.followed)
  \cup BadB("binding_final_state_is_model_state", e.followed /\ e.actual # e.expected)
=============================================================================
