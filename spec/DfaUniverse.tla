---------------------------- MODULE DfaUniverse ----------------------------
(* Shared by the DFA algorithm models: Init chooses any DFA over (Q, S).     *)
EXTENDS Util, FA
CONSTANTS Q, S, Q0

DfaOf(d, F) == [Q |-> Q, S |-> S, T |-> {<<q, a, d[<<q, a>>]>> : q \in Q, a \in S},
                q0 |-> Q0, F |-> F, eps |-> "~none~"]
AllDfas == {DfaOf(d, F) : d \in [Q \X S -> Q], F \in SUBSET Q}

(* TLC generates the successors of one state - and checks the invariants on    *)
(* them - in a single thread.  The models therefore choose their input in two  *)
(* steps (first F, then delta) so that the cases spread over all workers.      *)
DfasWithF(F) == {DfaOf(d, F) : d \in [Q \X S -> Q]}
DummyDfa == DfaOf([p \in Q \X S |-> Q0], {})

NerodePartition(D) == {{q \in D.Q : StatesEquivalent(D, p, q)} : p \in D.Q}

IsPartition(P, X) == /\ UNION P = X
                     /\ {} \notin P
                     /\ \A A, B \in P : A # B => A \cap B = {}

(* the quotient automaton assembled from a partition the way all three        *)
(* minimisers do it (edges between blocks that are connected by a transition) *)
BlockDfa(D, P) ==
  [Q |-> P, S |-> D.S,
   T |-> {<<B1, a, B2>> \in P \X D.S \X P : \E q \in B1 : Delta(D, q, a) \in B2},
   q0 |-> CHOOSE B \in P : D.q0 \in B, F |-> {B \in P : B \cap D.F # {}}, eps |-> "~none~"]

ResultOk(D, M) ==
  /\ ValidDFA(M)
  /\ M.S = D.S
  /\ FaEquiv(D, M)
  /\ PairwiseDistinguishable(M)
  /\ NerodeClasses(D, Reach(D)) <= Cardinality(M.Q)
  /\ Cardinality(M.Q) <= NerodeClasses(D, D.Q)
=============================================================================
