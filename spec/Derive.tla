-------------------------------- MODULE Derive --------------------------------
(* Model of cfg_algorithms.cfg_derive_word: the two worklist loops (tree        *)
(* construction, extraction of the sentential forms) one iteration per action,   *)
(* with the step functions of DeriveSteps.tla.  Init: every list of at most      *)
(* MaxRules CNF rules over V = {S, A, B} / {a, b} in EVERY order (find_rule takes *)
(* the first alternative that fits), every word of the language up to MaxLen,     *)
(* both modes.  The derivation is a valid leftmost / rightmost derivation of w.   *)
EXTENDS DeriveSteps
CONSTANTS MaxRules, MaxLen
V == {"S", "A", "B"}
Sig == {"a", "b"}
Tm(a) == <<"t", a>>
Vr(x) == <<"v", x>>
AllRules == {<<l, <<Tm(a)>>>> : l \in V, a \in Sig}
            \cup {<<l, <<Vr(x), Vr(y)>>>> : l \in V, x \in {"A", "B"}, y \in {"A", "B"}}

VARIABLES R, w, mode, ph, bs, es
vars == <<R, w, mode, ph, bs, es>>
G == [V |-> V, S |-> Sig, R |-> R, start |-> "S"]

Init == R = <<>> /\ w = <<>> /\ mode = "leftmost" /\ ph = "rules" /\ bs = <<>> /\ es = <<>>
AddRule == /\ ph = "rules" /\ Len(R) < MaxRules
           /\ \E r \in AllRules : r \notin ToSet(R) /\ R' = Append(R, r)
           /\ UNCHANGED <<w, mode, ph, bs, es>>
PickWord == /\ ph = "rules" /\ R # <<>>
            /\ \E u \in WordsUpTo(Sig, MaxLen) \ {<<>>}, m \in {"leftmost", "rightmost"} :
                  /\ CfgAccepts(G, u)
                  /\ w' = u /\ mode' = m /\ bs' = BuildInit(G, u)
            /\ ph' = "build" /\ UNCHANGED <<R, es>>
Build == /\ ph = "build" /\ bs.todo # <<>>
         /\ bs' = BuildStep(G, w, bs)
         /\ UNCHANGED <<R, w, mode, ph, es>>
StartExtract == /\ ph = "build" /\ bs.todo = <<>>
                /\ ph' = "extract" /\ es' = ExtractInit(bs.nodes)
                /\ UNCHANGED <<R, w, mode, bs>>
Extract == /\ ph = "extract" /\ es.todo # <<>>
           /\ es' = ExtractStep(bs.nodes, mode = "leftmost", es)
           /\ UNCHANGED <<R, w, mode, ph, bs>>
Finish == /\ ph = "extract" /\ es.todo = <<>> /\ ph' = "done" /\ UNCHANGED <<R, w, mode, bs, es>>
Next == AddRule \/ PickWord \/ Build \/ StartExtract \/ Extract \/ Finish
Spec == Init /\ [][Next]_vars /\ WF_vars(Build \/ StartExtract \/ Extract \/ Finish)

(* every inner node of a word of the language finds its split (the tree is complete) *)
TreeComplete == ph \in {"extract", "done"} => \A i \in DOMAIN bs.nodes : bs.nodes[i].x[1] = "v" => bs.nodes[i].ch # <<>>
(* the node whose variable is replaced really is the leftmost / rightmost variable of the sentential form *)
DerivationValid == ph = "done" => ValidDerivation(G, w, es.result, mode)
StepFunctionsAgree == ph = "done" => es.result = ModelDerivation(G, w, mode)
Terminates == (ph = "build") ~> (ph = "done")
=============================================================================
