--------------------------------- MODULE Cyk ---------------------------------
(* Model of cfg_algorithms.cfg_cyk_matrix (and the membership test built on it). *)
(* The table X is filled diagonal first, then span by span, one cell per action; *)
(* a cell is the union over split points k and pairs (B, C) of X[i,k] x X[k+1,j].  *)
(* Init: every CNF grammar with at most MaxRules rules over V = {S, A, B},          *)
(* terminals {a, b}, and every non-empty word up to MaxLen.                         *)
EXTENDS Util, CFG
CONSTANTS MaxRules, MaxLen
V == {"S", "A", "B"}
Sig == {"a", "b"}
Tm(a) == <<"t", a>>
Vr(x) == <<"v", x>>
AllRules == {<<l, <<Tm(a)>>>> : l \in V, a \in Sig}
            \cup {<<l, <<Vr(x), Vr(y)>>>> : l \in V, x \in {"A", "B"}, y \in {"A", "B"}}
            \cup {<<"S", <<>>>>}

VARIABLES Rs, w, X, todo, stage
vars == <<Rs, w, X, todo, stage>>
G == [V |-> V, S |-> Sig, R |-> <<>>, start |-> "S"]
GR == [G EXCEPT !.R = SetToSeq(Rs)]

(* cells in the order the code fills them: diagonal, then m = 1 .. n-1, i ascending *)
RECURSIVE CellOrder(_, _, _)
CellOrder(n, m, i) == IF m >= n THEN <<>>
                      ELSE IF i >= n - m THEN CellOrder(n, m + 1, 0)
                      ELSE <<<<i, i + m>>>> \o CellOrder(n, m, i + 1)

Init == Rs = {} /\ w = <<>> /\ X = <<>> /\ todo = <<>> /\ stage = 0
PickW == /\ stage = 0 /\ stage' = 1
         /\ w' \in WordsUpTo(Sig, MaxLen) \ {<<>>}
         /\ UNCHANGED <<Rs, X, todo>>
PickG == /\ stage = 1 /\ stage' = 2
         /\ Rs' \in {r \in SUBSET AllRules : Cardinality(r) <= MaxRules /\ r # {}}
         /\ X' = [c \in {} |-> {}]
         /\ todo' = CellOrder(Len(w), 0, 0)
         /\ UNCHANGED w

Produces(A, rhs) == <<A, rhs>> \in Rs
Cell ==
  /\ stage = 2 /\ todo # <<>>
  /\ LET c == Head(todo)
         i == c[1]
         j == c[2]
         val == IF i = j THEN {A \in V : Produces(A, <<Tm(w[i + 1])>>)}
                ELSE UNION {{A \in V : \E B \in X[<<i, k>>], C \in X[<<k + 1, j>>] : Produces(A, <<Vr(B), Vr(C)>>)}
                            : k \in i..(j - 1)}
     IN X' = [d \in DOMAIN X \cup {c} |-> IF d = c THEN val ELSE X[d]]
  /\ todo' = Tail(todo)
  /\ UNCHANGED <<Rs, w, stage>>

Next == PickW \/ PickG \/ Cell
Spec == Init /\ [][Next]_vars

SetToSeqOk == TRUE
CellsExact == stage = 2 => \A c \in DOMAIN X : X[c] = CellSem(GR, w, c[1] + 1, c[2] + 1)
OwnAnswerPassesCykChecker == (stage = 2 /\ todo = <<>>) => \A c \in DOMAIN X : X[c] = CellSem(GR, w, c[1] + 1, c[2] + 1)
VerdictExact == (stage = 2 /\ todo = <<>>) => (("S" \in X[<<0, Len(w) - 1>>]) <=> CfgAccepts(GR, w))
=============================================================================
