--------------------------------- MODULE TM ---------------------------------
(* Reference semantics of deterministic Turing machines, straight from the     *)
(* statement of C11: a missing transition is a move to the rejecting state that *)
(* keeps the symbol and moves right; a left move at the left end stays put; the *)
(* tape grows by one blank when the head steps off its end.                     *)
(* T = [Q, S, G, T, q0, qa, qr, blank], T.T a set of <<p, a, q, b, d>>.          *)
(* A configuration is [q, tape, head] with a 0-based head (as the library).     *)
EXTENDS Util

TmOf(j) == [Q |-> ToSet(j.Q), S |-> ToSet(j.S), G |-> ToSet(j.G), T |-> ToSet(j.T),
            q0 |-> j.q0, qa |-> j.qa, qr |-> j.qr, blank |-> j.blank]

ValidTM(T) ==
  /\ T.q0 \in T.Q /\ T.qa \in T.Q /\ T.qr \in T.Q /\ T.qa # T.qr
  /\ T.blank \notin T.S /\ T.blank \in T.G /\ T.S \subseteq T.G
  /\ \A t \in T.T : t[1] \in T.Q /\ t[2] \in T.G /\ t[3] \in T.Q /\ t[4] \in T.G /\ t[5] \in {"L", "R"}

Halting(T, q) == q \in {T.qa, T.qr}
InitConf(T, w) == [q |-> T.q0, tape |-> IF w = <<>> THEN <<T.blank>> ELSE w, head |-> 0]

StepConf(T, c) ==
  LET a == c.tape[c.head + 1]
      hits == {t \in T.T : t[1] = c.q /\ t[2] = a}
      tr == IF hits = {} THEN <<c.q, a, T.qr, a, "R">> ELSE CHOOSE t \in hits : TRUE
      tape1 == [c.tape EXCEPT ![c.head + 1] = tr[4]]
      head1 == IF tr[5] = "L" THEN (IF c.head = 0 THEN 0 ELSE c.head - 1) ELSE c.head + 1
  IN [q |-> tr[3], tape |-> IF head1 = Len(tape1) THEN Append(tape1, T.blank) ELSE tape1, head |-> head1]

(* The same configuration can be recorded with more or fewer blanks at the right end of the tape (the tape is    *)
(* blank from there on anyway): configurations are compared after normalisation - the tape reaches at least the  *)
(* head and carries no blank beyond both the head and the last non-blank cell.                                   *)
RECURSIVE PadTo(_, _, _)
PadTo(tape, blank, n) == IF Len(tape) >= n THEN tape ELSE PadTo(Append(tape, blank), blank, n)
RECURSIVE Trim(_, _, _)
Trim(tape, blank, minlen) ==
  IF Len(tape) > minlen /\ tape[Len(tape)] = blank THEN Trim(SubSeq(tape, 1, Len(tape) - 1), blank, minlen) ELSE tape
Pad(T, c) == [c EXCEPT !.tape = PadTo(c.tape, T.blank, c.head + 1)]
Norm(T, c) == [c EXCEPT !.tape = Trim(PadTo(c.tape, T.blank, c.head + 1), T.blank, c.head + 1)]

RECURSIVE RunFromConf(_, _, _)
(* the configuration sequence: stops at the first halting state or after k steps *)
RunFromConf(T, c, k) ==
  IF Halting(T, c.q) \/ k = 0 THEN <<c>> ELSE <<c>> \o RunFromConf(T, StepConf(T, c), k - 1)
Run(T, w, k) == RunFromConf(T, InitConf(T, w), k)
Verdict(T, w, k) ==
  LET r == Run(T, w, k)
      q == r[Len(r)].q
  IN IF q = T.qa THEN "true" ELSE IF q = T.qr THEN "false" ELSE "none"
TmLangUpTo(T, n, k) == {w \in WordsUpTo(T.S, n) : Verdict(T, w, k) = "true"}
Deterministic(T) == \A t1, t2 \in T.T : (t1[1] = t2[1] /\ t1[2] = t2[2]) => t1 = t2
=============================================================================
