------------------------------- MODULE Util -------------------------------
(* Shared helpers.  Values arrive from JSON: sets are sequences (sorted     *)
(* arrays), words are sequences of one-character strings.                   *)
EXTENDS Naturals, Sequences, FiniteSets, TLC

ToSet(s) == {s[i] : i \in DOMAIN s}

Max2(a, b) == IF a >= b THEN a ELSE b
Min2(a, b) == IF a <= b THEN a ELSE b

(* Least set containing S and closed under the edge relation E (pairs).     *)
RECURSIVE ReachSet(_, _)
ReachSet(E, S) ==
  LET N == S \cup {e[2] : e \in {e \in E : e[1] \in S}}
  IN IF N = S THEN S ELSE ReachSet(E, N)

(* all words over alphabet S (a set) of length exactly n / at most n        *)
RECURSIVE WordsOfLen(_, _)
WordsOfLen(S, n) ==
  IF n = 0 THEN {<<>>}
  ELSE {Append(w, a) : w \in WordsOfLen(S, n - 1), a \in S}

WordsUpTo(S, n) == UNION {WordsOfLen(S, k) : k \in 0..n}

SubWord(w, i, j) == SubSeq(w, i, j)       \* 1-based inclusive; i > j gives <<>>

Rev(w) == [i \in 1..Len(w) |-> w[Len(w) + 1 - i]]

IsPrefixOf(u, w) == Len(u) <= Len(w) /\ SubSeq(w, 1, Len(u)) = u
IsProperPrefixOf(u, w) == Len(u) < Len(w) /\ SubSeq(w, 1, Len(u)) = u

RECURSIVE SetToSeq(_)
SetToSeq(X) == IF X = {} THEN <<>> ELSE LET x == CHOOSE x \in X : TRUE IN <<x>> \o SetToSeq(X \ {x})

(* all subsets of S with at most k elements (SUBSET S would enumerate 2^|S| sets) *)
RECURSIVE SubsetsUpTo(_, _)
SubsetsUpTo(S, k) == IF k = 0 THEN {{}}
                     ELSE LET P == SubsetsUpTo(S, k - 1) IN P \cup {T \cup {x} : T \in P, x \in S}

(* all orderings of a finite set, as sequences (n! of them, built recursively) *)
RECURSIVE PermSeqs(_)
PermSeqs(X) == IF X = {} THEN {<<>>} ELSE UNION {{<<x>> \o p : p \in PermSeqs(X \ {x})} : x \in X}

SeqIsSet(s) == \A i, j \in DOMAIN s : i # j => s[i] # s[j]
=============================================================================
