-------------------------------- MODULE JCFG --------------------------------
(* Judge clauses for the grammar properties C07 C08 (and the CFG part of C15)  *)
EXTENDS Util, CFG, ChomskySteps, DeriveSteps

BadG(name, cond) == IF cond THEN {name} ELSE {}

JCfgAccepts(e) ==
  LET G == CfgOf(e.cfg)
      acc == ToSet(e.accepted)
  IN IF e.exc # "none" THEN {"raised_" \o e.exc}
     ELSE BadG("derives_iff_accepts", \E w \in WordsUpTo(G.S, e.n) : (w \in acc) # CfgAccepts(G, w))

JCykMatrix(e) ==
  LET G == CfgOf(e.cfg)
  IN IF e.exc # "none" THEN {"raised_" \o e.exc}
     ELSE BadG("cells_exact",
               \/ \E c \in ToSet(e.cells) : ToSet(c[3]) # CellSem(G, e.w, c[1] + 1, c[2] + 1)
               \/ \E i \in 0..(Len(e.w) - 1) : \E j \in i..(Len(e.w) - 1) :
                     ~\E c \in ToSet(e.cells) : c[1] = i /\ c[2] = j)

(* C08 *)
RhsVars(r) == {r[2][k][2] : k \in {k \in DOMAIN r[2] : IsVar(r[2][k])}}
Post(G0, G, k, start0) ==
  CASE k = 1 -> /\ G.start \notin G0.V
                /\ \A r \in Rules(G) : G.start \notin RhsVars(r)
                /\ <<G.start, <<<<"v", G0.start>>>>>> \in Rules(G)
    [] k = 2 -> \A r \in Rules(G) : IsEpsRule(r) => r[1] = G.start
    [] k = 3 -> \A r \in Rules(G) : ~IsUnitRule(r)
    [] k = 4 -> \A r \in Rules(G) : Len(r[2]) <= 2
    [] k = 5 -> \A r \in Rules(G) : Len(r[2]) >= 2 => \A i \in DOMAIN r[2] : IsVar(r[2][i])
    [] OTHER -> TRUE
(* how many variables the phase has to introduce *)
RECURSIVE SumSeq(_)
SumSeq(s) == IF s = <<>> THEN 0 ELSE Head(s) + SumSeq(Tail(s))
ExpectedNew(G0, k) ==
  CASE k = 1 -> 1
    [] k = 4 -> SumSeq([i \in DOMAIN G0.R |-> IF Len(G0.R[i][2]) > 2 THEN Len(G0.R[i][2]) - 2 ELSE 0])
    [] k = 5 -> Cardinality(UNION {{r[2][i][2] : i \in {i \in DOMAIN r[2] : ~IsVar(r[2][i])}}
                                   : r \in {r \in Rules(G0) : Len(r[2]) >= 2}})
    [] OTHER -> 0

JChomskyPhase(e) ==
  IF e.exc # "none" THEN {"raised_" \o e.exc} \cup BadG("input_unchanged", e.post # e.pre)
  ELSE
  LET G0 == CfgOf(e.pre)
      G == CfgOf(e.res)
      S == G0.S
  IN BadG("valid_grammar", ~ValidCFG(G))
     \cup BadG("postcondition", ~Post(G0, G, e.phase, G0.start))
     \cup BadG("language_equal_up_to_n", CfgLangUpTo(G, S, e.n) # CfgLangUpTo(G0, S, e.n))
     (* "every variable it introduces is distinct from all existing ones": had an introduced variable been an  *)
     (* existing one, that variable would have gained the rules meant for the new one.  So in the phases that   *)
     (* only ADD helper variables (1, 4, 5) no variable of the input gains a right-hand side, and the new start  *)
     (* variable is not a variable of the input.  (How MANY variables a phase introduces is not prescribed: an   *)
     (* implementation may share helper variables between rules or re-use a variable whose only rule is B -> a.) *)
     \cup BadG("fresh_distinct",
               LET Rhs(H, X) == {r[2] : r \in {r \in Rules(H) : r[1] = X}}
               IN \/ (e.phase = 1 /\ G.start \in G0.V)
                  \/ (e.phase \in {1, 4, 5} /\ \E X \in G0.V : Cardinality(Rhs(G, X)) > Cardinality(Rhs(G0, X))))
     \cup BadG("same_terminals", G.S # G0.S)
     \cup BadG("input_unchanged", e.post # e.pre)
     (* binding: the deterministic phases give exactly the model's grammar - variables, start and the rule LIST *)
     \cup (IF e.phase \in {1, 2, 5} \/ (e.phase = 4 /\ "share" \in DOMAIN e)
           THEN LET M == CASE e.phase = 1 -> AddStart(G0, "S")
                           [] e.phase = 2 -> RemoveEps(G0)
                           [] e.phase = 4 -> LengthTwo(G0, e.share)
                           [] e.phase = 5 -> ElimTerminals(G0)
                IN BadG("binding_phase_is_model_phase", M.V # G.V \/ M.R # G.R \/ M.start # G.start)
           ELSE {})

JToChomsky(e) ==
  IF e.exc # "none" THEN {"raised_" \o e.exc} \cup BadG("input_unchanged", e.post # e.pre)
  ELSE
  LET G0 == CfgOf(e.pre)
      G == CfgOf(e.res)
  IN BadG("valid_grammar", ~ValidCFG(G))
     \cup BadG("is_cnf", e.full /\ ~IsCNF(G))
     \cup BadG("language_equal_up_to_n", CfgLangUpTo(G, G0.S, e.n) # CfgLangUpTo(G0, G0.S, e.n))
     \cup BadG("input_unchanged", e.post # e.pre)

(* C15, grammar half *)
JDerive(e) ==
  LET G == CfgOf(e.cfg)
      gen == CfgAccepts(G, e.w)
  IN IF e.exc = "Timeout" THEN {"terminates"}
     ELSE IF gen /\ e.exc # "none" THEN {"raised_" \o e.exc}
     ELSE IF gen THEN BadG("derivation_valid", ~ValidDerivation(G, e.w, e.seq, e.mode))
                      (* (T) the recorded derivation is the one the model's two worklist loops produce *)
                      \cup BadG("binding_derivation_equals_model", e.seq # ModelDerivation(G, e.w, e.mode))
     ELSE {}
=============================================================================
