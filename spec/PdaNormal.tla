------------------------------ MODULE PdaNormal ------------------------------
(* Model of the PDA normal forms and of pda_to_cfg (C10), phase by phase as the    *)
(* code applies them:                                                              *)
(*   OneAccept  = pda_to_one_accepting_state_in_place                              *)
(*   PushPop    = pda_to_push_pop_in_place   (calls OneAccept first)               *)
(*   EmptyStack = pda_to_accept_on_empty_stack_in_place  (repaired: drain state)   *)
(*   ToCfg      = the triple construction of pda_to_cfg on the result              *)
(* WithDrain = FALSE reproduces the pinned revision (deviation EmptyStack_NoDrain). *)
(* Init: every PDA over the states Qs, input {a}, stack {X} with at most MaxMoves   *)
(* moves.  After every phase the language (words <= N, saturation semantics) must   *)
(* equal the original one.                                                          *)
EXTENDS Util, PDA, CFG
CONSTANTS Qs, Q0, MaxMoves, N, WithDrain, DoCfg
Eps == "eps"
Pool == {<<p, a, u, q, v>> : p \in Qs, a \in {"a", Eps}, u \in {"X", Eps}, q \in Qs, v \in {"X", Eps}}
Mk(T, F) == [Q |-> Qs, S |-> {"a"}, G |-> {"X"}, T |-> T, q0 |-> Q0, F |-> F, eps |-> Eps]

VARIABLES P0, P, G, ph
vars == <<P0, P, G, ph>>
NoG == [V |-> {}, S |-> {}, R |-> <<>>, start |-> ""]

RECURSIVE FreshFrom(_, _, _)
FreshFrom(S, hint, k) == LET nm == hint \o ToString(k) IN IF nm \notin S THEN nm ELSE FreshFrom(S, hint, k + 1)
Fresh(S, hint) == FreshFrom(S, hint, 1)          \* dfa_algorithms.fresh_state

Init == P0 = Mk({}, {}) /\ P = Mk({}, {}) /\ G = NoG /\ ph = "pick"
PickF == /\ ph = "pick" /\ ph' = "build"
         /\ \E F \in SUBSET Qs : P0' = Mk({}, F)
         /\ UNCHANGED <<P, G>>
AddMove == /\ ph = "build" /\ Cardinality(P0.T) < MaxMoves
           /\ \E t \in Pool \ P0.T : P0' = Mk(P0.T \cup {t}, P0.F)
           /\ UNCHANGED <<P, G, ph>>
Go == /\ ph = "build" /\ ph' = "orig" /\ P' = P0 /\ UNCHANGED <<P0, G>>

OneAcc(X) ==
  IF Cardinality(X.F) = 1 THEN X
  ELSE LET qa == Fresh(X.Q, "q_accept")
       IN [X EXCEPT !.Q = X.Q \cup {qa}, !.T = X.T \cup {<<q, Eps, Eps, qa, Eps>> : q \in X.F}, !.F = {qa}]

(* the intermediate states get the names M1, M2, ... in the (arbitrary) order of delta.items() *)
PushPopOf(X0) ==
  LET X == OneAcc(X0)
      Dummy == "dummy"
      mixed == {t \in X.T : (t[3] = Eps) = (t[5] = Eps)}          \* no-op and replace moves
      ord == SetToSeq(mixed)
      RECURSIVE Names(_, _)
      Names(k, Qk) == IF k > Len(ord) THEN <<>> ELSE LET nm == Fresh(Qk, "M") IN <<nm>> \o Names(k + 1, Qk \cup {nm})
      mids == Names(1, X.Q)
      split(k) == LET t == ord[k]
                      m == mids[k]
                  IN IF t[3] = Eps THEN {<<t[1], t[2], Eps, m, Dummy>>, <<m, Eps, Dummy, t[4], Eps>>}
                     ELSE {<<t[1], t[2], t[3], m, Eps>>, <<m, Eps, Eps, t[4], t[5]>>}
  IN [X EXCEPT !.Q = X.Q \cup ToSet(mids), !.G = X.G \cup {Dummy},
               !.T = (X.T \ mixed) \cup UNION {split(k) : k \in DOMAIN ord}]

EmptyStackOf(X) ==
  LET bottom == "$"
      qi == Fresh(X.Q, "q_initial")
      qd == Fresh(X.Q \cup {qi}, "q_drain")
      qa == Fresh(X.Q \cup {qi} \cup (IF WithDrain THEN {qd} ELSE {}), "q_accept")
      direct == {<<q, Eps, bottom, qa, Eps>> : q \in X.F}
      drain == IF WithDrain
               THEN {<<q, Eps, g, qd, Eps>> : q \in X.F, g \in X.G} \cup {<<qd, Eps, g, qd, Eps>> : g \in X.G}
                    \cup {<<qd, Eps, bottom, qa, Eps>>}
               ELSE {}
  IN [X EXCEPT !.Q = X.Q \cup {qi, qa} \cup (IF WithDrain THEN {qd} ELSE {}), !.G = X.G \cup {bottom},
               !.T = X.T \cup {<<qi, Eps, Eps, X.q0, bottom>>} \cup direct \cup drain,
               !.q0 = qi, !.F = {qa}]

(* the triple construction (Sipser): variables p'q *)
Var(p, q) == p \o "'" \o q
Tm(a) == <<"t", a>>
Vr(x) == <<"v", x>>
Rhs(a, mid, b) == (IF a = Eps THEN <<>> ELSE <<Tm(a)>>) \o <<Vr(mid)>> \o (IF b = Eps THEN <<>> ELSE <<Tm(b)>>)
CfgOfPda(X) ==
  LET qa == CHOOSE q \in X.F : TRUE
      pushes == {t \in X.T : t[3] = Eps}
      pops == {t \in X.T : t[3] # Eps}
      r1 == UNION {{<<Var(pu[1], po[4]), Rhs(pu[2], Var(pu[4], po[1]), po[2])>> :
                      po \in {po \in pops : po[3] = pu[5]}} : pu \in pushes}
      r2 == {<<Var(p, q), <<Vr(Var(p, r)), Vr(Var(r, q))>>>> : p \in X.Q, q \in X.Q, r \in X.Q}
      r3 == {<<Var(p, p), <<>>>> : p \in X.Q}
  IN [V |-> {Var(p, q) : p \in X.Q, q \in X.Q}, S |-> X.S, R |-> SetToSeq(r1 \cup r2 \cup r3), start |-> Var(X.q0, qa)]

DoOneAcc == ph = "orig" /\ ph' = "oneacc" /\ P' = OneAcc(P) /\ UNCHANGED <<P0, G>>
DoPushPop == ph = "oneacc" /\ ph' = "pushpop" /\ P' = PushPopOf(P) /\ UNCHANGED <<P0, G>>
DoEmpty == ph = "pushpop" /\ ph' = "empty" /\ P' = EmptyStackOf(P) /\ UNCHANGED <<P0, G>>
DoCfgStep == ph = "empty" /\ DoCfg /\ ph' = "cfg" /\ G' = CfgOfPda(P) /\ UNCHANGED <<P0, P>>
(* the public pda_to_accept_on_empty_stack applied to the original automaton *)
DoEmptyDirect == ph = "orig" /\ ph' = "emptydirect" /\ P' = EmptyStackOf(P) /\ UNCHANGED <<P0, G>>

Next == PickF \/ AddMove \/ Go \/ DoOneAcc \/ DoPushPop \/ DoEmpty \/ DoCfgStep \/ DoEmptyDirect
Spec == Init /\ [][Next]_vars

Phase == ph \in {"oneacc", "pushpop", "empty", "emptydirect"}
L0 == PdaLangUpTo(P0, N)
Valid == Phase => ValidPDA(P)
LanguagePreserved == Phase => {w \in WordsUpTo({"a"}, N) : PdaAccepts(P, w)} = L0
PushPopForm == ph \in {"pushpop", "empty"} => IsPushPop(P)
OneAccepting == Phase => Cardinality(P.F) = 1
GrammarLanguage == ph = "cfg" => CfgLangUpTo(G, {"a"}, N) = L0
GrammarValid == ph = "cfg" => ValidCFG(G)
=============================================================================
