-------------------------------- MODULE JFA --------------------------------
(* Judge clauses for the finite-automaton properties C01 C03 C04 C14 C18 C20 *)
EXTENDS Util, FA

Bad(name, cond) == IF cond THEN {name} ELSE {}

-----------------------------------------------------------------------------
(* C01 *)
JEclose(e) ==
  LET A == FaOf(e.fa)
  IN Bad("closure_is_eps_reach",
         \E i \in DOMAIN e.cases : ToSet(e.cases[i].res) # EClosure(A, ToSet(e.cases[i].arg)))

JAcceptsAll(e) ==
  LET A == FaOf(e.fa)
      acc == ToSet(e.accepted)
  IN Bad("accepted_iff_accepting_run", \E w \in WordsUpTo(A.S, e.n) : (w \in acc) # NfaAccepts(A, w))
     \cup Bad("accepted_words_over_alphabet", ~(acc \subseteq WordsUpTo(A.S, e.n)))

-----------------------------------------------------------------------------
(* C03 *)
JNfaToDfa(e) ==
  IF e.exc # "none" THEN {"raised_" \o e.exc}
  ELSE
  LET N == FaOf(e.fa)
      D == FaOf(e.res)
      valid == ValidDFA(D)
  IN Bad("valid_total_dfa", ~valid)
     \cup Bad("same_alphabet", D.S # N.S)
     \cup Bad("initial_is_closure", ~\E c \in ToSet(e.q0cands) : ToSet(c) = EClosure(N, {N.q0}))
     \cup (IF valid THEN Bad("all_reachable", Reach(D) # D.Q) \cup Bad("equivalent_exact", ~FaEquiv(N, D))
           ELSE {})

-----------------------------------------------------------------------------
(* C04 *)
JMinimise(e) ==
  IF e.exc # "none" THEN {"raised_" \o e.exc} \cup Bad("input_unchanged", e.post # e.fa)
  ELSE
  LET D == FaOf(e.fa)
      M == FaOf(e.res)
      valid == ValidDFA(M)
      n == Cardinality(M.Q)
  IN Bad("valid_dfa", ~valid)
     \cup Bad("same_alphabet", M.S # D.S)
     \cup Bad("input_unchanged", e.post # e.fa)
     \cup (IF valid /\ "big" \notin DOMAIN e
           THEN Bad("equivalent_exact", ~FaEquiv(D, M))
                \cup Bad("pairwise_distinguishable", ~PairwiseDistinguishable(M))
                \cup Bad("count_between_bounds",
                         ~(NerodeClasses(D, Reach(D)) <= n /\ n <= NerodeClasses(D, D.Q)))
           ELSE IF valid
           THEN (* automata with dozens of states: the classes by Moore's refinement (FA!MoorePartition, *)
                (* cross-checked against the two other formulations in Lemmas.tla)                      *)
                LET P == MoorePartition(D)
                    R == Reach(D)
                IN Bad("equivalent_exact", ~FaEquiv(D, M))
                   \cup Bad("pairwise_distinguishable", Cardinality(MoorePartition(M)) # n)
                   \cup Bad("count_between_bounds",
                            ~(Cardinality({B \cap R : B \in P} \ {{}}) <= n /\ n <= Cardinality(P)))
           ELSE {})

-----------------------------------------------------------------------------
(* C14: automaton constructions *)
JDfaOp(e) ==
  IF e.exc # "none" THEN {"raised_" \o e.exc}
  ELSE
  LET A == FaOf(e.a)
      C == FaOf(e.res)
      valid == IF e.reskind = "dfa" THEN ValidDFA(C) ELSE ValidNFA(C)
      langok ==
        CASE e.name = "union" -> IsUnionOf(C, A, FaOf(e.b))
          [] e.name = "intersection" -> IsInterOf(C, A, FaOf(e.b))
          [] e.name = "symmetric_difference" -> IsSymDiffOf(C, A, FaOf(e.b))
          [] e.name = "complement" -> IsComplementOf(C, A)
          [] e.name = "reverse" -> IsReverseOf(C, A)
          [] e.name = "no_prefix" -> IsNoPrefixOf(C, A)
          [] e.name = "no_extend" -> IsNoExtendOf(C, A)
          [] e.name = "remove_unreachable" -> FaEquiv(C, A) /\ Reach(C) = C.Q
          [] e.name = "make_total" -> FaEquiv(C, A)
          [] e.name = "make_total_in_place" -> FaEquiv(C, A)
  IN Bad("valid", ~valid)
     \cup (IF valid THEN Bad("language_is_operation_exact", ~langok) ELSE {})

(* C14: finite-language helpers; languages are sequences of words *)
JLangOp(e) ==
  LET L1 == ToSet(e.l1)
      L2 == ToSet(e.l2)
      R == ToSet(e.res)
      expect ==
        CASE e.name = "reverse" -> {Rev(w) : w \in L1}
          [] e.name = "no_prefix" -> {w \in L1 : ~\E u \in L1 : IsProperPrefixOf(u, w)}
          [] e.name = "no_extend" -> {w \in L1 : ~\E v \in L1 : IsProperPrefixOf(w, v)}
          [] e.name = "concatenation" -> {u \o v : u \in L1, v \in L2}
          [] e.name = "union" -> L1 \cup L2
          [] e.name = "intersection" -> L1 \cap L2
          [] e.name = "symmetric_difference" -> (L1 \ L2) \cup (L2 \ L1)
          [] e.name = "words_of_length_n" -> WordsOfLen(ToSet(e.sigma), e.n)
          [] e.name = "words_up_to_n" -> WordsUpTo(ToSet(e.sigma), e.n)
  IN IF e.exc # "none" THEN {"raised_" \o e.exc}
     ELSE Bad("set_is_documented_operation", R # expect)

-----------------------------------------------------------------------------
(* C18: textbook constructions on tagged copies with a common epsilon label  *)
CE == "~e~"
Tag(A, k) ==
  [Q |-> {k \o q : q \in A.Q}, S |-> A.S,
   T |-> {<<k \o t[1], IF t[2] = A.eps THEN CE ELSE t[2], k \o t[3]>> : t \in A.T},
   q0 |-> k \o A.q0, F |-> {k \o q : q \in A.F}, eps |-> CE]
UnionRef(A, B) ==
  LET X == Tag(A, "1:")
      Y == Tag(B, "2:")
  IN [Q |-> X.Q \cup Y.Q \cup {"new"}, S |-> A.S \cup B.S,
      T |-> X.T \cup Y.T \cup {<<"new", CE, X.q0>>, <<"new", CE, Y.q0>>},
      q0 |-> "new", F |-> X.F \cup Y.F, eps |-> CE]
ConcatRef(A, B) ==
  LET X == Tag(A, "1:")
      Y == Tag(B, "2:")
  IN [Q |-> X.Q \cup Y.Q, S |-> A.S \cup B.S,
      T |-> X.T \cup Y.T \cup {<<f, CE, Y.q0>> : f \in X.F},
      q0 |-> X.q0, F |-> Y.F, eps |-> CE]
StarRef(A) ==
  LET X == Tag(A, "1:")
  IN [Q |-> X.Q \cup {"new"}, S |-> A.S,
      T |-> X.T \cup {<<"new", CE, X.q0>>} \cup {<<f, CE, X.q0>> : f \in X.F},
      q0 |-> "new", F |-> X.F \cup {"new"}, eps |-> CE]

JNfaOp(e) ==
  IF e.exc # "none" THEN {"raised_" \o e.exc}
  ELSE
  LET A == FaOf(e.a)
      B == FaOf(e.b)
      C == FaOf(e.res)
      valid == ValidNFA(C)
      ref == CASE e.name = "union" -> UnionRef(A, B)
               [] e.name = "concatenation" -> ConcatRef(A, B)
               [] e.name = "repetition" -> StarRef(A)
      operands == IF e.name = "repetition" THEN A.Q ELSE A.Q \cup B.Q
  IN Bad("valid_nfa", ~valid)
     \cup (IF valid THEN Bad("language_is_operation_exact", ~FaEquiv(C, ref)) ELSE {})
     \cup (IF e.name = "concatenation" THEN {}
           ELSE Bad("new_state_fresh", ~(operands \subseteq C.Q /\ Cardinality(C.Q) = Cardinality(operands) + 1)))

(* C19: objects that existed before a call are the same after it *)
JOperandsKept(e) == Bad("operands_unchanged", e.before # e.after)

(* (G) a behaviour of Session.tla replayed into the real code: the projected   *)
(* objects after the last call must equal the specification's state            *)
JSessionReplay(e) ==
  LET n == Len(e.expected)
  IN Bad("binding_raises_like_spec", e.exc_expected # e.exc_actual)
     \cup (IF e.exc_expected = e.exc_actual /\ Len(e.actual) = n
           THEN Bad("binding_result_equals_spec_state", n > 0 /\ e.actual[n] # e.expected[n])
                \cup Bad("binding_operands_equal_spec_state",
                         \E i \in 1..(n - 1) : e.actual[i] # e.expected[i])
           ELSE Bad("binding_store_size", e.exc_expected = e.exc_actual))

-----------------------------------------------------------------------------
(* C20 *)
JIso(e) ==
  LET D1 == FaOf(e.d1)
      D2 == FaOf(e.d2)
      truth == IsoExists(D1, D2)
  IN Bad("terminates", e.exc = "Timeout" \/ e.exc_swapped = "Timeout")
     \cup (IF e.exc \notin {"none", "Timeout"} THEN {"raised_" \o e.exc} ELSE {})
     \cup (IF e.exc = "none" THEN Bad("true_iff_bijection", e.res # truth) ELSE {})
     \cup (IF e.exc = "none" /\ e.exc_swapped = "none" THEN Bad("symmetric", e.res # e.res_swapped) ELSE {})
=============================================================================
