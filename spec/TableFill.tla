------------------------------ MODULE TableFill ------------------------------
(* Model of dfa_algorithms.dfa_minimize + dfa_from_table (table filling).     *)
(* q = list(Q) fixes an arbitrary (hash) order of the states: ord is any       *)
(* bijection 1..n -> Q chosen in Init.  table[i,j] (i <= j) means "q[i] and    *)
(* q[j] not distinguished so far"; a sweep visits the pairs i < j in           *)
(* lexicographic order and updates the table IN PLACE, as the code does.       *)
(* KeepEmptyPlaceholders = TRUE reproduces the pinned revision's               *)
(* dfa_from_table, which turned the unused placeholder sets of merged states   *)
(* into an extra state "{}" (deviation TF_EmptyPlaceholderKept).               *)
EXTENDS DfaUniverse, Steps
CONSTANT KeepEmptyPlaceholders
VARIABLES D, ord, table, pc, stage
vars == <<D, ord, table, pc, stage>>

n == Cardinality(Q)
Pairs == {<<i, j>> \in (1..n) \X (1..n) : i <= j}
Idx(q) == CHOOSE i \in 1..n : ord[i] = q
Lo(k, m) == <<Min2(k, m), Max2(k, m)>>

Orders == {f \in [1..n -> Q] : \A i, j \in 1..n : i # j => f[i] # f[j]}
Init == /\ D = DummyDfa /\ stage = 0 /\ pc = "pick"
        /\ ord = CHOOSE f \in Orders : TRUE
        /\ table = [p \in Pairs |-> TRUE]
PickF == /\ stage = 0 /\ stage' = 1
         /\ \E F \in SUBSET Q : D' = [DummyDfa EXCEPT !.F = F]
         /\ ord' \in Orders
         /\ UNCHANGED <<table, pc>>
PickD == /\ stage = 1 /\ stage' = 2
         /\ D' \in DfasWithF(D.F)
         /\ table' = TfInit(D', ord)
         /\ pc' = "sweep"
         /\ UNCHANGED ord

Sweep == /\ pc = "sweep"
         /\ LET t2 == TfSweep(D, ord, table)
            IN /\ table' = t2
               /\ pc' = IF t2 = table THEN "assemble" ELSE "sweep"
         /\ UNCHANGED <<D, ord, stage>>

Next == PickF \/ PickD \/ Sweep
Spec == Init /\ [][Next]_vars /\ WF_vars(Next)

(* dfa_from_table *)
Qlist == TfGroups(ord, table, 1, {}, <<>>)
BlockWith(q) == CHOOSE B \in ToSet(Qlist) : q \in B
Used == IF KeepEmptyPlaceholders THEN 1..n ELSE {i \in 1..n : Qlist[i] # {}}
M == [Q |-> {Qlist[i] : i \in Used}, S |-> S,
      T |-> {<<Qlist[i], a, BlockWith(Delta(D, ord[i], a))>> : i \in Used, a \in S},
      q0 |-> BlockWith(D.q0), F |-> {Qlist[i] : i \in {i \in Used : ord[i] \in D.F}}, eps |-> "~none~"]

Done == pc = "assemble"
TableSound == stage = 2 => \A p \in Pairs : StatesEquivalent(D, ord[p[1]], ord[p[2]]) => table[p]
DoneTableExact == Done => \A p \in Pairs : table[p] <=> StatesEquivalent(D, ord[p[1]], ord[p[2]])
DoneResultOk == Done => ResultOk(D, M)
InputUnchanged == [][stage = 2 => D' = D]_vars
Terminates == <>Done
=============================================================================
