------------------------------ MODULE Quotient ------------------------------
(* Model of dfa_algorithms.dfa_quotient: partition refinement by rounds.      *)
(* In a round every block V is regrouped first-fit: `for v in V` (set order)   *)
(* joins the first block W of the new list whose representative               *)
(* `set_element(W)` (an arbitrary element) has the same signature, else opens  *)
(* a new block.  Modelled as: v may join ANY new block that contains SOME      *)
(* element with the same signature (a superset of the code's behaviours).      *)
EXTENDS DfaUniverse
VARIABLES D, VV, done, stage
vars == <<D, VV, done, stage>>

Init == D = DummyDfa /\ VV = {} /\ done = FALSE /\ stage = 0
PickF == /\ stage = 0 /\ stage' = 1
         /\ \E F \in SUBSET Q : D' = [DummyDfa EXCEPT !.F = F]
         /\ UNCHANGED <<VV, done>>
PickD == /\ stage = 1 /\ stage' = 2
         /\ D' \in DfasWithF(D.F)
         /\ VV' = {D.F, Q \ D.F}         \* the code starts with [F, Q - F]; an empty block vanishes in round 1
         /\ UNCHANGED done

BlockOf(PP, q) == CHOOSE B \in PP : q \in B
SameSig(PP, v, w) == \A a \in S : BlockOf(PP, Delta(D, v, a)) = BlockOf(PP, Delta(D, w, a))

(* all partitions first-fit can produce for the elements `rem` given blocks WW *)
RECURSIVE FirstFit(_, _, _)
FirstFit(PP, rem, WW) ==
  IF rem = {} THEN {WW}
  ELSE UNION {
         LET joinable == {B \in WW : \E w \in B : SameSig(PP, v, w)}
             mustopen == \A B \in WW : \E w \in B : ~SameSig(PP, v, w)
         IN UNION {FirstFit(PP, rem \ {v}, (WW \ {B}) \cup {B \cup {v}}) : B \in joinable}
            \cup (IF mustopen THEN FirstFit(PP, rem \ {v}, WW \cup {{v}}) ELSE {})
         : v \in rem}

RECURSIVE RefineAll(_, _, _)
RefineAll(PP, blocks, acc) ==
  IF blocks = {} THEN {acc}
  ELSE LET V == CHOOSE B \in blocks : TRUE
       IN UNION {RefineAll(PP, blocks \ {V}, acc \cup WW) : WW \in FirstFit(PP, V, {})}

Round ==
  /\ stage = 2 /\ ~done
  /\ \E VV1 \in RefineAll(VV \ {{}}, VV \ {{}}, {}) :
        IF VV1 = VV THEN done' = TRUE /\ VV' = VV
        ELSE done' = FALSE /\ VV' = VV1
  /\ UNCHANGED <<D, stage>>

Next == PickF \/ PickD \/ Round
Spec == Init /\ [][Next]_vars /\ WF_vars(Next)

M == BlockDfa(D, VV)
PartitionInv == stage = 2 =>
                /\ IsPartition(VV \ {{}}, Q)
                /\ \A C \in NerodePartition(D) : \E B \in VV : C \subseteq B
DoneIsNerode == done => VV = NerodePartition(D)
DoneResultOk == done => ResultOk(D, M)
(* C13 inside the specification: the minimal-DFA checker compares the number of states with the   *)
(* library's quotient (= the Myhill-Nerode classes of ALL states) and the languages               *)
OwnAnswerPassesMinimalChecker ==
  done => /\ M.S = D.S /\ Cardinality(M.Q) = NerodeClasses(D, D.Q) /\ FaEquiv(D, M)
InputUnchanged == [][stage = 2 => D' = D]_vars
Terminates == <>done
=============================================================================
