------------------------------ MODULE Simplify ------------------------------
(* regexp_simplify and regexp_accepts_word as transcribed code, evaluated by   *)
(* TLC on every tree with at most MaxOps operators.  One action per rewrite    *)
(* rule firing at the root, so the coverage report shows every rule exercised. *)
EXTENDS RegexCode
CONSTANTS Sy, MaxOps, N
VARIABLES r, out, stage
vars == <<r, out, stage>>

Init == r = Zero /\ out = Zero /\ stage = 0
PickOps == /\ stage = 0 /\ stage' = 1
           /\ \E k \in 0..MaxOps : \E t \in TreesOps(Sy, 0) : r' = <<"pick", k, t>>
           /\ UNCHANGED out
(* second step: the tree itself; the first leaf fixed above spreads the work *)
PickTree == /\ stage = 1 /\ stage' = 2
            /\ \E t \in TreesOps(Sy, r[2]) : r' = t
            /\ UNCHANGED out

Apply(rule) == /\ stage = 2 /\ RootRule(r) = rule
               /\ out' = Simp(r)
               /\ stage' = 3
               /\ UNCHANGED r
Leaf == Apply("leaf")
StarConst == Apply("star_const")
StarStar == Apply("star_star")
StarKeep == Apply("star_keep")
SumZeroLeft == Apply("sum_zero_left")
SumZeroRight == Apply("sum_zero_right")
SumKeep == Apply("sum_keep")
CatZeroLeft == Apply("cat_zero_left")
CatOneLeft == Apply("cat_one_left")
CatZeroRight == Apply("cat_zero_right")
CatOneRight == Apply("cat_one_right")
CatKeep == Apply("cat_keep")

Next == PickOps \/ PickTree \/ Leaf \/ StarConst \/ StarStar \/ StarKeep \/ SumZeroLeft \/ SumZeroRight
        \/ SumKeep \/ CatZeroLeft \/ CatOneLeft \/ CatZeroRight \/ CatOneRight \/ CatKeep
Spec == Init /\ [][Next]_vars

SameLanguage == stage = 3 => ReEquiv(r, out)
NotLarger == stage = 3 => Nodes(out) <= Nodes(r)
MatcherIsDenotation == stage = 2 => \A w \in WordsUpTo(Sy, N) : MatchCode(r, w) <=> Matches(r, w)
GlushkovIsDenotation == stage = 2 => \A w \in WordsUpTo(Sy, N) : AcceptsBySubsets(Glushkov(r), w) <=> Matches(r, w)
EnumIsDenotation == stage = 2 => \A n \in 0..N : EnumCode(r, n) = ReLangUpTo(r, Sy, n)
=============================================================================
