-------------------------------- MODULE JENUM --------------------------------
(* Judge clauses for C02: bounded enumeration for the six formalisms *)
EXTENDS Util, FA, Regex, CFG, PDA, TM

BadE(name, cond) == IF cond THEN {name} ELSE {}

RefLang(e) ==
  CASE e.kind \in {"dfa", "nfa"} -> LangUpTo(FaOf(e.obj), e.n)
    [] e.kind = "re" -> ReLangUpTo(e.obj, ToSet(e.sigma), e.n)
    [] e.kind = "cfg" -> CfgLangUpTo(CfgOf(e.obj), ToSet(e.sigma), e.n)
    [] e.kind = "pda" -> PdaLangUpTo(PdaOf(e.obj), e.n)
    [] e.kind = "tm" -> TmLangUpTo(TmOf(e.obj), e.n, e.max_steps)

(* PDAs: equality is required when no closure can hit the limit *)
Required(e) ==
  IF e.kind = "pda"
  THEN \A w \in WordsUpTo(ToSet(e.sigma), e.n) : ExactRun(PdaOf(e.obj), w, e.limit).below
  ELSE TRUE

JEnum(e) ==
  LET W == ToSet(e.words)
      Gn == ToSet(e.gen)
      acc == ToSet(e.accepted)
  IN IF e.exc # "none" THEN {"raised_" \o e.exc}
     ELSE BadE("none_longer_than_n", \E w \in W \cup Gn : Len(w) > e.n)
          \cup (IF Required(e)
                THEN BadE("equals_own_acceptance", W # acc)
                     \cup BadE("equals_reference", W # RefLang(e))
                     \cup BadE("generator_same_set", Gn # W)
                ELSE BadE("sound_above_limit", ~(W \subseteq RefLang(e))))
=============================================================================
