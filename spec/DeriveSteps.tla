----------------------------- MODULE DeriveSteps -----------------------------
(* cfg_derive_word as step functions on explicit state (shared by the model    *)
(* Derive.tla and by the Judge, which replays every recorded derivation):       *)
(*   build    the derivation tree is grown from the root with a stack `todo`;   *)
(*            a node is <<symbol, p, q, children>> over the half-open span       *)
(*            [p, q) of the word; a span of length one gets the terminal as its  *)
(*            only child; otherwise the first split point m and the first        *)
(*            alternative B C of the node's variable (in RULE-LIST order) with   *)
(*            B in X[p, m-1] and C in X[m, q-1] are taken (X = the CYK table,    *)
(*            here CFG!CellSem: Cyk.tla shows the table equals it)               *)
(*   extract  the sentential forms are produced from the tree with a second      *)
(*            worklist: leftmost takes nodes from the FRONT and puts the          *)
(*            children in front, rightmost takes from the BACK and appends them;  *)
(*            the node's variable is replaced at its first / last occurrence      *)
EXTENDS Util, CFG

Node(x, p, q) == [x |-> x, p |-> p, q |-> q, ch |-> <<>>]
Alts(G, A) == LET RECURSIVE Col(_)
                  Col(i) == IF i > Len(G.R) THEN <<>> ELSE (IF G.R[i][1] = A THEN <<G.R[i][2]>> ELSE <<>>) \o Col(i + 1)
              IN Col(1)
(* find_rule: the first alternative of length two whose variables lie in the two cells *)
FindRule(alts, Xpm, Xmq) ==
  LET hits == {i \in DOMAIN alts : Len(alts[i]) = 2 /\ alts[i][1][2] \in Xpm /\ alts[i][2][2] \in Xmq}
  IN IF hits = {} THEN <<>> ELSE alts[CHOOSE i \in hits : \A j \in hits : i <= j]
RECURSIVE FirstSplit(_, _, _, _, _)
(* the first m in p+1 .. q-1 for which find_rule succeeds: <<m, B, C>> or <<>> *)
FirstSplit(G, w, n, m, alts) ==
  IF m >= n.q THEN <<>>
  ELSE LET bc == FindRule(alts, CellSem(G, w, n.p + 1, m), CellSem(G, w, m + 1, n.q))
       IN IF bc # <<>> THEN <<m, bc[1], bc[2]>> ELSE FirstSplit(G, w, n, m + 1, alts)

(* build state: [nodes: sequence of nodes with child INDICES, todo: stack of node indices] *)
BuildInit(G, w) == [nodes |-> <<Node(<<"v", G.start>>, 0, Len(w))>>, todo |-> <<1>>]
BuildStep(G, w, s) ==
  LET i == s.todo[Len(s.todo)]
      rest == SubSeq(s.todo, 1, Len(s.todo) - 1)
      n == s.nodes[i]
      k == Len(s.nodes)
  IN IF n.q - n.p = 1
     THEN [nodes |-> Append([s.nodes EXCEPT ![i].ch = <<k + 1>>], Node(<<"t", w[n.p + 1]>>, n.p, n.q)), todo |-> rest]
     ELSE LET sp == FirstSplit(G, w, n, n.p + 1, Alts(G, n.x[2]))
          IN IF sp = <<>> THEN [nodes |-> s.nodes, todo |-> rest]
             ELSE [nodes |-> [s.nodes EXCEPT ![i].ch = <<k + 1, k + 2>>] \o <<Node(sp[2], n.p, sp[1]), Node(sp[3], sp[1], n.q)>>,
                   todo |-> rest \o <<k + 1, k + 2>>]
RECURSIVE BuildRun(_, _, _)
BuildRun(G, w, s) == IF s.todo = <<>> THEN s ELSE BuildRun(G, w, BuildStep(G, w, s))

(* extract state: [element, result, todo (node indices)] *)
FirstIndex(el, x) == CHOOSE i \in DOMAIN el : el[i] = x /\ \A j \in 1..(i - 1) : el[j] # x
LastIndex(el, x) == CHOOSE i \in DOMAIN el : el[i] = x /\ \A j \in (i + 1)..Len(el) : el[j] # x
ExtractInit(nodes) == [element |-> <<nodes[1].x>>, result |-> <<<<nodes[1].x>>>>, todo |-> <<1>>]
ExtractStep(nodes, leftmost, s) ==
  LET i == IF leftmost THEN s.todo[1] ELSE s.todo[Len(s.todo)]
      rest == IF leftmost THEN Tail(s.todo) ELSE SubSeq(s.todo, 1, Len(s.todo) - 1)
      n == nodes[i]
  IN IF n.ch = <<>> THEN [s EXCEPT !.todo = rest]
     ELSE LET value == [k \in DOMAIN n.ch |-> nodes[n.ch[k]].x]
              pos == IF leftmost THEN FirstIndex(s.element, n.x) ELSE LastIndex(s.element, n.x)
              el == SubSeq(s.element, 1, pos - 1) \o value \o SubSeq(s.element, pos + 1, Len(s.element))
          IN [element |-> el, result |-> Append(s.result, el),
              todo |-> IF leftmost THEN n.ch \o rest ELSE rest \o n.ch]
RECURSIVE ExtractRun(_, _, _)
ExtractRun(nodes, leftmost, s) == IF s.todo = <<>> THEN s ELSE ExtractRun(nodes, leftmost, ExtractStep(nodes, leftmost, s))

(* the derivation the code returns for a word of the language *)
ModelDerivation(G, w, mode) ==
  LET t == BuildRun(G, w, BuildInit(G, w))
  IN ExtractRun(t.nodes, mode # "rightmost", ExtractInit(t.nodes)).result
=============================================================================
