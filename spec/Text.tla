-------------------------------- MODULE Text --------------------------------
(* The DECLARATIVE meaning of a textual automaton description (C17): which      *)
(* descriptions are well formed and which automaton a well-formed one denotes,  *)
(* independent of the order of its lines.  Written from the documented format   *)
(* and the defaults the parsers implement, not from the parsers' control flow.  *)
(*                                                                              *)
(* A description D = [kind, lines, badstate, badsym] with kind in               *)
(* {"dfa","nfa","pda","tm"}; a line is [k, t]:                                  *)
(*   k = "states" | "final" | "initial" : t = the listed tokens                 *)
(*   k = "kw"   : t = <<keyword, values...>> (input_symbols, epsilon, ...)       *)
(*   k = "tr"   : t = <<p, q, label...>>, a label being                          *)
(*                <<"ok", glyph, a>> (dfa/nfa), <<"ok", glyph, a, u, v>> (pda),   *)
(*                <<"ok", glyph, a, b, d>> (tm) or <<"bad", raw>>;                *)
(*                glyph = the label contains the default epsilon/blank glyph     *)
(*   k = "skip" : comment or blank line                                          *)
(* Character-level lexing is below this model: badstate / badsym are the sets   *)
(* of tokens that are not legal state labels / alphabet symbols.                *)
EXTENDS Util

Idx(D, k) == {i \in DOMAIN D.lines : D.lines[i].k = k}
Kw(D, key) == {i \in Idx(D, "kw") : D.lines[i].t[1] = key}
T(D, i) == D.lines[i].t
Vals(D, i) == SubSeq(T(D, i), 2, Len(T(D, i)))          \* values of a keyword line

Keywords(kind) ==
  CASE kind = "dfa" -> {"input_symbols"}
    [] kind = "nfa" -> {"input_symbols", "epsilon"}
    [] kind = "pda" -> {"input_symbols", "stack_symbols", "epsilon"}
    [] kind = "tm"  -> {"input_symbols", "tape_symbols", "blank", "accept", "reject"}

(* positions of the individual transitions: <<line, label index>> *)
TrPos(D) == UNION {{<<i, j>> : j \in 3..Len(T(D, i))} : i \in Idx(D, "tr")}
Src(D, x) == T(D, x[1])[1]
Dst(D, x) == T(D, x[1])[2]
Lab(D, x) == T(D, x[1])[x[2]]

Listed(D, k) == UNION {ToSet(T(D, i)) : i \in Idx(D, k)}
DeclaredStates(D) == Listed(D, "states")
Initials(D) == Listed(D, "initial")
Finals(D) == Listed(D, "final")
UsedStates(D) == Initials(D) \cup Finals(D) \cup {Src(D, x) : x \in TrPos(D)} \cup {Dst(D, x) : x \in TrPos(D)}

Declared(D, key) == Kw(D, key) # {}
KwVals(D, key) == UNION {ToSet(Vals(D, i)) : i \in Kw(D, key)}
FirstVal(D, key, default) ==        \* the value of a single-valued keyword line (robust when it is missing)
  LET i == CHOOSE i \in Kw(D, key) : TRUE IN IF Len(T(D, i)) >= 2 THEN T(D, i)[2] ELSE default

(* ---------- the defaults ---------- *)
GlyphUsed(D) == \E x \in TrPos(D) : Lab(D, x)[1] = "ok" /\ Lab(D, x)[2]
(* epsilon (nfa, pda) / blank (tm): the declared symbol, else the glyph if it occurs in a label, else "_" *)
SpecialKey(D) == IF D.kind = "tm" THEN "blank" ELSE "epsilon"
Special(D) ==
  IF Declared(D, SpecialKey(D))
  THEN FirstVal(D, SpecialKey(D), "_")
  ELSE IF GlyphUsed(D) THEN D.glyph ELSE "_"

(* TM: accept / reject default to the fresh names accept / reject *)
RECURSIVE FreshFrom(_, _, _)
FreshFrom(S, hint, k) == LET n == hint \o ToString(k) IN IF n \notin S THEN n ELSE FreshFrom(S, hint, k + 1)
Fresh(S, hint) == IF hint \notin S THEN hint ELSE FreshFrom(S, hint, 1)
HaltState(D, key) == IF Declared(D, key) THEN FirstVal(D, key, key)
                   ELSE Fresh(DeclaredStates(D), key)

States(D) ==
  IF DeclaredStates(D) # {} THEN DeclaredStates(D)
  ELSE UsedStates(D) \cup (IF D.kind = "tm" THEN {HaltState(D, "accept"), HaltState(D, "reject")} ELSE {})

(* ---------- symbols ---------- *)
OkLabs(D) == {x \in TrPos(D) : Lab(D, x)[1] = "ok"}
UsedInput(D) ==
  CASE D.kind = "dfa" -> {Lab(D, x)[3] : x \in OkLabs(D)}
    [] D.kind \in {"nfa", "pda"} -> {Lab(D, x)[3] : x \in OkLabs(D)} \ {Special(D)}
    [] D.kind = "tm" -> {}
UsedStack(D) == UNION {{Lab(D, x)[4], Lab(D, x)[5]} : x \in OkLabs(D)} \ {Special(D)}      \* pda
UsedTape(D) == UNION {{Lab(D, x)[3], Lab(D, x)[4]} : x \in OkLabs(D)}                       \* tm

SymbolSet(D, key, used) == IF Declared(D, key) THEN KwVals(D, key) ELSE used
InputSymbols(D) ==
  IF D.kind = "tm"
  THEN (IF Declared(D, "input_symbols") THEN KwVals(D, "input_symbols")
        ELSE SymbolSet(D, "tape_symbols", UsedTape(D)) \ {Special(D)})
  ELSE SymbolSet(D, "input_symbols", UsedInput(D))
StackSymbols(D) == SymbolSet(D, "stack_symbols", UsedStack(D))
TapeSymbols(D) == SymbolSet(D, "tape_symbols", UsedTape(D)) \cup {Special(D)}

-----------------------------------------------------------------------------
(* ---------- the faults of Appendix C; WellFormed = none of them ---------- *)
DuplicateKey(D) ==
  \/ \E k \in {"states", "final", "initial"} : Cardinality(Idx(D, k)) > 1
  \/ \E key \in Keywords(D.kind) : Cardinality(Kw(D, key)) > 1
DuplicateEntry(D) == \E k \in {"states", "final", "initial"} : \E i \in Idx(D, k) : ~SeqIsSet(T(D, i))
EmptyStatesLine(D) == \E i \in Idx(D, "states") : T(D, i) = <<>>
ShortTransition(D) == \E i \in Idx(D, "tr") : Len(T(D, i)) <= 2
(* every state of the automaton has a legal label: the used and declared ones and (TM, states not declared) the   *)
(* halting states, which the builder adds to the state set before it checks the labels                          *)
BadStateLabel(D) == (UsedStates(D) \cup DeclaredStates(D) \cup States(D)) \cap D.badstate # {}
BadTransitionLabel(D) == \E x \in TrPos(D) : Lab(D, x)[1] = "bad"
UndeclaredState(D) == ~(UsedStates(D) \subseteq States(D))
InitialCount(D) == Cardinality(Initials(D)) # 1
MissingValue(D) ==      \* epsilon / blank / accept / reject need exactly one value when declared
  \E key \in Keywords(D.kind) \cap {"epsilon", "blank", "accept", "reject"} :
     \E i \in Kw(D, key) : Len(T(D, i)) # 2
UndeclaredSymbol(D) ==
  \/ (D.kind # "tm" /\ Declared(D, "input_symbols") /\ ~(UsedInput(D) \subseteq KwVals(D, "input_symbols")))
  \/ (D.kind = "pda" /\ Declared(D, "stack_symbols") /\ ~(UsedStack(D) \subseteq KwVals(D, "stack_symbols")))
  \/ (D.kind = "tm" /\ Declared(D, "tape_symbols") /\ ~(UsedTape(D) \subseteq KwVals(D, "tape_symbols")))
BadSymbol(D) == D.kind # "tm" /\ InputSymbols(D) \cap D.badsym # {}
NonDeterministic(D) ==
  D.kind = "dfa" /\ \E x, y \in OkLabs(D) : x # y /\ Src(D, x) = Src(D, y) /\ Lab(D, x)[3] = Lab(D, y)[3]
NotTotal(D) ==
  D.kind = "dfa" /\ \E q \in States(D), a \in InputSymbols(D) :
                       ~\E x \in OkLabs(D) : Src(D, x) = q /\ Lab(D, x)[3] = a
(* class invariants the constructors assert *)
ClassInvariantBroken(D) ==
  CASE D.kind = "nfa" -> Special(D) \in InputSymbols(D)
    [] D.kind = "pda" -> \/ Special(D) \in InputSymbols(D) \/ Special(D) \in StackSymbols(D)
                         \/ \E x \in OkLabs(D) : Lab(D, x)[3] \notin InputSymbols(D) \cup {Special(D)}
                                              \/ {Lab(D, x)[4], Lab(D, x)[5]} \ (StackSymbols(D) \cup {Special(D)}) # {}
    [] D.kind = "tm" -> \/ HaltState(D, "accept") = HaltState(D, "reject")
                        \/ ~({HaltState(D, "accept"), HaltState(D, "reject")} \subseteq States(D))
                        \/ Special(D) \in InputSymbols(D)
                        \/ ~(InputSymbols(D) \subseteq TapeSymbols(D))
                        \/ \E x \in OkLabs(D) : {Lab(D, x)[3], Lab(D, x)[4]} \ TapeSymbols(D) # {}
    [] OTHER -> FALSE

Faults(D) ==
  {f \in {"duplicate_key", "duplicate_entry", "empty_states", "short_transition", "bad_state_label",
          "bad_transition_label", "undeclared_state", "initial_count", "missing_value", "undeclared_symbol",
          "bad_symbol", "nondeterministic", "not_total", "class_invariant"} :
     CASE f = "duplicate_key" -> DuplicateKey(D)
       [] f = "duplicate_entry" -> DuplicateEntry(D)
       [] f = "empty_states" -> EmptyStatesLine(D)
       [] f = "short_transition" -> ShortTransition(D)
       [] f = "bad_state_label" -> BadStateLabel(D)
       [] f = "bad_transition_label" -> BadTransitionLabel(D)
       [] f = "undeclared_state" -> UndeclaredState(D)
       [] f = "initial_count" -> InitialCount(D)
       [] f = "missing_value" -> MissingValue(D)
       [] f = "undeclared_symbol" -> UndeclaredSymbol(D)
       [] f = "bad_symbol" -> BadSymbol(D)
       [] f = "nondeterministic" -> NonDeterministic(D)
       [] f = "not_total" -> NotTotal(D)
       [] f = "class_invariant" -> ClassInvariantBroken(D)}
WellFormed(D) == Faults(D) = {}

-----------------------------------------------------------------------------
(* ---------- the automaton a well-formed description denotes ---------- *)
Describes(D) ==
  CASE D.kind \in {"dfa", "nfa"} ->
         [Q |-> States(D), S |-> InputSymbols(D),
          T |-> {<<Src(D, x), Lab(D, x)[3], Dst(D, x)>> : x \in OkLabs(D)},
          q0 |-> CHOOSE q \in Initials(D) : TRUE, F |-> Finals(D),
          eps |-> IF D.kind = "dfa" THEN "~eps~" ELSE Special(D)]
    [] D.kind = "pda" ->
         [Q |-> States(D), S |-> InputSymbols(D), G |-> StackSymbols(D),
          T |-> {<<Src(D, x), Lab(D, x)[3], Lab(D, x)[4], Dst(D, x), Lab(D, x)[5]>> : x \in OkLabs(D)},
          q0 |-> CHOOSE q \in Initials(D) : TRUE, F |-> Finals(D), eps |-> Special(D)]
    [] D.kind = "tm" ->
         [Q |-> States(D), S |-> InputSymbols(D), G |-> TapeSymbols(D),
          T |-> {<<Src(D, x), Lab(D, x)[3], Dst(D, x), Lab(D, x)[4], Lab(D, x)[5]>> : x \in OkLabs(D)},
          q0 |-> CHOOSE q \in Initials(D) : TRUE, qa |-> HaltState(D, "accept"), qr |-> HaltState(D, "reject"),
          blank |-> Special(D)]
=============================================================================
