-------------------------------- MODULE Steps --------------------------------
(* The step functions of the schedule-dependent algorithms, as operators on      *)
(* explicit state.  They are the single source of truth for BOTH the algorithm    *)
(* models (Hopcroft, EpsClosure, Iso, Chomsky use them in their actions) and the   *)
(* fine-grained trace validation (JTRACE): an observed execution - the choices the *)
(* hooks of gambatools/_verif.py report - is a behaviour of the model iff every    *)
(* reported choice was enabled and every reported state equals the step result.    *)
EXTENDS Util, FA, CFG

(* ---------- epsilon_closure ---------- *)
EcNew(E, result, q) == {e[2] : e \in {e \in E : e[1] = q}} \ result
EcResult(E, result, q) == result \cup EcNew(E, result, q)
EcTodo(E, result, todo, q) == (todo \ {q}) \cup EcNew(E, result, q)

(* ---------- dfa_hopfcroft ---------- *)
HopMin(A, B) == IF Cardinality(A) <= Cardinality(B) THEN A ELSE B
HopSplitIn(D, Wb, a, B) == {p \in B : Delta(D, p, a) \in Wb}
HopSplits(D, P, Wb, a) ==
  {B \in P : Cardinality(B) > 1 /\ HopSplitIn(D, Wb, a, B) # {} /\ HopSplitIn(D, Wb, a, B) # B}
HopP(D, P, wa) ==
  LET sp == HopSplits(D, P, wa[1], wa[2])
  IN (P \ sp) \cup UNION {{HopSplitIn(D, wa[1], wa[2], B), B \ HopSplitIn(D, wa[1], wa[2], B)} : B \in sp}
HopW(D, P, W, wa) ==
  LET sp == HopSplits(D, P, wa[1], wa[2])
  IN (W \ {wa}) \cup {<<HopMin(HopSplitIn(D, wa[1], wa[2], B), B \ HopSplitIn(D, wa[1], wa[2], B)), b>> :
                         B \in sp, b \in D.S}
HopInitP(D) == {D.F, D.Q \ D.F} \ {{}}
HopInitW(D) == {<<HopMin(D.F, D.Q \ D.F), a>> : a \in D.S}

(* ---------- dfa_isomorphic1 (repaired) ---------- *)
(* state: [m, rm, todo, result]; m / rm are sets of pairs (the two dictionaries)   *)
IsoInit(D1, D2) == [m |-> {}, rm |-> {}, todo |-> {<<D1.q0, D2.q0>>}, result |-> "none"]
Img(rel, x) == {p[2] : p \in {p \in rel : p[1] = x}}
IsoStep(D1, D2, st, pr) ==
  LET q1 == pr[1]
      q2 == pr[2]
  IN IF \/ (q1 \in D1.F) # (q2 \in D2.F)
        \/ Img(st.rm, q2) \ {q1} # {}
        \/ Img(st.m, q1) \ {q2} # {}
     THEN [st EXCEPT !.result = "false", !.todo = st.todo \ {pr}]
     ELSE LET m2 == st.m \cup {<<q1, q2>>}
              succ == {<<Delta(D1, q1, a), Delta(D2, q2, a)>> : a \in D1.S}
              clash == \E p \in succ : Img(m2, p[1]) # {} /\ Img(m2, p[1]) # {p[2]}
          IN IF clash THEN [st EXCEPT !.result = "false", !.todo = st.todo \ {pr}]
             ELSE LET todo2 == (st.todo \ {pr}) \cup {p \in succ : Img(m2, p[1]) = {}}
                  IN [m |-> m2, rm |-> st.rm \cup {<<q2, q1>>}, todo |-> todo2,
                      result |-> IF todo2 = {} THEN "true" ELSE "none"]

(* ---------- dfa_minimize + dfa_from_table (table filling) ---------- *)
(* ord: the order list(Q) produced (a sequence enumerating D.Q); table[<<i,j>>] for i <= j *)
TfPairs(n) == {<<i, j>> \in (1..n) \X (1..n) : i <= j}
TfIdx(ord, q) == CHOOSE i \in DOMAIN ord : ord[i] = q
TfInit(D, ord) == [p \in TfPairs(Len(ord)) |-> (ord[p[1]] \in D.F) = (ord[p[2]] \in D.F)]
RECURSIVE TfPairList(_, _, _)
TfPairList(n, i, j) == IF i >= n THEN <<>>
                       ELSE IF j > n THEN TfPairList(n, i + 1, i + 2)
                       ELSE <<<<i, j>>>> \o TfPairList(n, i, j + 1)
RECURSIVE TfSweepFrom(_, _, _, _)
TfSweepFrom(D, ord, t, ps) ==
  IF ps = <<>> THEN t
  ELSE LET p == Head(ps)
           hit == t[p] /\ \E a \in D.S :
                     LET k == TfIdx(ord, Delta(D, ord[p[1]], a))
                         m == TfIdx(ord, Delta(D, ord[p[2]], a))
                     IN ~t[<<Min2(k, m), Max2(k, m)>>]
       IN TfSweepFrom(D, ord, IF hit THEN [t EXCEPT ![p] = FALSE] ELSE t, Tail(ps))
TfSweep(D, ord, t) == TfSweepFrom(D, ord, t, TfPairList(Len(ord), 1, 2))
RECURSIVE TfFix(_, _, _)
TfFix(D, ord, t) == LET t2 == TfSweep(D, ord, t) IN IF t2 = t THEN t ELSE TfFix(D, ord, t2)
RECURSIVE TfGroups(_, _, _, _, _)
TfGroups(ord, t, i, R, acc) ==
  IF i > Len(ord) THEN acc
  ELSE IF ord[i] \in R THEN TfGroups(ord, t, i + 1, R, Append(acc, {}))
  ELSE LET g == {ord[i]} \cup {ord[j] : j \in {j \in (i + 1)..Len(ord) : t[<<i, j>>]}}
       IN TfGroups(ord, t, i + 1, R \cup g, Append(acc, g))
TfBlocks(D, ord) == ToSet(TfGroups(ord, TfFix(D, ord, TfInit(D, ord)), 1, {}, <<>>)) \ {{}}

(* ---------- nfa_find_epsilon_path (repaired) ---------- *)
(* state: [visited, todo, bp, cur, found]; bp a set of <<target, src>> back-pointers *)
PathInit(R) == [visited |-> R, todo |-> R, bp |-> {}, cur |-> "~none~", found |-> FALSE]
PathPop(st, src) == [st EXCEPT !.todo = st.todo \ {src}, !.cur = src]
PathEdge(st, f, t) ==
  IF t \in st.visited THEN st
  ELSE IF t = f THEN [st EXCEPT !.bp = st.bp \cup {<<t, st.cur>>}, !.found = TRUE]
  ELSE [st EXCEPT !.bp = st.bp \cup {<<t, st.cur>>}, !.todo = st.todo \cup {t}, !.visited = st.visited \cup {t}]
RECURSIVE PathWalk(_, _, _, _)
(* make_path: follow the back-pointers from q until the source set is reached (fuel bounds the walk) *)
PathWalk(bp, R, q, fuel) ==
  IF q \in R \/ fuel = 0 THEN <<q>>
  ELSE LET prev == {p[2] : p \in {p \in bp : p[1] = q}}
       IN IF prev = {} THEN <<q>> ELSE PathWalk(bp, R, CHOOSE x \in prev : TRUE, fuel - 1) \o <<q>>

(* ---------- cfg_eliminate_unit_rules_in_place ---------- *)
(* R a sequence of rules, V the variable set; one visit of variable A appends      *)
UnitEdgesOf(R) == {<<r[1], r[2][1][2]>> : r \in {r \in ToSet(R) : IsUnitRule(r)}}
UnitDerivable(R, A) == ReachSet(UnitEdgesOf(R), {e[2] : e \in {e \in UnitEdgesOf(R) : e[1] = A}}) \ {A}
RECURSIVE AppendNewRules(_, _)
AppendNewRules(acc, xs) ==
  IF xs = <<>> THEN acc
  ELSE AppendNewRules(IF Head(xs) \in ToSet(acc) THEN acc ELSE Append(acc, Head(xs)), Tail(xs))
UnitVisit(R, R1, A) ==
  LET W == UnitDerivable(R, A)
      cands == SelectSeq(R, LAMBDA r : r[1] \in W /\ ~IsUnitRule(r))
  IN AppendNewRules(R1, [i \in DOMAIN cands |-> <<A, cands[i][2]>>])
RECURSIVE UnitVisitAll(_, _, _)
UnitVisitAll(R, R1, order) ==
  IF order = <<>> THEN R1 ELSE UnitVisitAll(R, UnitVisit(R, R1, Head(order)), Tail(order))
UnitFinish(R1) == SelectSeq(R1, LAMBDA r : ~IsUnitRule(r))
(* cfg_put_start_variable_in_front: swap the first rule of the start variable to the front *)
StartInFront(R, S) ==
  LET idx == {i \in DOMAIN R : R[i][1] = S}
  IN IF idx = {} THEN R
     ELSE LET i == CHOOSE i \in idx : \A j \in idx : i <= j
          IN [k \in DOMAIN R |-> IF k = 1 THEN R[i] ELSE IF k = i THEN R[1] ELSE R[k]]
=============================================================================
