--------------------------------- MODULE JNB ---------------------------------
(* Growth beyond the listed properties: the notebook's convenience wrappers (a text in, *)
(* an answer out).  They compose a parser with an enumerator / acceptance test, so the    *)
(* reference is LangOf / AcceptsOf of JCHK on the object the text was printed from.        *)
EXTENDS Util, FA, Regex, CFG, PDA, TM, JCHK

BadN(name, cond) == IF cond THEN {name} ELSE {}

(* dfa_language / nfa_language / pda_language / tm_language / cfg_language / regexp_language(text, n):   *)
(* the printed word set is exactly the language up to n                                                   *)
JNbLanguage(e) ==
  IF e.exc # "none" THEN {"raised_" \o e.exc}
  ELSE BadN("printed_language_is_language_up_to_n",
            ToSet(e.words) # LangOf(e.kind, e.obj, AlphabetOf(e.kind, e.obj), e.length))
       \cup BadN("no_word_printed_twice", Len(e.words) # Cardinality(ToSet(e.words)))
       \cup BadN("shorter_words_first", \E i, j \in DOMAIN e.words : i < j /\ Len(e.words[i]) > Len(e.words[j]))

(* nfa_accepts(text, word) / regexp_accepts(text, word) *)
JNbAccepts(e) ==
  IF e.exc # "none" THEN {"raised_" \o e.exc}
  ELSE BadN("answer_is_acceptance", e.res # AcceptsOf(e.kind, e.obj, e.word))

(* check_number_of_nfa_states(text, count): OK exactly when the automaton has count states *)
JNbCount(e) ==
  IF e.exc # "none" THEN {"raised_" \o e.exc}
  ELSE BadN("ok_iff_count", (e.verdict = "OK") # (Len(e.obj.Q) = e.count))
=============================================================================
