---------------------------- MODULE PdaSimSteps ----------------------------
(* Step operators of pda_algorithms.pda_simulate_word - the same shape as nfa_simulate_word     *)
(* (NfaSimSteps.tla) over CONFIGURATIONS <<state, stack>> (top = last):                           *)
(*   T_0 = {<<q0, <<>>>>}, E_i = closure(T_i), T_(i+1) = StepOn(E_i, w_(i+1))                      *)
(* backwards: front in E_n with an accepting state; per letter an epsilon path from T_i to front   *)
(* (pda_find_epsilon_path: a branch of a search tree rooted in T_i) and a configuration of E_(i-1)  *)
(* with a w_i-move to the head of that path (pda_find_transition).  Defined for words whose          *)
(* closures stay below the cap (ExactRun(...).below); then E_i is exact whatever the pop order.       *)
EXTENDS Util, PDA

RECURSIVE PPreSets(_, _, _, _)
PPreSets(P, T, w, cap) == IF w = <<>> THEN <<T>>
                          ELSE <<T>> \o PPreSets(P, StepOn(P, EpsClose(P, T, cap), Head(w)), Tail(w), cap)
PSimPre(P, w, cap) == PPreSets(P, {<<P.q0, <<>>>>}, w, cap)

IsEpsSegmentP(P, T, seg) ==
  /\ Len(seg) >= 1
  /\ seg[1] \in T
  /\ \A k \in 1..(Len(seg) - 1) : seg[k + 1] \in StepOn(P, {seg[k]}, P.eps)
  /\ \A j, k \in DOMAIN seg : j # k => seg[j] # seg[k]
  /\ (seg[Len(seg)] \in T => Len(seg) = 1)
  /\ \A k \in 2..Len(seg) : k < Len(seg) => seg[k] \notin T

(* all such segments inside the (exact, finite) closure E of T that end in f *)
RECURSIVE PPathsTo(_, _, _, _, _)
PPathsTo(P, T, E, suffix, fuel) ==
  LET h == suffix[1]
      here == IF h \in T THEN {suffix} ELSE {}
      preds == {c \in E : h \in StepOn(P, {c}, P.eps)} \ ToSet(suffix)
  IN IF fuel = 0 \/ h \in T THEN here
     ELSE UNION {PPathsTo(P, T, E, <<p>> \o suffix, fuel - 1) : p \in preds}
PEpsSegments(P, T, E, f) == {s \in PPathsTo(P, T, E, <<f>>, Cardinality(E)) : IsEpsSegmentP(P, T, s)}

PSuffix(w, i) == SubSeq(w, i + 1, Len(w))
(* run: sequence of <<state, unread, stack>> as recorded; its configurations with unread input u *)
PSegmentOf(run, u) == LET idx == {k \in DOMAIN run : run[k][2] = u}
                          lo == CHOOSE m \in idx : \A x \in idx : m <= x
                      IN [k \in 1..Cardinality(idx) |-> <<run[lo + k - 1][1], run[lo + k - 1][3]>>]

IsModelRunP(P, w, run, cap) ==
  LET pre == PSimPre(P, w, cap)
      n == Len(w)
  IN /\ Len(run) >= 1
     /\ \A k \in DOMAIN run : \E i \in 0..n : run[k][2] = PSuffix(w, i)
     /\ \A k \in 1..(Len(run) - 1) : Len(run[k + 1][2]) \in {Len(run[k][2]), Len(run[k][2]) - 1}
     /\ \A i \in 0..n : \E k \in DOMAIN run : run[k][2] = PSuffix(w, i)
     /\ \A i \in 0..n : IsEpsSegmentP(P, pre[i + 1], PSegmentOf(run, PSuffix(w, i)))
     /\ \A i \in 1..n : LET prev == PSegmentOf(run, PSuffix(w, i - 1))
                            cur == PSegmentOf(run, PSuffix(w, i))
                        IN cur[1] \in StepOn(P, {prev[Len(prev)]}, w[i]) /\ w[i] # P.eps
     /\ run[Len(run)][1] \in P.F
=============================================================================
