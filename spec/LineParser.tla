----------------------------- MODULE LineParser -----------------------------
(* Operational model of AutomatonParser.parse_line + the four builders          *)
(* (DFABuilder / NFABuilder / PDABuilder / TMBuilder .build): the description   *)
(* is consumed line by line (ParseLine), then the builder performs its checks   *)
(* in the order of the code (Build).  TLC explores every permutation of the     *)
(* lines of a small description, every subset of its optional declarations and  *)
(* every single-fault corruption, and checks that the operational outcome       *)
(* equals the declarative meaning of Text.tla:                                  *)
(*    err = "none"  <=>  WellFormed(D),   and then result = Describes(D).        *)
(* The terminal states are printed as behaviours (G) and replayed into the real *)
(* parse_dfa / parse_nfa / parse_pda / parse_tm.                                 *)
EXTENDS Util, Text, Json
CONSTANT Kind            \* "dfa", "nfa", "pda" or "tm"
CONSTANT FullOrders      \* TRUE: every permutation of up to 6 lines; FALSE: rotations and reversals only

(* the default epsilon / blank glyph, in the ASCII escape the harness uses *)
Glyph == IF Kind = "tm" THEN "~25a1~" ELSE "~03b5~"
Ok(a) == <<"ok", a = Glyph, a>>
OkP(a, u, v) == <<"ok", Glyph \in {a, u, v}, a, u, v>>        \* PDA label  a,uv
OkT(a, b, d) == <<"ok", Glyph \in {a, b}, a, b, d>>           \* TM label   ab,d
Bad(raw) == <<"bad", raw>>
Ln(k, t) == [k |-> k, t |-> t]

(* ---------- the base descriptions and their single-fault corruptions ---------- *)
(* dfa / nfa: two states p, q over {a}; the NFA adds an epsilon move              *)
(* pda: push X reading a, pop X on epsilon; tm: two moves and two halting states  *)
Mandatory ==
  CASE Kind = "dfa" -> {Ln("initial", <<"p">>), Ln("tr", <<"p", "q", Ok("a")>>), Ln("tr", <<"q", "q", Ok("a")>>)}
    [] Kind = "nfa" -> {Ln("initial", <<"p">>), Ln("tr", <<"p", "q", Ok("a")>>), Ln("tr", <<"q", "q", Ok("a")>>),
                        Ln("tr", <<"q", "p", Ok("e")>>)}
    [] Kind = "pda" -> {Ln("initial", <<"p">>), Ln("tr", <<"p", "q", OkP("a", "e", "X")>>),
                        Ln("tr", <<"q", "q", OkP("e", "X", "e")>>)}
    [] Kind = "tm"  -> {Ln("initial", <<"p">>), Ln("tr", <<"p", "p", OkT("a", "B", "R")>>),
                        Ln("tr", <<"p", "y", OkT("B", "B", "L")>>)}
Optional ==
  CASE Kind = "dfa" -> {Ln("states", <<"p", "q">>), Ln("final", <<"q">>), Ln("kw", <<"input_symbols", "a">>)}
    [] Kind = "nfa" -> {Ln("states", <<"p", "q">>), Ln("final", <<"q">>), Ln("kw", <<"input_symbols", "a">>),
                        Ln("kw", <<"epsilon", "e">>)}
    [] Kind = "pda" -> {Ln("states", <<"p", "q">>), Ln("final", <<"q">>), Ln("kw", <<"input_symbols", "a">>),
                        Ln("kw", <<"stack_symbols", "X">>), Ln("kw", <<"epsilon", "e">>)}
    [] Kind = "tm"  -> {Ln("states", <<"p", "y", "n">>), Ln("kw", <<"accept", "y">>), Ln("kw", <<"reject", "n">>),
                        Ln("kw", <<"input_symbols", "a">>), Ln("kw", <<"tape_symbols", "a", "B">>),
                        Ln("kw", <<"blank", "B">>)}
(* single faults: a line to add, or a line replacing another *)
CommonAdditions ==
  {Ln("initial", <<"q">>), Ln("final", <<"q", "q">>), Ln("states", <<>>), Ln("tr", <<"p", "q">>),
   Ln("kw", <<"input_symbols", "a">>), Ln("initial", <<>>), Ln("skip", <<>>), Ln("final", <<"r">>)}
Additions ==
  CommonAdditions \cup
  CASE Kind = "dfa" ->
         {Ln("states", <<"p", "q">>), Ln("states", <<"p", "q", "r">>), Ln("tr", <<"p", "p", Ok("a")>>),
          Ln("tr", <<"q", "r", Ok("a")>>), Ln("tr", <<"p", "q", Ok("b")>>), Ln("tr", <<"x-1", "q", Ok("a")>>),
          Ln("kw", <<"input_symbols", "a", "x-1">>)}
    [] Kind = "nfa" ->
         {Ln("states", <<"p", "q">>), Ln("states", <<"p", "q", "r">>), Ln("tr", <<"p", "p", Ok("a")>>),
          Ln("tr", <<"q", "r", Ok("a")>>), Ln("tr", <<"p", "q", Ok("b")>>), Ln("tr", <<"x-1", "q", Ok("a")>>),
          Ln("kw", <<"epsilon">>), Ln("kw", <<"epsilon", "e", "f">>), Ln("kw", <<"input_symbols", "a", "e">>),
          Ln("tr", <<"p", "p", Ok(Glyph)>>), Ln("kw", <<"input_symbols", "a", "x-1">>)}
    [] Kind = "pda" ->
         {Ln("states", <<"p", "q">>), Ln("states", <<"p", "q", "r">>), Ln("tr", <<"q", "r", OkP("a", "e", "X")>>),
          Ln("tr", <<"p", "q", OkP("b", "e", "e")>>), Ln("tr", <<"p", "q", OkP("a", "Y", "X")>>),
          Ln("tr", <<"p", "q", OkP("a", "X", "Y")>>), Ln("tr", <<"x-1", "q", OkP("a", "e", "X")>>),
          Ln("kw", <<"epsilon">>), Ln("kw", <<"epsilon", "e", "f">>), Ln("kw", <<"input_symbols", "a", "e">>),
          Ln("kw", <<"stack_symbols", "X", "e">>), Ln("kw", <<"stack_symbols", "X">>),
          Ln("tr", <<"p", "q", Bad("aX")>>), Ln("tr", <<"p", "q", OkP("a", "e", "X"), Bad("a,X")>>),
          Ln("tr", <<"p", "p", OkP("a", Glyph, "X")>>), Ln("tr", <<"p", "p", OkP(Glyph, "X", "X")>>),
          Ln("kw", <<"input_symbols", "a", "x-1">>), Ln("kw", <<"stack_symbols">>)}
    [] Kind = "tm" ->
         {Ln("states", <<"p", "y", "n">>), Ln("states", <<"p", "y", "n", "r">>), Ln("states", <<"p", "y">>),
          Ln("tr", <<"y", "r", OkT("a", "a", "R")>>), Ln("tr", <<"y", "p", OkT("c", "a", "R")>>),
          Ln("tr", <<"y", "p", OkT("a", "c", "L")>>), Ln("tr", <<"x-1", "p", OkT("a", "a", "R")>>),
          Ln("kw", <<"accept">>), Ln("kw", <<"accept", "y", "z">>), Ln("kw", <<"reject", "y">>), Ln("kw", <<"accept", "n">>),
          Ln("kw", <<"accept", "x-1">>), Ln("kw", <<"accept", "p">>), Ln("kw", <<"reject", "accept">>),
          Ln("kw", <<"blank">>), Ln("kw", <<"blank", "B", "C">>), Ln("kw", <<"blank", "a">>),
          Ln("kw", <<"input_symbols", "a", "B">>), Ln("kw", <<"input_symbols", "c">>), Ln("kw", <<"input_symbols">>),
          Ln("kw", <<"tape_symbols", "a">>), Ln("kw", <<"tape_symbols", "a", "B", "c">>),
          Ln("tr", <<"y", "p", Bad("aB,D")>>), Ln("tr", <<"y", "p", OkT("a", Glyph, "R")>>)}
Removals == Mandatory

VARIABLES lines, pos, items, states, trans, initial, final, err, ph, result, gl
vars == <<lines, pos, items, states, trans, initial, final, err, ph, result, gl>>

D == [kind |-> Kind, lines |-> lines, badstate |-> {"x-1"}, badsym |-> {"x-1"}, glyph |-> Glyph]

(* every order of up to 6 lines; for longer texts every rotation and its reversal *)
Orders(n) == IF FullOrders /\ n <= 6 THEN PermSeqs(1..n)
             ELSE {[k \in 1..n |-> ((k + r - 1) % n) + 1] : r \in 0..(n - 1)}
                  \cup {[k \in 1..n |-> ((n - k + r) % n) + 1] : r \in 0..(n - 1)}

Init == /\ lines = <<>> /\ pos = 0 /\ items = <<>> /\ states = {} /\ trans = <<>> /\ initial = {} /\ final = {}
        /\ err = "none" /\ ph = "pick" /\ result = <<>> /\ gl = FALSE
(* step 1: which lines; step 2: their order (spreads the cases over the workers) *)
PickLines == /\ ph = "pick" /\ ph' = "order"
             /\ \E opt \in SUBSET Optional :
                  \/ lines' = SetToSeq(Mandatory \cup opt)
                  \/ \E a \in Additions \ (Mandatory \cup opt) : lines' = SetToSeq(Mandatory \cup opt \cup {a})
                  \/ \E a \in Additions \cap (Mandatory \cup opt) :      \* the same line twice
                        lines' = SetToSeq(Mandatory \cup opt) \o <<a>>
                  \/ \E r \in Removals : lines' = SetToSeq((Mandatory \ {r}) \cup opt)
             /\ UNCHANGED <<pos, items, states, trans, initial, final, err, result, gl>>
PickOrder == /\ ph = "order" /\ ph' = "parse"
             /\ \E p \in Orders(Len(lines)) : lines' = [k \in 1..Len(lines) |-> lines[p[k]]]
             /\ pos' = 1
             /\ UNCHANGED <<items, states, trans, initial, final, err, result, gl>>

HasKey(k) == k \in DOMAIN items
Put(k, v) == [x \in DOMAIN items \cup {k} |-> IF x = k THEN v ELSE items[x]]
Fail(e) == err' = e /\ ph' = "done" /\ UNCHANGED <<lines, pos, items, states, trans, initial, final, result, gl>>

(* the transition tuple a label contributes: the shapes of Text!Describes *)
MkTr(p, q, lb) == CASE Kind \in {"dfa", "nfa"} -> <<p, lb[3], q>>
                    [] Kind = "pda" -> <<p, lb[3], lb[4], q, lb[5]>>
                    [] Kind = "tm"  -> <<p, lb[3], q, lb[4], lb[5]>>
SrcOf(t) == t[1]
DstOf(t) == IF Kind = "pda" THEN t[4] ELSE t[3]

(* AutomatonParser.parse_line *)
ParseLine ==
  /\ ph = "parse" /\ pos <= Len(lines)
  /\ LET l == lines[pos]
         t == l.t
     IN CASE l.k = "skip" -> pos' = pos + 1 /\ UNCHANGED <<lines, items, states, trans, initial, final, err, ph, result, gl>>
          [] l.k \in {"states", "final", "initial"} ->
               IF HasKey(l.k) THEN Fail("duplicate_key")
               ELSE IF ~SeqIsSet(t) THEN Fail("duplicate_entry")
               ELSE IF l.k = "states" /\ t = <<>> THEN Fail("empty_states")
               ELSE IF ToSet(t) \cap D.badstate # {} THEN Fail("bad_state_label")
               ELSE /\ items' = Put(l.k, t)
                    /\ states' = IF l.k = "states" THEN ToSet(t) ELSE states
                    /\ final' = IF l.k = "final" THEN ToSet(t) ELSE final
                    /\ initial' = IF l.k = "initial" THEN ToSet(t) ELSE initial
                    /\ pos' = pos + 1
                    /\ UNCHANGED <<lines, trans, err, ph, result, gl>>
          [] l.k = "kw" ->
               IF HasKey(t[1]) THEN Fail("duplicate_key")
               ELSE items' = Put(t[1], SubSeq(t, 2, Len(t))) /\ pos' = pos + 1
                    /\ UNCHANGED <<lines, states, trans, initial, final, err, ph, result, gl>>
          [] l.k = "tr" ->
               (* parse_transition: length, the two states, then the labels one by one *)
               IF Len(t) <= 2 THEN Fail("short_transition")
               ELSE IF {t[1], t[2]} \cap D.badstate # {} THEN Fail("bad_state_label")
               ELSE IF \E j \in 3..Len(t) : t[j][1] = "bad" THEN Fail("bad_transition_label")
               ELSE /\ trans' = trans \o [j \in 1..(Len(t) - 2) |-> MkTr(t[1], t[2], t[j + 2])]
                    /\ gl' = (gl \/ \E j \in 3..Len(t) : t[j][2])
                    /\ pos' = pos + 1
                    /\ UNCHANGED <<lines, items, states, initial, final, err, ph, result>>

EndOfText == /\ ph = "parse" /\ pos = Len(lines) + 1
             /\ ph' = "build"
             /\ UNCHANGED <<lines, pos, items, states, trans, initial, final, err, result, gl>>

(* ---------- the builders: the checks in the order of the code ---------- *)
Used == initial \cup final \cup {SrcOf(trans[j]) : j \in DOMAIN trans} \cup {DstOf(trans[j]) : j \in DOMAIN trans}
Val(key, default) == IF Len(items[key]) >= 1 THEN items[key][1] ELSE default
(* AutomatonBuilder.parse_symbol: the declared symbol, else the glyph if some label contains it, else "_" *)
SpecialKeyOp == IF Kind = "tm" THEN "blank" ELSE "epsilon"
EpsSym == IF HasKey(SpecialKeyOp) THEN Val(SpecialKeyOp, "_") ELSE IF gl THEN Glyph ELSE "_"
KeySet(key) == ToSet(items[key])
BadArity(key) == HasKey(key) /\ Len(items[key]) # 1

(* TMBuilder: accept / reject default to fresh names w.r.t. the DECLARED states *)
HaltOp(key) == IF HasKey(key) THEN Val(key, key) ELSE Fresh(states, key)
Sts == IF states # {} THEN states
       ELSE IF Kind = "tm" THEN Used \cup {HaltOp("accept"), HaltOp("reject")} ELSE Used

UsedSyms == CASE Kind = "dfa" -> {trans[j][2] : j \in DOMAIN trans}
              [] Kind \in {"nfa", "pda"} -> {trans[j][2] : j \in DOMAIN trans} \ {EpsSym}
              [] Kind = "tm" -> {}
UsedStackOp == UNION {{trans[j][3], trans[j][5]} : j \in DOMAIN trans} \ {EpsSym}
UsedTapeOp == UNION {{trans[j][2], trans[j][4]} : j \in DOMAIN trans}
(* get_symbol_set(key, used): the declared set (after checking used <= declared when used is not empty), else used *)
Undeclared(key, used) == HasKey(key) /\ ~(used \subseteq KeySet(key))
SetOr(key, used) == IF HasKey(key) THEN KeySet(key) ELSE used
Sigma == IF Kind = "tm"
         THEN (IF HasKey("input_symbols") THEN KeySet("input_symbols") ELSE SetOr("tape_symbols", UsedTapeOp) \ {EpsSym})
         ELSE SetOr("input_symbols", UsedSyms)
GammaOp == IF Kind = "tm" THEN SetOr("tape_symbols", UsedTapeOp) \cup {EpsSym} ELSE SetOr("stack_symbols", UsedStackOp)
(* TMBuilder: delta[p, a] = ... - the last line wins *)
LastWins == {trans[j] : j \in {j \in DOMAIN trans : ~\E k \in DOMAIN trans : k > j /\ trans[k][1] = trans[j][1]
                                                                            /\ trans[k][2] = trans[j][2]}}
Succeed(r) == /\ result' = r /\ ph' = "done"
              /\ UNCHANGED <<lines, pos, items, states, trans, initial, final, err, gl>>

BuildFA ==
  IF ~(Used \subseteq Sts) THEN Fail("undeclared_state")
  ELSE IF Sts \cap D.badstate # {} THEN Fail("bad_state_label")
  ELSE IF Cardinality(initial) # 1 THEN Fail("initial_count")
  ELSE IF Kind = "dfa" /\ \E a, b \in DOMAIN trans : a # b /\ trans[a][1] = trans[b][1] /\ trans[a][2] = trans[b][2]
       THEN Fail("nondeterministic")
  ELSE IF Kind = "nfa" /\ BadArity("epsilon") THEN Fail("missing_value")
  ELSE IF Undeclared("input_symbols", UsedSyms) THEN Fail("undeclared_symbol")
  ELSE IF Sigma \cap D.badsym # {} THEN Fail("bad_symbol")
  ELSE IF Kind = "dfa" /\ \E q \in Sts, a \in Sigma : ~\E j \in DOMAIN trans : trans[j][1] = q /\ trans[j][2] = a
       THEN Fail("not_total")
  ELSE IF Kind = "nfa" /\ EpsSym \in Sigma THEN Fail("class_invariant")
  ELSE Succeed([Q |-> Sts, S |-> Sigma, T |-> {trans[j] : j \in DOMAIN trans},
                q0 |-> CHOOSE q \in initial : TRUE, F |-> final,
                eps |-> IF Kind = "dfa" THEN "~eps~" ELSE EpsSym])

BuildPDA ==
  IF ~(Used \subseteq Sts) THEN Fail("undeclared_state")
  ELSE IF Sts \cap D.badstate # {} THEN Fail("bad_state_label")
  ELSE IF Cardinality(initial) # 1 THEN Fail("initial_count")
  ELSE IF BadArity("epsilon") THEN Fail("missing_value")
  ELSE IF Undeclared("input_symbols", UsedSyms) THEN Fail("undeclared_symbol")
  ELSE IF Undeclared("stack_symbols", UsedStackOp) THEN Fail("undeclared_symbol")
  ELSE IF Sigma \cap D.badsym # {} THEN Fail("bad_symbol")
  ELSE IF EpsSym \in Sigma \/ EpsSym \in GammaOp THEN Fail("class_invariant")       \* the asserts of PDA._check_validity
  ELSE Succeed([Q |-> Sts, S |-> Sigma, G |-> GammaOp, T |-> {trans[j] : j \in DOMAIN trans},
                q0 |-> CHOOSE q \in initial : TRUE, F |-> final, eps |-> EpsSym])

BuildTM ==
  IF BadArity("accept") \/ BadArity("reject") THEN Fail("missing_value")
  ELSE IF ~(Used \subseteq Sts) THEN Fail("undeclared_state")
  ELSE IF Sts \cap D.badstate # {} THEN Fail("bad_state_label")
  ELSE IF Cardinality(initial) # 1 THEN Fail("initial_count")
  ELSE IF BadArity("blank") THEN Fail("missing_value")
  ELSE IF Undeclared("tape_symbols", UsedTapeOp) THEN Fail("undeclared_symbol")
  ELSE IF \/ HaltOp("accept") = HaltOp("reject") \/ ~({HaltOp("accept"), HaltOp("reject")} \subseteq Sts)
          \/ EpsSym \in Sigma \/ ~(Sigma \subseteq GammaOp)
       THEN Fail("class_invariant")                                                  \* the asserts of TM._check_validity
  ELSE Succeed([Q |-> Sts, S |-> Sigma, G |-> GammaOp, T |-> LastWins,
                q0 |-> CHOOSE q \in initial : TRUE, qa |-> HaltOp("accept"), qr |-> HaltOp("reject"),
                blank |-> EpsSym])

Build == /\ ph = "build"
         /\ CASE Kind \in {"dfa", "nfa"} -> BuildFA
              [] Kind = "pda" -> BuildPDA
              [] Kind = "tm" -> BuildTM

Next == PickLines \/ PickOrder \/ ParseLine \/ EndOfText \/ Build
Spec == Init /\ [][Next]_vars

Done == ph = "done"
(* the operational parser refines the declarative meaning *)
RejectsExactlyMalformed == Done => ((err = "none") <=> WellFormed(D))
BuildsWhatIsDescribed == (Done /\ err = "none") => result = Describes(D)
(* the reported fault is one of the faults the description really has *)
ReportedFaultIsReal == (Done /\ err # "none") => err \in Faults(D)

EmitTrace == Done => PrintT(<<"TRACE", ToJson([kind |-> Kind, lines |-> lines, err |-> err,
                                               result |-> IF err = "none" THEN result ELSE [Q |-> {}]])>>)
=============================================================================
