----------------------------- MODULE LineParser -----------------------------
(* Operational model of AutomatonParser.parse_line + DFABuilder / NFABuilder   *)
(* .build: the description is consumed line by line (ParseLine), then the       *)
(* builder performs its checks in the order of the code (Build).  TLC explores  *)
(* every permutation of the lines of a small description, every subset of its   *)
(* optional declarations and every single-fault corruption, and checks that the *)
(* operational outcome equals the declarative meaning of Text.tla:              *)
(*    err = "none"  <=>  WellFormed(D),   and then result = Describes(D).        *)
(* The terminal states are printed as behaviours (G) and replayed into the real *)
(* parse_dfa / parse_nfa.                                                        *)
EXTENDS Util, Text, Json
CONSTANT Kind            \* "dfa" or "nfa"

Ok(a) == <<"ok", FALSE, a>>
Ln(k, t) == [k |-> k, t |-> t]
(* the base description: two states p, q over {a}; the NFA adds an epsilon move *)
Mandatory == {Ln("initial", <<"p">>), Ln("tr", <<"p", "q", Ok("a")>>), Ln("tr", <<"q", "q", Ok("a")>>)}
             \cup (IF Kind = "nfa" THEN {Ln("tr", <<"q", "p", Ok("e")>>)} ELSE {})
Optional == {Ln("states", <<"p", "q">>), Ln("final", <<"q">>), Ln("kw", <<"input_symbols", "a">>)}
            \cup (IF Kind = "nfa" THEN {Ln("kw", <<"epsilon", "e">>)} ELSE {})
(* single faults: a line to add, or a line replacing another *)
Additions ==
  {Ln("states", <<"p", "q">>), Ln("initial", <<"q">>), Ln("final", <<"q", "q">>), Ln("states", <<>>),
   Ln("tr", <<"p", "q">>), Ln("tr", <<"p", "p", Ok("a")>>), Ln("tr", <<"q", "r", Ok("a")>>),
   Ln("tr", <<"p", "q", Ok("b")>>), Ln("kw", <<"input_symbols", "a">>), Ln("initial", <<>>),
   Ln("tr", <<"x-1", "q", Ok("a")>>), Ln("skip", <<>>), Ln("final", <<"r">>), Ln("states", <<"p", "q", "r">>)}
  \cup (IF Kind = "nfa" THEN {Ln("kw", <<"epsilon">>), Ln("kw", <<"epsilon", "e", "f">>), Ln("kw", <<"input_symbols", "a", "e">>)}
        ELSE {})
Removals == Mandatory

VARIABLES lines, pos, items, states, trans, initial, final, err, ph, result
vars == <<lines, pos, items, states, trans, initial, final, err, ph, result>>

D == [kind |-> Kind, lines |-> lines, badstate |-> {"x-1"}, badsym |-> {}, glyph |-> "~eps-glyph~"]

(* every order of up to 6 lines; for longer texts every rotation and its reversal *)
Orders(n) == IF n <= 6 THEN PermSeqs(1..n)
             ELSE {[k \in 1..n |-> ((k + r - 1) % n) + 1] : r \in 0..(n - 1)}
                  \cup {[k \in 1..n |-> ((n - k + r) % n) + 1] : r \in 0..(n - 1)}

Init == /\ lines = <<>> /\ pos = 0 /\ items = <<>> /\ states = {} /\ trans = <<>> /\ initial = {} /\ final = {}
        /\ err = "none" /\ ph = "pick" /\ result = <<>>
(* step 1: which lines; step 2: their order (spreads the cases over the workers) *)
PickLines == /\ ph = "pick" /\ ph' = "order"
             /\ \E opt \in SUBSET Optional :
                  \/ lines' = SetToSeq(Mandatory \cup opt)
                  \/ \E a \in Additions \ (Mandatory \cup opt) : lines' = SetToSeq(Mandatory \cup opt \cup {a})
                  \/ \E a \in Additions \cap (Mandatory \cup opt) :      \* the same line twice
                        lines' = SetToSeq(Mandatory \cup opt) \o <<a>>
                  \/ \E r \in Removals : lines' = SetToSeq((Mandatory \ {r}) \cup opt)
             /\ UNCHANGED <<pos, items, states, trans, initial, final, err, result>>
PickOrder == /\ ph = "order" /\ ph' = "parse"
             /\ \E p \in Orders(Len(lines)) : lines' = [k \in 1..Len(lines) |-> lines[p[k]]]
             /\ pos' = 1
             /\ UNCHANGED <<items, states, trans, initial, final, err, result>>

HasKey(k) == k \in DOMAIN items
Put(k, v) == [x \in DOMAIN items \cup {k} |-> IF x = k THEN v ELSE items[x]]
Fail(e) == err' = e /\ ph' = "done" /\ UNCHANGED <<lines, pos, items, states, trans, initial, final, result>>

(* AutomatonParser.parse_line *)
ParseLine ==
  /\ ph = "parse" /\ pos <= Len(lines)
  /\ LET l == lines[pos]
         t == l.t
     IN CASE l.k = "skip" -> pos' = pos + 1 /\ UNCHANGED <<lines, items, states, trans, initial, final, err, ph, result>>
          [] l.k \in {"states", "final", "initial"} ->
               IF HasKey(l.k) THEN Fail("duplicate_key")
               ELSE IF ~SeqIsSet(t) THEN Fail("duplicate_entry")
               ELSE IF l.k = "states" /\ t = <<>> THEN Fail("empty_states")
               ELSE IF ToSet(t) \cap D.badstate # {} THEN Fail("bad_state_label")
               ELSE /\ items' = Put(l.k, t)
                    /\ states' = IF l.k = "states" THEN ToSet(t) ELSE states
                    /\ final' = IF l.k = "final" THEN ToSet(t) ELSE final
                    /\ initial' = IF l.k = "initial" THEN ToSet(t) ELSE initial
                    /\ pos' = pos + 1
                    /\ UNCHANGED <<lines, trans, err, ph, result>>
          [] l.k = "kw" ->
               IF HasKey(t[1]) THEN Fail("duplicate_key")
               ELSE items' = Put(t[1], SubSeq(t, 2, Len(t))) /\ pos' = pos + 1
                    /\ UNCHANGED <<lines, states, trans, initial, final, err, ph, result>>
          [] l.k = "tr" ->
               IF Len(t) <= 2 THEN Fail("short_transition")
               ELSE IF {t[1], t[2]} \cap D.badstate # {} THEN Fail("bad_state_label")
               ELSE /\ trans' = trans \o [j \in 1..(Len(t) - 2) |-> <<t[1], t[j + 2][3], t[2]>>]
                    /\ pos' = pos + 1
                    /\ UNCHANGED <<lines, items, states, initial, final, err, ph, result>>

EndOfText == /\ ph = "parse" /\ pos = Len(lines) + 1
             /\ ph' = "build"
             /\ UNCHANGED <<lines, pos, items, states, trans, initial, final, err, result>>

(* DFABuilder.build / NFABuilder.build: the checks in the order of the code *)
Used == initial \cup final \cup {trans[j][1] : j \in DOMAIN trans} \cup {trans[j][3] : j \in DOMAIN trans}
Sts == IF states # {} THEN states ELSE Used
EpsSym == IF HasKey("epsilon") THEN (IF Len(items["epsilon"]) >= 1 THEN items["epsilon"][1] ELSE "_") ELSE "_"
UsedSyms == IF Kind = "dfa" THEN {trans[j][2] : j \in DOMAIN trans}
            ELSE {trans[j][2] : j \in DOMAIN trans} \ {EpsSym}
Sigma == IF HasKey("input_symbols") THEN ToSet(items["input_symbols"]) ELSE UsedSyms

Build ==
  /\ ph = "build"
  /\ IF ~(Used \subseteq Sts) THEN Fail("undeclared_state")
     ELSE IF Cardinality(initial) # 1 THEN Fail("initial_count")
     ELSE IF Kind = "dfa" /\ \E a, b \in DOMAIN trans : a # b /\ trans[a][1] = trans[b][1] /\ trans[a][2] = trans[b][2]
          THEN Fail("nondeterministic")
     ELSE IF Kind = "nfa" /\ HasKey("epsilon") /\ Len(items["epsilon"]) # 1 THEN Fail("missing_value")
     ELSE IF HasKey("input_symbols") /\ ~(UsedSyms \subseteq Sigma) THEN Fail("undeclared_symbol")
     ELSE IF Kind = "dfa" /\ \E q \in Sts, a \in Sigma : ~\E j \in DOMAIN trans : trans[j][1] = q /\ trans[j][2] = a
          THEN Fail("not_total")
     ELSE IF Kind = "nfa" /\ EpsSym \in Sigma THEN Fail("class_invariant")
     ELSE /\ result' = [Q |-> Sts, S |-> Sigma, T |-> {trans[j] : j \in DOMAIN trans},
                        q0 |-> CHOOSE q \in initial : TRUE, F |-> final,
                        eps |-> IF Kind = "dfa" THEN "~eps~" ELSE EpsSym]
          /\ ph' = "done"
          /\ UNCHANGED <<lines, pos, items, states, trans, initial, final, err>>

Next == PickLines \/ PickOrder \/ ParseLine \/ EndOfText \/ Build
Spec == Init /\ [][Next]_vars

Done == ph = "done"
(* the operational parser refines the declarative meaning *)
RejectsExactlyMalformed == Done => ((err = "none") <=> WellFormed(D))
BuildsWhatIsDescribed == (Done /\ err = "none") => result = Describes(D)
(* the reported fault is one of the faults the description really has *)
ReportedFaultIsReal == (Done /\ err # "none") => err \in Faults(D)

EmitTrace == Done => PrintT(<<"TRACE", ToJson([kind |-> Kind, lines |-> lines, err |-> err,
                                               result |-> IF err = "none" THEN result ELSE [Q |-> {}]])>>)
=============================================================================
