-------------------------------- MODULE TmRun --------------------------------
(* Model of tm_do_transition / tm_accepts_word / tm_simulate_word: the step loop *)
(* with a budget.  The model is written like the (repaired) code: the halting     *)
(* test comes before the first step, a missing transition moves to the rejecting  *)
(* state keeping the symbol and moving right, L at cell 0 stays, the tape grows    *)
(* by one blank when the head leaves it.  The reference (TM.tla) is the           *)
(* configuration function Run/Verdict written from the statement.                 *)
(* Init: every TM with one working state w0 over tape alphabet Gam (blank          *)
(* included), every word up to MaxLen over Sig, budget Budget.                     *)
EXTENDS Util, TM
CONSTANTS Gam, Sig, Blank, MaxLen, Budget
Qs == {"w0", "qA", "qR"}
Opts == {<<"none">>} \cup {<<q, b, d>> : q \in Qs, b \in Gam, d \in {"L", "R"}}
MkTm(f) == [Q |-> Qs, S |-> Sig, G |-> Gam,
            T |-> {<<"w0", a, f[a][1], f[a][2], f[a][3]>> : a \in {a \in Gam : f[a] # <<"none">>}},
            q0 |-> "w0", qa |-> "qA", qr |-> "qR", blank |-> Blank]

VARIABLES T, w, q, tape, head, steps, hist, stage
vars == <<T, w, q, tape, head, steps, hist, stage>>

Init == T = MkTm([a \in Gam |-> <<"none">>]) /\ w = <<>> /\ q = "w0" /\ tape = <<Blank>> /\ head = 0
        /\ steps = 0 /\ hist = <<>> /\ stage = 0
PickW == /\ stage = 0 /\ stage' = 1
         /\ w' \in WordsUpTo(Sig, MaxLen)
         /\ UNCHANGED <<T, q, tape, head, steps, hist>>
PickT == /\ stage = 1 /\ stage' = 2
         /\ \E f \in [Gam -> Opts] : T' = MkTm(f)
         /\ tape' = IF w = <<>> THEN <<Blank>> ELSE w
         /\ hist' = <<[q |-> "w0", tape |-> IF w = <<>> THEN <<Blank>> ELSE w, head |-> 0]>>
         /\ UNCHANGED <<w, q, head, steps>>

Halted == q \in {"qA", "qR"}
Step == /\ stage = 2 /\ ~Halted /\ steps < Budget
        /\ LET a == tape[head + 1]
               hits == {t \in T.T : t[1] = q /\ t[2] = a}
               tr == IF hits = {} THEN <<q, a, "qR", a, "R">> ELSE CHOOSE t \in hits : TRUE
               tape1 == [tape EXCEPT ![head + 1] = tr[4]]
               head1 == IF tr[5] = "L" THEN (IF head = 0 THEN 0 ELSE head - 1) ELSE head + 1
               tape2 == IF head1 = Len(tape1) THEN Append(tape1, Blank) ELSE tape1
           IN /\ q' = tr[3] /\ tape' = tape2 /\ head' = head1
              /\ hist' = Append(hist, [q |-> tr[3], tape |-> tape2, head |-> head1])
        /\ steps' = steps + 1
        /\ UNCHANGED <<T, w, stage>>

Next == PickW \/ PickT \/ Step
Spec == Init /\ [][Next]_vars

VerdictNow == IF q = "qA" THEN "true" ELSE IF q = "qR" THEN "false" ELSE "none"
(* configuration k of the model = configuration k of the reference *)
ConfIsReference == stage = 2 => hist = Run(T, w, steps)
VerdictIsReference == stage = 2 => VerdictNow = Verdict(T, w, steps)
(* a decided verdict is never changed by a larger budget: once halted, no step is enabled *)
DecidedIsFinal == [][(stage = 2 /\ Halted) => UNCHANGED <<q, tape, head, hist>>]_vars
HeadOnTape == stage = 2 => head < Len(tape)
=============================================================================
