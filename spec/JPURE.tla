-------------------------------- MODULE JPURE --------------------------------
(* Judge clauses for C19: purity and independence of history / hash order.       *)
EXTENDS Util, FA, Regex, CFG, PDA, TM

BadU(name, cond) == IF cond THEN {name} ELSE {}

(* one call: arguments before and after, the result of the call and of calling it again *)
SameResult(kind, a, b, n) ==
  CASE kind = "value" -> a = b
    [] kind = "text" -> TRUE      \* printers: the order of labels on a line may follow the hash order (not constrained)
    [] kind = "fa" -> FaEquiv(FaOf(a), FaOf(b))
    [] kind = "re" -> ReEquiv(a, b)
    [] kind = "cfg" -> LET S == ToSet(a.S) \cup ToSet(b.S) IN CfgLangUpTo(CfgOf(a), S, n) = CfgLangUpTo(CfgOf(b), S, n)
    [] kind = "pda" -> PdaLangUpTo(PdaOf(a), n) = PdaLangUpTo(PdaOf(b), n)

JPureCall(e) ==
  BadU("operands_unchanged", e.before # e.after)
  \cup BadU("same_result_when_called_again", e.exc = "none" /\ e.exc2 = "none" /\ ~SameResult(e.rkind, e.res, e.res2, 3))
  \cup BadU("same_outcome_when_called_again", (e.exc = "none") # (e.exc2 = "none"))

(* the same case executed elsewhere: other process, other hash seed, other history, logging on/off *)
JSameElsewhere(e) ==
  BadU("same_as_elsewhere",
       \E i \in 2..Len(e.results) : ~SameResult(e.rkind, e.results[1], e.results[i], 3))
  \cup BadU("same_outcome_elsewhere", \E i \in 2..Len(e.excs) : e.excs[i] # e.excs[1])
=============================================================================
