--------------------------------- MODULE Iso ---------------------------------
(* Model of dfa_algorithms.dfa_isomorphic1 (worklist of state pairs, `todo` a  *)
(* Python set: \E pair \in todo).  Mode = "fixed" models the repaired code:     *)
(* a popped pair is refuted when q1 already has another partner or q2 already  *)
(* has another pre-image; "inverse" checks only the second (TLC shows it is not *)
(* enough); "pinned" is the pinned revision (deviation Iso_NotInjective).       *)
(* D1 ranges over the DFAs on QA, D2 over the DFAs on QB.                       *)
EXTENDS Util, FA, Steps
CONSTANTS QA, QB, S, Q0, Mode

DfaOf(Q, d, F) == [Q |-> Q, S |-> S, T |-> {<<q, a, d[<<q, a>>]>> : q \in Q, a \in S},
                   q0 |-> Q0, F |-> F, eps |-> "~none~"]
DfasWithF(Q, F) == {DfaOf(Q, d, F) : d \in [Q \X S -> Q]}
Dummy(Q) == DfaOf(Q, [p \in Q \X S |-> Q0], {})
None == "none"

VARIABLES D1, D2, st, stage
vars == <<D1, D2, st, stage>>

Init == D1 = Dummy(QA) /\ D2 = Dummy(QB) /\ st = IsoInit(Dummy(QA), Dummy(QB)) /\ stage = 0
PickF == /\ stage = 0 /\ stage' = 1
         /\ \E F1 \in SUBSET QA, F2 \in SUBSET QB :
               D1' = [Dummy(QA) EXCEPT !.F = F1] /\ D2' = [Dummy(QB) EXCEPT !.F = F2]
         /\ UNCHANGED st
PickD == /\ stage = 1 /\ stage' = 2
         /\ D1' \in DfasWithF(QA, D1.F) /\ D2' \in DfasWithF(QB, D2.F)
         /\ st' = IsoInit(D1', D2')

(* the step of the pinned revision (no injectivity test) and of the partial repair *)
LegacyStep(s, pr) ==
  LET q1 == pr[1]
      q2 == pr[2]
  IN IF (q1 \in D1.F) # (q2 \in D2.F) \/ (Mode = "inverse" /\ Img(s.rm, q2) \ {q1} # {})
     THEN [s EXCEPT !.result = "false", !.todo = s.todo \ {pr}]
     ELSE LET m2 == {p \in s.m : p[1] # q1} \cup {<<q1, q2>>}       \* matching[q1] = q2 overwrites
              succ == {<<Delta(D1, q1, a), Delta(D2, q2, a)>> : a \in S}
              clash == \E p \in succ : Img(m2, p[1]) # {} /\ Img(m2, p[1]) # {p[2]}
          IN IF clash THEN [s EXCEPT !.result = "false", !.todo = s.todo \ {pr}]
             ELSE LET todo2 == (s.todo \ {pr}) \cup {p \in succ : Img(m2, p[1]) = {}}
                  IN [m |-> m2, rm |-> s.rm \cup {<<q2, q1>>}, todo |-> todo2,
                      result |-> IF todo2 = {} THEN "true" ELSE "none"]

Pick(pr) ==
  /\ stage = 2 /\ st.result = None /\ pr \in st.todo
  /\ st' = IF Mode = "fixed" THEN IsoStep(D1, D2, st, pr) ELSE LegacyStep(st, pr)
  /\ UNCHANGED <<D1, D2, stage>>

Next == PickF \/ PickD \/ \E pr \in st.todo : Pick(pr)
Spec == Init /\ [][Next]_vars /\ WF_vars(Next)

result == st.result
Decided == result # None
AnswerIsBijection == (stage = 2 /\ Decided) => ((result = "true") = IsoExists(D1, D2))
Terminates == <>(Decided)
(* the answer does not depend on the pick order: follows from AnswerIsBijection  *)
=============================================================================
