----------------------------- MODULE DfaSession -----------------------------
(* The DFA part of the public API as a history of calls over a heap of mutable  *)
(* containers (C19, C14).  A DFA object holds REFERENCES to its state set, its   *)
(* alphabet, its transition table and its accepting set (heap cells); a call     *)
(* either builds a new object - from fresh containers or from containers it      *)
(* shares with an operand - or changes the containers of an object in place      *)
(* (dfa_make_total_in_place, the only in-place DFA operation of the library).    *)
(*   complement            Mode = "pinned": Q, Sigma and delta are SHARED with    *)
(*                         the operand (the pinned revision); "fixed": copied     *)
(*   make_total            deepcopy, then the in-place operation                  *)
(*   make_total_in_place   adds fresh_state(Q,'trap') to Q and the missing moves  *)
(*                         to delta (always, also for a total automaton)          *)
(*   union                 new Q, delta, F; the alphabet object of the first      *)
(*                         operand is shared (harmless: nothing changes it)       *)
(*   remove_unreachable    new Q, delta, F; alphabet shared                       *)
(*   no_extend             everything copied                                     *)
(* Property: a call changes the observable content of no object other than the   *)
(* target of an in-place operation (OperandsUnchanged).  In pinned mode TLC finds *)
(* the history  C = complement(D); make_total_in_place(C)  that changes D.        *)
(* Behaviours are printed (EmitTrace) and replayed into the real functions (G).   *)
EXTENDS Util, FA, Json
CONSTANTS Mode, MaxCalls, States, Syms

VARIABLES store, heap, ncell, ncalls, last, hist
vars == <<store, heap, ncell, ncalls, last, hist>>

NoEps == "~none~"
Abs(o, hp) == [Q |-> hp[o.Qc], S |-> hp[o.Sc], T |-> hp[o.Tc], q0 |-> o.q0, F |-> hp[o.Fc], eps |-> NoEps]
IsTotal(A) == \A q \in A.Q, a \in A.S : \E t \in A.T : t[1] = q /\ t[2] = a
(* DFA._check_validity *)
Constructible(A) == /\ A.q0 \in A.Q /\ A.F \subseteq A.Q
                    /\ \A t \in A.T : t[1] \in A.Q /\ t[2] \in A.S /\ t[3] \in A.Q
                    /\ IsTotal(A)

RECURSIVE FreshFrom(_, _, _)
FreshFrom(X, hint, k) == LET nm == hint \o ToString(k) IN IF nm \notin X THEN nm ELSE FreshFrom(X, hint, k + 1)
Fresh(X, hint) == FreshFrom(X, hint, 1)            \* dfa_algorithms.fresh_state

Pair(p, q) == "(" \o p \o "," \o q \o ")"
MoveTo(A, q, a) == (CHOOSE t \in A.T : t[1] = q /\ t[2] = a)[3]
UnionVal(A, B) ==
  [Q |-> {Pair(p, q) : p \in A.Q, q \in B.Q}, S |-> A.S,
   T |-> {<<Pair(p, q), a, Pair(MoveTo(A, p, a), MoveTo(B, q, a))>> : p \in A.Q, q \in B.Q, a \in A.S},
   q0 |-> Pair(A.q0, B.q0), F |-> {Pair(p, q) : p \in A.F, q \in B.Q} \cup {Pair(p, q) : p \in A.Q, q \in B.F},
   eps |-> NoEps]
Edges(A) == {<<t[1], t[3]>> : t \in A.T}
ReachFrom(A, X) == ReachSet(Edges(A), X)
RemoveUnreachableVal(A) == LET R == ReachFrom(A, {A.q0})
                           IN [A EXCEPT !.Q = R, !.T = {t \in A.T : t[1] \in R}, !.F = A.F \cap R]
Succ(A, X) == {t[3] : t \in {t \in A.T : t[1] \in X}}
NoExtendVal(A) == [A EXCEPT !.F = {f \in A.F : ReachFrom(A, Succ(A, {f})) \cap A.F = {}}]
Missing(A, QQ) == {qa \in QQ \X A.S : ~\E t \in A.T : t[1] = qa[1] /\ t[2] = qa[2]}
TotalVal(A) == LET trap == Fresh(A.Q, "trap")
                   QQ == A.Q \cup {trap}
               IN [A EXCEPT !.Q = QQ, !.T = A.T \cup {<<qa[1], qa[2], trap>> : qa \in Missing(A, QQ)}]

(* allocation: the object gets the given cells or fresh ones (0 = allocate) *)
Put(hp, c, v) == [x \in DOMAIN hp \cup {c} |-> IF x = c THEN v ELSE hp[x]]
NewObj(A, share, hp, nc) ==
  LET qc == IF share.Qc # 0 THEN share.Qc ELSE nc
      n1 == IF share.Qc # 0 THEN nc ELSE nc + 1
      sc == IF share.Sc # 0 THEN share.Sc ELSE n1
      n2 == IF share.Sc # 0 THEN n1 ELSE n1 + 1
      tc == IF share.Tc # 0 THEN share.Tc ELSE n2
      n3 == IF share.Tc # 0 THEN n2 ELSE n2 + 1
      fc == n3
      h1 == IF share.Qc # 0 THEN hp ELSE Put(hp, qc, A.Q)
      h2 == IF share.Sc # 0 THEN h1 ELSE Put(h1, sc, A.S)
      h3 == IF share.Tc # 0 THEN h2 ELSE Put(h2, tc, A.T)
  IN [obj |-> [Qc |-> qc, Sc |-> sc, Tc |-> tc, Fc |-> fc, q0 |-> A.q0], hp |-> Put(h3, fc, A.F), nc |-> n3 + 1]
NoShare == [Qc |-> 0, Sc |-> 0, Tc |-> 0]

(* the initial object: any automaton over States / Syms with a partial transition function *)
Init ==
  \E F \in SUBSET States :
    LET A == [Q |-> States, S |-> Syms, T |-> {}, q0 |-> CHOOSE q \in States : TRUE, F |-> F, eps |-> NoEps]
        a == NewObj(A, NoShare, <<>>, 1)
    IN /\ store = <<a.obj>> /\ heap = a.hp /\ ncell = a.nc /\ ncalls = 0
       /\ last = [op |-> "init"] /\ hist = <<>>
(* its moves are chosen one (state, symbol) at a time - spreads the cases over the workers *)
AddMove == /\ ncalls = 0 /\ Len(store) = 1
           /\ \E q \in States, a \in Syms, r \in States :
                 /\ ~\E t \in heap[store[1].Tc] : t[1] = q /\ t[2] = a
                 /\ \A t \in heap[store[1].Tc] : <<t[1], t[2]>> \in {<<x, y>> \in States \X Syms : <<x, y>> # <<q, a>>}
                 /\ heap' = [heap EXCEPT ![store[1].Tc] = @ \cup {<<q, a, r>>}]
           /\ UNCHANGED <<store, ncell, ncalls, last, hist>>

Record(op, args, exc) ==
  /\ ncalls' = ncalls + 1
  /\ hist' = Append(hist, [op |-> op, args |-> args])
  /\ last' = [op |-> op, args |-> args, exc |-> exc]
Fail(op, args, exc) == Record(op, args, exc) /\ UNCHANGED <<store, heap, ncell>>
Create(op, args, A, share) ==
  IF Constructible(A)
  THEN LET a == NewObj(A, share, heap, ncell)
       IN store' = Append(store, a.obj) /\ heap' = a.hp /\ ncell' = a.nc /\ Record(op, args, "none")
  ELSE Fail(op, args, "AssertionError")

Complement(i) ==
  /\ ncalls < MaxCalls
  /\ LET o == store[i]
         A == Abs(o, heap)
     IN Create("complement", <<i>>, [A EXCEPT !.F = A.Q \ A.F],
               IF Mode = "pinned" THEN [Qc |-> o.Qc, Sc |-> o.Sc, Tc |-> o.Tc] ELSE NoShare)
MakeTotal(i) ==
  /\ ncalls < MaxCalls
  /\ Create("make_total", <<i>>, TotalVal(Abs(store[i], heap)), NoShare)
MakeTotalInPlace(i) ==
  /\ ncalls < MaxCalls
  /\ LET o == store[i]
         B == TotalVal(Abs(o, heap))
     IN /\ heap' = [heap EXCEPT ![o.Qc] = B.Q, ![o.Tc] = B.T]
        /\ Record("make_total_in_place", <<i>>, "none")
        /\ UNCHANGED <<store, ncell>>
Union(i, j) ==
  /\ ncalls < MaxCalls
  /\ LET A == Abs(store[i], heap)
         B == Abs(store[j], heap)
     IN IF A.S # B.S THEN Fail("union", <<i, j>>, "AssertionError")
        ELSE IF ~(IsTotal(A) /\ IsTotal(B)) THEN Fail("union", <<i, j>>, "KeyError")
        ELSE Create("union", <<i, j>>, UnionVal(A, B), [Qc |-> 0, Sc |-> store[i].Sc, Tc |-> 0])
(* dfa_reachable_states looks up delta[u, a] for every state it reaches: KeyError when a move is missing there *)
LookupFails(A, X) == \E u \in ReachFrom(A, X), a \in A.S : ~\E t \in A.T : t[1] = u /\ t[2] = a
RemoveUnreachable(i) ==
  /\ ncalls < MaxCalls
  /\ LET A == Abs(store[i], heap)
     IN IF LookupFails(A, {A.q0}) THEN Fail("remove_unreachable", <<i>>, "KeyError")
        ELSE Create("remove_unreachable", <<i>>, RemoveUnreachableVal(A), [Qc |-> 0, Sc |-> store[i].Sc, Tc |-> 0])
NoExtend(i) ==
  /\ ncalls < MaxCalls
  /\ LET A == Abs(store[i], heap)
     IN IF LookupFails(A, A.F) THEN Fail("no_extend", <<i>>, "KeyError")
        ELSE Create("no_extend", <<i>>, NoExtendVal(A), NoShare)

Next == \/ AddMove
        \/ \E i \in DOMAIN store : \/ Complement(i) \/ MakeTotal(i) \/ MakeTotalInPlace(i) \/ RemoveUnreachable(i) \/ NoExtend(i)
                                   \/ \E j \in DOMAIN store : Union(i, j)
Spec == Init /\ [][Next]_vars

-----------------------------------------------------------------------------
(* C19: a call changes no object except the target of an in-place operation *)
OperandsUnchanged ==
  [][ncalls' = ncalls + 1 =>
       \A x \in DOMAIN store : (last'.op = "make_total_in_place" /\ x = last'.args[1])
                                \/ Abs(store'[x], heap') = Abs(store[x], heap)]_vars
(* every object is a well-formed automaton over its own containers (partial only where it was created so) *)
ObjectsWellFormed == \A x \in DOMAIN store : LET A == Abs(store[x], heap)
                                             IN A.q0 \in A.Q /\ A.F \subseteq A.Q /\ \A t \in A.T : {t[1], t[3]} \subseteq A.Q
(* C14 on the way: the language of a new object is what the operation promises (exact) *)
ResultLanguage ==
  (last.op \notin {"init", "make_total_in_place"} /\ last.exc = "none") =>
     LET R == Abs(store[Len(store)], heap)
         A == Abs(store[last.args[1]], heap)
     IN CASE last.op = "complement" -> IsComplementOf(R, A)
          [] last.op = "union" -> IsUnionOf(R, A, Abs(store[last.args[2]], heap))
          [] last.op \in {"remove_unreachable", "make_total"} -> FaEquiv(R, A)
          [] OTHER -> TRUE

(* (G) one JSON line per visited state after at least one call *)
AbsJson(o) == LET A == Abs(o, heap) IN [Q |-> A.Q, S |-> A.S, T |-> A.T, q0 |-> A.q0, F |-> A.F]
EmitTrace == ncalls >= 1 => PrintT(<<"TRACE", ToJson([hist |-> hist, exc |-> last.exc,
                                                       objs |-> [i \in DOMAIN store |-> AbsJson(store[i])]])>>)
=============================================================================
