----------------------------- MODULE RegexCode -----------------------------
(* Transcriptions of the library's recursive regexp functions (the code, not  *)
(* the semantics): regexp_simplify, regexp_accepts_word, regexp_words_up_to_n. *)
EXTENDS Util, Regex

Zero == <<"zero">>
One == <<"one">>

(* which of the nine rewrite rules of regexp_simplify fires at the root, given *)
(* the already simplified operands                                            *)
RuleAt(r, l, rr) ==
  CASE r[1] \in {"zero", "one", "sym"} -> "leaf"
    [] r[1] = "star" -> IF l[1] \in {"zero", "one"} THEN "star_const"
                        ELSE IF l[1] = "star" THEN "star_star" ELSE "star_keep"
    [] r[1] = "sum"  -> IF l[1] = "zero" THEN "sum_zero_left"
                        ELSE IF rr[1] = "zero" THEN "sum_zero_right" ELSE "sum_keep"
    [] r[1] = "cat"  -> IF l[1] = "zero" THEN "cat_zero_left"
                        ELSE IF l[1] = "one" THEN "cat_one_left"
                        ELSE IF rr[1] = "zero" THEN "cat_zero_right"
                        ELSE IF rr[1] = "one" THEN "cat_one_right" ELSE "cat_keep"

RECURSIVE Simp(_)
Simp(r) ==
  IF r[1] \in {"zero", "one", "sym"} THEN r
  ELSE LET l == Simp(r[2])
           rr == IF r[1] = "star" THEN l ELSE Simp(r[3])
           rule == RuleAt(r, l, rr)
       IN CASE rule = "star_const" -> One
            [] rule = "star_star" -> l
            [] rule = "star_keep" -> <<"star", l>>
            [] rule = "sum_zero_left" -> rr
            [] rule = "sum_zero_right" -> l
            [] rule = "sum_keep" -> <<"sum", l, rr>>
            [] rule = "cat_zero_left" -> Zero
            [] rule = "cat_one_left" -> rr
            [] rule = "cat_zero_right" -> Zero
            [] rule = "cat_one_right" -> l
            [] rule = "cat_keep" -> <<"cat", l, rr>>

(* one elimination step of gnfa_minimize on the labels dg (a function on pairs of the states Qg): every *)
(* pair (i, j) of remaining states with i # accept, j # start gets simplify(R1.R2*.R3 + R4).  Shared by   *)
(* the GnfaRip model's action and by the validation of observed rip traces (JTRACE).                     *)
RipLabels(Qg, dg, q, qs, qa) ==
  LET Q2 == Qg \ {q}
      R2 == dg[<<q, q>>]
  IN [pq \in DOMAIN dg |->
        IF pq[1] \in Q2 \ {qa} /\ pq[2] \in Q2 \ {qs}
        THEN Simp(<<"sum", <<"cat", dg[<<pq[1], q>>], <<"cat", <<"star", R2>>, dg[<<q, pq[2]>>]>>>>, dg[pq]>>)
        ELSE dg[pq]]

(* the symbols of a left-nested sum of symbols (the shape dfa_to_gnfa gives to parallel edges) *)
RECURSIVE SumSyms(_)
SumSyms(t) == IF t[1] = "sym" THEN <<t[2]>>
              ELSE IF t[1] = "sum" /\ t[3][1] = "sym" THEN SumSyms(t[2]) \o <<t[3][2]>>
              ELSE <<"?not-a-sum-of-symbols">>

RootRule(r) == IF r[1] \in {"zero", "one", "sym"} THEN "leaf"
               ELSE RuleAt(r, Simp(r[2]), IF r[1] = "star" THEN Simp(r[2]) ELSE Simp(r[3]))

(* regexp_accepts_word: split recursion; star consumes a NON-EMPTY prefix *)
RECURSIVE MatchCode(_, _)
MatchCode(r, w) ==
  CASE r[1] = "zero" -> FALSE
    [] r[1] = "one"  -> Len(w) = 0
    [] r[1] = "sym"  -> w = <<r[2]>>
    [] r[1] = "sum"  -> MatchCode(r[2], w) \/ MatchCode(r[3], w)
    [] r[1] = "cat"  -> \E k \in 0..Len(w) :
                          MatchCode(r[2], SubSeq(w, 1, k)) /\ MatchCode(r[3], SubSeq(w, k + 1, Len(w)))
    [] r[1] = "star" -> IF Len(w) = 0 THEN TRUE
                        ELSE \E k \in 1..Len(w) :
                               MatchCode(r[2], SubSeq(w, 1, k)) /\ MatchCode(r, SubSeq(w, k + 1, Len(w)))

(* regexp_words_up_to_n: budget splitting *)
Cat2(L1, L2) == {u \o v : u \in L1, v \in L2}
RECURSIVE EnumCode(_, _)
EnumCode(r, n) ==
  CASE r[1] = "zero" -> {}
    [] r[1] = "one"  -> {<<>>}
    [] r[1] = "sym"  -> IF n > 0 THEN {<<r[2]>>} ELSE {}
    [] r[1] = "sum"  -> EnumCode(r[2], n) \cup EnumCode(r[3], n)
    [] r[1] = "cat"  -> UNION {Cat2(EnumCode(r[2], k), EnumCode(r[3], n - k)) : k \in 0..n}
    [] r[1] = "star" -> IF n = 0 THEN {<<>>}
                        ELSE {<<>>} \cup UNION {Cat2(EnumCode(r[2], k), EnumCode(r, n - k)) : k \in 1..n}

(* all trees with exactly k operators over the leaves *)
Leaves(Sy) == {Zero, One} \cup {<<"sym", a>> : a \in Sy}
RECURSIVE TreesOps(_, _)
TreesOps(Sy, k) ==
  IF k = 0 THEN Leaves(Sy)
  ELSE {<<"star", t>> : t \in TreesOps(Sy, k - 1)}
       \cup UNION {{<<op, l, r>> : op \in {"sum", "cat"}, l \in TreesOps(Sy, j), r \in TreesOps(Sy, k - 1 - j)}
                   : j \in 0..(k - 1)}
=============================================================================
