------------------------------- MODULE PdaRun -------------------------------
(* Model of pda_epsilon_closure / pda_do_transition / pda_accepts_word.          *)
(* The closure is a worklist over a Python set (`todo.pop()`: \E c \in todo)       *)
(* bounded by MaxIter pops (GambaTools.pda_epsilon_closure_max_iterations).        *)
(* Init: every PDA on 2 states, input {a}, stack {X} with at most MaxMoves moves,   *)
(* every accepting set, every word up to MaxLen.                                    *)
EXTENDS Util, PDA
CONSTANTS MaxMoves, MaxLen, MaxIter
Eps == "eps"
Qs == {"s0", "s1"}
Pool == {<<p, a, u, q, v>> : p \in Qs, a \in {"a", Eps}, u \in {"X", Eps}, q \in Qs, v \in {"X", Eps}}
Mk(T, F) == [Q |-> Qs, S |-> {"a"}, G |-> {"X"}, T |-> T, q0 |-> "s0", F |-> F, eps |-> Eps]

VARIABLES P, w, i, R, todo, iter, ph, truncated
vars == <<P, w, i, R, todo, iter, ph, truncated>>
C0 == {<<"s0", <<>>>>}

Init == P = Mk({}, {}) /\ w = <<>> /\ i = 0 /\ R = {} /\ todo = {} /\ iter = 0 /\ ph = "pick" /\ truncated = FALSE
PickF == /\ ph = "pick" /\ ph' = "build"
         /\ \E F \in SUBSET Qs : P' = Mk({}, F)
         /\ w' \in WordsUpTo({"a"}, MaxLen)
         /\ UNCHANGED <<i, R, todo, iter, truncated>>
(* the transition relation is built one move at a time (SUBSET Pool has 2^32 elements) *)
AddMove == /\ ph = "build" /\ Cardinality(P.T) < MaxMoves
           /\ \E t \in Pool \ P.T : P' = Mk(P.T \cup {t}, P.F)
           /\ UNCHANGED <<w, i, R, todo, iter, ph, truncated>>
Go == /\ ph = "build" /\ ph' = "close"
      /\ R' = C0 /\ todo' = C0 /\ iter' = 0
      /\ UNCHANGED <<P, w, i, truncated>>

Pop(c) == /\ ph = "close" /\ c \in todo /\ iter < MaxIter
          /\ R' = PcResult(P, R, c)
          /\ todo' = PcTodo(P, R, todo, c)
          /\ iter' = iter + 1
          /\ UNCHANGED <<P, w, i, ph, truncated>>

EndClose == /\ ph = "close" /\ (todo = {} \/ iter = MaxIter)
            /\ truncated' = (truncated \/ todo # {})
            /\ IF i = Len(w) THEN ph' = "done" /\ UNCHANGED <<i, R, todo, iter>>
               ELSE LET R2 == StepOn(P, R, w[i + 1])
                    IN i' = i + 1 /\ R' = R2 /\ todo' = R2 /\ iter' = 0 /\ ph' = "close"
            /\ UNCHANGED <<P, w>>

Next == PickF \/ AddMove \/ Go \/ (\E c \in todo : Pop(c)) \/ EndClose
Spec == Init /\ [][Next]_vars /\ WF_vars(Next)

Verdict == \E c \in R : c[1] \in P.F
Sound == ph = "done" => (Verdict => PdaAccepts(P, w))
CompleteBelowLimit == ph = "done" => ((ExactRun(P, w, MaxIter).below /\ PdaAccepts(P, w)) => Verdict)
(* the ghost `truncated` ties the antecedent to what the loop really did *)
BelowMeansNotTruncated == ph = "done" => (ExactRun(P, w, MaxIter).below => ~truncated)
(* the two formulations of the oracle agree where the second is defined *)
OracleAgrees == ph = "done" => (ExactRun(P, w, MaxIter + 2).below =>
                                   (AcceptsByConfigs(P, w, MaxIter + 2) <=> PdaAccepts(P, w)))
Terminates == <>(ph = "done")
=============================================================================
