------------------------------- MODULE Judge -------------------------------
(* Trace specification at API granularity.  Each line of the NDJSON file     *)
(* named by the environment variable EVENTS is one recorded call of the real *)
(* library (operation, abstract arguments, abstract result).  One state per  *)
(* consumed event (l' = l + 1); the single action evaluates the reference    *)
(* semantics on the logged values and names every clause of the property     *)
(* the event violates.  Verdicts are total: a failing event is printed as    *)
(* <<"FAIL", id, {clauses}>> and the run continues; <<"DONE", n>> proves      *)
(* every event was consumed.                                                 *)
EXTENDS Util, FA, Json, IOUtils

Events == ndJsonDeserialize(IOEnv.EVENTS)

VARIABLE l

-----------------------------------------------------------------------------
(* C01 *)
JEclose(e) ==
  LET A == FaOf(e.fa)
  IN {c \in {"closure_is_eps_reach"} :
        \E i \in DOMAIN e.cases :
           ToSet(e.cases[i].res) # EClosure(A, ToSet(e.cases[i].arg))}

JAcceptsAll(e) ==
  LET A == FaOf(e.fa)
      acc == ToSet(e.accepted)
  IN {c \in {"accepted_iff_accepting_run"} :
        \E w \in WordsUpTo(A.S, e.n) : (w \in acc) # NfaAccepts(A, w)}
     \cup
     {c \in {"accepted_words_over_alphabet"} : ~(acc \subseteq WordsUpTo(A.S, e.n))}

-----------------------------------------------------------------------------
Fails(e) ==
  CASE e.op = "eclose"        -> JEclose(e)
    [] e.op = "accepts_all"   -> JAcceptsAll(e)
    [] OTHER                  -> {"unknown_op"}

Init == l = 1

Next ==
  \/ /\ l <= Len(Events)
     /\ LET e == Events[l]
            f == Fails(e)
        IN IF f = {} THEN TRUE ELSE PrintT(<<"FAIL", e.id, f>>)
     /\ l' = l + 1
  \/ /\ l = Len(Events) + 1
     /\ PrintT(<<"DONE", Len(Events)>>)
     /\ l' = l + 1

Spec == Init /\ [][Next]_l
=============================================================================
