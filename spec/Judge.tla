------------------------------- MODULE Judge -------------------------------
(* Trace specification at API granularity.  Each line of the NDJSON file     *)
(* named by the environment variable EVENTS is one recorded call of the real *)
(* library (operation, abstract arguments, abstract result).  One state per  *)
(* consumed event (l' = l + 1); the single action evaluates the reference    *)
(* semantics on the logged values and names every clause of the property     *)
(* the event violates.  Verdicts are total: a failing event is printed as    *)
(* <<"FAIL", id, {clauses}>> and the run continues; <<"DONE", n>> proves      *)
(* every event was consumed.                                                 *)
EXTENDS Util, FA, Regex, CFG, PDA, TM, JFA, JRE, JCFG, JPDA, JTM, JENUM, JWIT, JTXT, JPARSE, JCHK, JPURE, JTRACE, JEXTRA, JNB, Json, IOUtils

Events == ndJsonDeserialize(IOEnv.EVENTS)

VARIABLE l

Fails(e) ==
  CASE e.op = "eclose"        -> JEclose(e)
    [] e.op = "accepts_all"   -> JAcceptsAll(e)
    [] e.op = "nfa_to_dfa"    -> JNfaToDfa(e)
    [] e.op = "minimise"      -> JMinimise(e)
    [] e.op = "dfa_op"        -> JDfaOp(e)
    [] e.op = "lang_op"       -> JLangOp(e)
    [] e.op = "nfa_op"        -> JNfaOp(e)
    [] e.op = "iso"           -> JIso(e)
    [] e.op = "session_replay" -> JSessionReplay(e)
    [] e.op = "operands_kept" -> JOperandsKept(e)
    [] e.op = "re_accepts"    -> JReAccepts(e)
    [] e.op = "re_simplify"   -> JReSimplify(e)
    [] e.op = "re_to_nfa"     -> JReToNfa(e)
    [] e.op = "dfa_to_re"     -> JDfaToRe(e)
    [] e.op = "cfg_accepts"   -> JCfgAccepts(e)
    [] e.op = "cyk_matrix"    -> JCykMatrix(e)
    [] e.op = "chomsky_phase" -> JChomskyPhase(e)
    [] e.op = "to_chomsky"    -> JToChomsky(e)
    [] e.op = "derive"        -> JDerive(e)
    [] e.op = "pda_accepts"   -> JPdaAccepts(e)
    [] e.op = "pda_transform" -> JPdaTransform(e)
    [] e.op = "tm_run"        -> JTmRun(e)
    [] e.op = "enum"          -> JEnum(e)
    [] e.op = "cfg_cleanup"   -> JCfgCleanup(e)
    [] e.op = "cfg_to_fa"     -> JCfgToFa(e)
    [] e.op = "random_obj"    -> JRandom(e)
    [] e.op = "automata_checker" -> JAutomataChecker(e)
    [] e.op = "reachable"     -> JReachable(e)
    [] e.op = "is_push_pop"   -> JPushPop(e)
    [] e.op = "fresh"         -> JFresh(e)
    [] e.op = "idgen"         -> JIdGen(e)
    [] e.op = "nb_language"   -> JNbLanguage(e)
    [] e.op = "nb_accepts"    -> JNbAccepts(e)
    [] e.op = "nb_count"      -> JNbCount(e)
    [] e.op = "ec_trace"      -> JEcTrace(e)
    [] e.op = "hop_trace"     -> JHopTrace(e)
    [] e.op = "iso_trace"     -> JIsoTrace(e)
    [] e.op = "rip_trace"     -> JRipTrace(e)
    [] e.op = "pc_trace"      -> JPcTrace(e)
    [] e.op = "unit_trace"    -> JUnitTrace(e)
    [] e.op = "path_trace"    -> JPathTrace(e)
    [] e.op = "sched_replay"  -> JSchedReplay(e)
    [] e.op = "pure_call"     -> JPureCall(e)
    [] e.op = "same_elsewhere" -> JSameElsewhere(e)
    [] e.op = "check"         -> JCheck(e)
    [] e.op = "selfcheck"     -> JSelfCheck(e)
    [] e.op = "parse"         -> JParse(e)
    [] e.op = "parser_replay" -> JParserReplay(e)
    [] e.op = "roundtrip"     -> JRoundtrip(e)
    [] e.op = "roundtrip_re"  -> JRoundtripRe(e)
    [] e.op = "sim_fa"        -> JSimFa(e)
    [] e.op = "sim_pda"       -> JSimPda(e)
    [] OTHER                  -> {"unknown_op"}

Init == l = 1

Next ==
  \/ /\ l <= Len(Events)
     /\ LET e == Events[l]
            f == Fails(e)
        IN IF f = {} THEN TRUE ELSE PrintT(<<"FAIL", e.id, f>>)
     /\ l' = l + 1
  \/ /\ l = Len(Events) + 1
     /\ PrintT(<<"DONE", Len(Events)>>)
     /\ l' = l + 1

Spec == Init /\ [][Next]_l
=============================================================================
