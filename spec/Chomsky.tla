------------------------------- MODULE Chomsky -------------------------------
(* Model of cfg_eliminate_unit_rules_in_place, the schedule-dependent phase of   *)
(* the Chomsky conversion: `for A in V` visits the variables of a Python set in   *)
(* an arbitrary order (ord, chosen in the second step); for each A the non-unit    *)
(* rules of every variable unit-derivable from A are appended to R1 unless already *)
(* present; finally the unit rules are dropped.                                    *)
(* Init ranges over all sets of at most MaxRules unit / terminal / binary rules.    *)
EXTENDS Util, CFG, Steps
CONSTANTS V, MaxRules, N
Sig == {"a", "b"}
Tm(a) == <<"t", a>>
Vr(x) == <<"v", x>>
First == CHOOSE x \in V : TRUE
AllRules == {<<l, <<Vr(x)>>>> : l \in V, x \in V} \cup {<<l, <<Tm(a)>>>> : l \in V, a \in Sig}
            \cup {<<l, <<Vr(First), Tm("a")>>>> : l \in V}

VARIABLES Rs, ord, idx, R1, stage
vars == <<Rs, ord, idx, R1, stage>>

G0 == [V |-> V, S |-> Sig, R |-> SetToSeq(Rs), start |-> First]

(* cfg_derivable_variables: variables reachable through unit rules, without A itself *)
UnitEdges == {<<r[1], r[2][1][2]>> : r \in {r \in Rs : IsUnitRule(r)}}
Derivable(A) == ReachSet(UnitEdges, {e[2] : e \in {e \in UnitEdges : e[1] = A}}) \ {A}

Init == Rs = {} /\ ord = <<>> /\ idx = 0 /\ R1 = <<>> /\ stage = 0
PickR == /\ stage = 0 /\ stage' = 1
         /\ Rs' \in {r \in SUBSET AllRules : Cardinality(r) <= MaxRules /\ r # {}}
         /\ UNCHANGED <<ord, idx, R1>>
PickOrd == /\ stage = 1 /\ stage' = 2
           /\ ord' \in {f \in [1..Cardinality(V) -> V] : \A i, j \in 1..Cardinality(V) : i # j => f[i] # f[j]}
           /\ R1' = SetToSeq(Rs)              \* R1 = R.copy()
           /\ idx' = 1
           /\ UNCHANGED Rs

Visit == /\ stage = 2 /\ idx <= Cardinality(V)
         /\ R1' = UnitVisit(SetToSeq(Rs), R1, ord[idx])
         /\ idx' = idx + 1
         /\ UNCHANGED <<Rs, ord, stage>>

Finish == /\ stage = 2 /\ idx = Cardinality(V) + 1
          /\ R1' = UnitFinish(R1)
          /\ stage' = 3
          /\ UNCHANGED <<Rs, ord, idx>>

Next == PickR \/ PickOrd \/ Visit \/ Finish
Spec == Init /\ [][Next]_vars /\ WF_vars(Next)

G1 == [G0 EXCEPT !.R = R1]
Done == stage = 3
NoUnitRules == Done => \A r \in ToSet(R1) : ~IsUnitRule(r)
(* the rule SET does not depend on the visiting order: it is the unit closure *)
ResultIsUnitClosure ==
  Done => ToSet(R1) = {<<A, r[2]>> : A \in V, r \in {r \in Rs : ~IsUnitRule(r)}}
                      \cap {x \in V \X {r[2] : r \in Rs} :
                              \E r \in Rs : ~IsUnitRule(r) /\ r[2] = x[2] /\ (r[1] = x[1] \/ r[1] \in Derivable(x[1]))}
SameLanguage == Done => \A A \in V :
   CfgLangUpTo([G1 EXCEPT !.start = A], Sig, N) = CfgLangUpTo([G0 EXCEPT !.start = A], Sig, N)
Terminates == <>Done
=============================================================================
