------------------------------- MODULE Lemmas -------------------------------
(* Who checks the oracle: TLC-checked equalities between independent          *)
(* formulations of the reference semantics on small universes.  Every initial *)
(* state is one case (x); the invariants are the lemmas.                      *)
EXTENDS Util, FA, Regex
CONSTANTS Kind, Q, S, Q0, N

DfaOf(d, F) == [Q |-> Q, S |-> S, T |-> {<<q, a, d[<<q, a>>]>> : q \in Q, a \in S},
                q0 |-> Q0, F |-> F, eps |-> "~none~"]
AllDfas == {DfaOf(d, F) : d \in [Q \X S -> Q], F \in SUBSET Q}
Eps == "eps"
AllNfas == {[Q |-> Q, S |-> S, T |-> T, q0 |-> Q0, F |-> F, eps |-> Eps] :
              T \in SUBSET (Q \X (S \cup {Eps}) \X Q), F \in SUBSET Q}

VARIABLES x, picked
(* TLC generates the successors of a state and checks the invariants on them   *)
(* in one thread: the case is chosen in two steps so that all workers evaluate *)
(* lemmas.                                                                     *)
Dummy == DfaOf([p \in Q \X S |-> Q0], {})
DummyN == [Dummy EXCEPT !.eps = Eps]
Init == /\ picked = 0
        /\ x = CASE Kind = "ops3" -> <<Dummy, Dummy, Dummy>>
                  [] Kind = "ops2" -> <<Dummy, Dummy>>
                  [] Kind = "nfa" -> DummyN
                  [] OTHER -> Dummy
Pick1 == /\ picked = 0
         /\ picked' = 1
         /\ CASE Kind = "ops3"  -> \E A \in AllDfas : x' = <<A, Dummy, Dummy>>
              [] Kind = "ops2"  -> \E A \in AllDfas : x' = <<A, Dummy>>
              [] Kind = "nfa"   -> \E F \in SUBSET Q : x' = [DummyN EXCEPT !.F = F]
              [] Kind = "dfa"   -> \E F \in SUBSET Q : x' = [Dummy EXCEPT !.F = F]
Pick2 == /\ picked = 1
         /\ picked' = 2
         /\ CASE Kind = "ops3"  -> \E B \in AllDfas, C \in AllDfas : x' = <<x[1], B, C>>
              [] Kind = "ops2"  -> \E B \in AllDfas : x' = <<x[1], B>>
              [] Kind = "nfa"   -> \E T \in SUBSET (Q \X (S \cup {Eps}) \X Q) : x' = [x EXCEPT !.T = T]
              [] Kind = "dfa"   -> \E d \in [Q \X S -> Q] : x' = DfaOf(d, x.F)
Next == Pick1 \/ Pick2
Spec == Init /\ [][Next]_<<x, picked>>

L(A) == LangOver(A, S, N)
(* --- language operations (three DFAs: is C the union/... of A and B?) --- *)
UnionLemma == (Kind = "ops3" /\ picked = 2) =>
   (IsUnionOf(x[3], x[1], x[2]) <=> L(x[3]) = L(x[1]) \cup L(x[2]))
InterLemma == (Kind = "ops3" /\ picked = 2) =>
   (IsInterOf(x[3], x[1], x[2]) <=> L(x[3]) = L(x[1]) \cap L(x[2]))
SymDiffLemma == (Kind = "ops3" /\ picked = 2) =>
   (IsSymDiffOf(x[3], x[1], x[2]) <=> L(x[3]) = (L(x[1]) \ L(x[2])) \cup (L(x[2]) \ L(x[1])))
(* --- unary operations (two DFAs: is C the complement/... of A?) --- *)
AllW == WordsUpTo(S, N)
ShortW == WordsUpTo(S, N - Cardinality(Q))    \* prefix/extension facts need room below the bound
ComplLemma == (Kind = "ops2" /\ picked = 2) => (IsComplementOf(x[2], x[1]) <=> L(x[2]) = AllW \ L(x[1]))
RevLemma == (Kind = "ops2" /\ picked = 2) => (IsReverseOf(x[2], x[1]) <=> L(x[2]) = {Rev(w) : w \in L(x[1])})
NoPrefixLemma == (Kind = "ops2" /\ picked = 2) =>
   (IsNoPrefixOf(x[2], x[1]) <=> L(x[2]) = {w \in L(x[1]) : ~\E u \in L(x[1]) : IsProperPrefixOf(u, w)})
NoExtendLemma == (Kind = "ops2" /\ picked = 2) =>
   (IsNoExtendOf(x[2], x[1]) =>
       \A w \in ShortW : (w \in L(x[2])) <=> (w \in L(x[1]) /\ ~\E v \in L(x[1]) : IsProperPrefixOf(w, v)))
EquivLemma == (Kind = "ops2" /\ picked = 2) => (FaEquiv(x[1], x[2]) <=> L(x[1]) = L(x[2]))
(* --- acceptance: configuration graph vs closed-subset stepping --- *)
AcceptLemma == (Kind = "nfa" /\ picked = 2) => \A w \in AllW : NfaAccepts(x, w) <=> AcceptsBySubsets(x, w)
ClosureLemma == (Kind = "nfa" /\ picked = 2) =>
   \A X \in SUBSET Q : EClosure(x, X) = {q \in Q : \E p \in X : <<q, 0>> \in ReachSet(ConfEdges(x, <<>>), {<<p, 0>>})}
(* --- Myhill-Nerode: automaton-based vs word-based --- *)
MooreLemma == (Kind = "dfa" /\ picked = 2) =>
   MoorePartition(x) = {{q \in Q : StatesEquivalent(x, p, q)} : p \in Q}
NerodeLemma == (Kind = "dfa" /\ picked = 2) => \A p, q \in Q : StatesEquivalent(x, p, q) <=> StatesEquivalentByWords(x, p, q)
=============================================================================
