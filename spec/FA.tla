-------------------------------- MODULE FA --------------------------------
(* Reference semantics of finite automata (DFA, NFA with epsilon moves).    *)
(* Written from the formal definitions, NOT in the shape of the library's   *)
(* algorithms.  An automaton value is a record                              *)
(*   [Q, S, T, q0, F, eps]  with Q, S, F sets, T a set of <<p, a, q>>.      *)
(* A DFA is such a value whose T is a total function on Q x S (no eps).     *)
EXTENDS Util

FaOf(j) == [Q |-> ToSet(j.Q), S |-> ToSet(j.S), T |-> ToSet(j.T),
            q0 |-> j.q0, F |-> ToSet(j.F), eps |-> j.eps]

-----------------------------------------------------------------------------
(* validity (the class invariants of nfa.py / dfa.py, stated declaratively) *)
ValidNFA(A) ==
  /\ A.q0 \in A.Q
  /\ A.F \subseteq A.Q
  /\ A.eps \notin A.S
  /\ \A t \in A.T : t[1] \in A.Q /\ t[3] \in A.Q /\ t[2] \in (A.S \cup {A.eps})

ValidDFA(A) ==
  /\ A.q0 \in A.Q
  /\ A.F \subseteq A.Q
  /\ \A t \in A.T : t[1] \in A.Q /\ t[3] \in A.Q /\ t[2] \in A.S
  /\ \A q \in A.Q : \A a \in A.S :
        Cardinality({t \in A.T : t[1] = q /\ t[2] = a}) = 1

-----------------------------------------------------------------------------
(* epsilon closure: states reachable by epsilon moves alone                 *)
EpsEdges(A) == {<<t[1], t[3]>> : t \in {t \in A.T : t[2] = A.eps}}
EClosure(A, X) == ReachSet(EpsEdges(A), X)

(* Acceptance by the definition: an accepting run exists, i.e. a path in the *)
(* configuration graph Q x (0..|w|) from (q0,0) to some (f,|w|).             *)
ConfEdges(A, w) ==
  {<<<<t[1], i>>, <<t[3], i>>>> : t \in {t \in A.T : t[2] = A.eps}, i \in 0..Len(w)}
  \cup
  UNION {{<<<<t[1], i - 1>>, <<t[3], i>>>> : t \in {t \in A.T : t[2] = w[i] /\ t[2] # A.eps}}
          : i \in 1..Len(w)}

NfaAccepts(A, w) ==
  LET R == ReachSet(ConfEdges(A, w), {<<A.q0, 0>>})
  IN \E f \in A.F : <<f, Len(w)>> \in R

(* Second, independent formulation: closed-subset stepping.                 *)
Move(A, X, a) == {t[3] : t \in {t \in A.T : t[1] \in X /\ t[2] = a /\ a # A.eps}}
Step(A, X, a) == EClosure(A, Move(A, X, a))
RECURSIVE RunFrom(_, _, _)
RunFrom(A, X, w) == IF w = <<>> THEN X ELSE RunFrom(A, Step(A, X, Head(w)), Tail(w))
Start(A) == EClosure(A, {A.q0})
AcceptsBySubsets(A, w) == RunFrom(A, Start(A), w) \cap A.F # {}

LangUpTo(A, n) == {w \in WordsUpTo(A.S, n) : AcceptsBySubsets(A, w)}
LangUpToDef(A, n) == {w \in WordsUpTo(A.S, n) : NfaAccepts(A, w)}
(* language restricted to an explicit alphabet (for comparing automata)     *)
LangOver(A, S, n) == {w \in WordsUpTo(S, n) : AcceptsBySubsets(A, w)}

-----------------------------------------------------------------------------
(* Exact equivalence of two automata (all word lengths): no reachable pair   *)
(* of the on-the-fly subset product disagrees on acceptance.                 *)
RECURSIVE PairReach(_, _, _, _, _)
PairReach(A, B, S, seen, frontier) ==
  IF frontier = {} THEN seen
  ELSE LET nxt == {<<Step(A, p[1], a), Step(B, p[2], a)>> : p \in frontier, a \in S} \ seen
       IN PairReach(A, B, S, seen \cup nxt, nxt)

ProductPairs(A, B) ==
  LET s0 == <<Start(A), Start(B)>> IN PairReach(A, B, A.S \cup B.S, {s0}, {s0})

FaEquiv(A, B) == \A p \in ProductPairs(A, B) : (p[1] \cap A.F # {}) <=> (p[2] \cap B.F # {})

(* generic: language relation given by a predicate on (acceptsA, acceptsB)   *)
AllPairsSatisfy(A, B, C, Op(_, _, _)) ==
  (* three-way product: C must accept exactly Op(A accepts, B accepts)       *)
  LET S == A.S \cup B.S \cup C.S
      s0 == <<Start(A), Start(B), Start(C)>>
      RECURSIVE R3(_, _)
      R3(seen, frontier) ==
        IF frontier = {} THEN seen
        ELSE LET nxt == {<<Step(A, p[1], a), Step(B, p[2], a), Step(C, p[3], a)>>
                           : p \in frontier, a \in S} \ seen
             IN R3(seen \cup nxt, nxt)
  IN \A p \in R3({s0}, {s0}) :
        (p[3] \cap C.F # {}) <=> Op(p[1] \cap A.F # {}, p[2] \cap B.F # {}, TRUE)

-----------------------------------------------------------------------------
(* DFA notions                                                               *)
Delta(D, q, a) == CHOOSE r \in D.Q : <<q, a, r>> \in D.T
DfaEdges(D) == {<<t[1], t[3]>> : t \in D.T}
Reach(D) == ReachSet(DfaEdges(D), {D.q0})
WithStart(D, q) == [D EXCEPT !.q0 = q]
StatesEquivalent(D, p, q) == FaEquiv(WithStart(D, p), WithStart(D, q))
NerodeClasses(D, X) == Cardinality({{q \in X : StatesEquivalent(D, p, q)} : p \in X})
PairwiseDistinguishable(D) ==
  \A p, q \in D.Q : p # q => ~StatesEquivalent(D, p, q)

(* Moore's partition refinement: a third, cheap formulation of the Myhill-Nerode classes        *)
(* (cross-checked against the other two in Lemmas.tla; used where a model evaluates the classes  *)
(* in millions of states)                                                                        *)
RECURSIVE MooreFix(_, _)
MooreFix(D, P) ==
  LET Blk(q) == CHOOSE B \in P : q \in B
      Same(p, q) == Blk(p) = Blk(q) /\ \A a \in D.S : Blk(Delta(D, p, a)) = Blk(Delta(D, q, a))
      P2 == {{q \in D.Q : Same(p, q)} : p \in D.Q}
  IN IF P2 = P THEN P ELSE MooreFix(D, P2)
MoorePartition(D) == MooreFix(D, {D.F, D.Q \ D.F} \ {{}})

(* word-based Myhill-Nerode test (independent of FaEquiv): p ~ q iff no word  *)
(* shorter than |Q| separates them                                           *)
RECURSIVE DeltaStar(_, _, _)
DeltaStar(D, q, w) == IF w = <<>> THEN q ELSE DeltaStar(D, Delta(D, q, Head(w)), Tail(w))
StatesEquivalentByWords(D, p, q) ==
  \A w \in WordsUpTo(D.S, Cardinality(D.Q) - 1) :
      (DeltaStar(D, p, w) \in D.F) <=> (DeltaStar(D, q, w) \in D.F)

(* isomorphism of the reachable parts: brute force over bijections           *)
IsoExists(D1, D2) ==
  LET R1 == Reach(D1)
      R2 == Reach(D2)
  IN /\ D1.S = D2.S
     /\ Cardinality(R1) = Cardinality(R2)
     /\ \E f \in [R1 -> R2] :
          /\ \A x, y \in R1 : x # y => f[x] # f[y]
          /\ f[D1.q0] = D2.q0
          /\ \A x \in R1 : (x \in D1.F) <=> (f[x] \in D2.F)
          /\ \A x \in R1 : \A a \in D1.S : f[Delta(D1, x, a)] = Delta(D2, f[x], a)

-----------------------------------------------------------------------------
(* Reference language operations, decided exactly through products           *)
IsUnionOf(C, A, B)  == AllPairsSatisfy(A, B, C, LAMBDA x, y, z : x \/ y)
IsInterOf(C, A, B)  == AllPairsSatisfy(A, B, C, LAMBDA x, y, z : x /\ y)
IsSymDiffOf(C, A, B) == AllPairsSatisfy(A, B, C, LAMBDA x, y, z : x # y)
IsComplementOf(C, A) == AllPairsSatisfy(A, A, C, LAMBDA x, y, z : ~x)

(* mirror image: B(eps) = F, B(wa) = pre_a(B(w)); w^R accepted iff q0 in B    *)
(* We decide "C accepts exactly the mirror image of L(D)" (D a DFA) by        *)
(* running C forward and the backward-set automaton of D side by side.        *)
Pre(D, X, a) == {t[1] : t \in {t \in D.T : t[2] = a /\ t[3] \in X}}
IsReverseOf(C, D) ==
  LET S == C.S \cup D.S
      s0 == <<Start(C), D.F>>
      RECURSIVE RR(_, _)
      RR(seen, frontier) ==
        IF frontier = {} THEN seen
        ELSE LET nxt == {<<Step(C, p[1], a), Pre(D, p[2], a)>> : p \in frontier, a \in S} \ seen
             IN RR(seen \cup nxt, nxt)
  IN \A p \in RR({s0}, {s0}) : (p[1] \cap C.F # {}) <=> (D.q0 \in p[2])

(* prefix-free part of L(D): w in L and no proper prefix of w in L.           *)
(* Track (state of D, "F visited strictly before") alongside C.               *)
IsNoPrefixOf(C, D) ==
  LET S == C.S \cup D.S
      s0 == <<Start(C), D.q0, FALSE>>
      RECURSIVE RR(_, _)
      RR(seen, frontier) ==
        IF frontier = {} THEN seen
        ELSE LET nxt == {<<Step(C, p[1], a), Delta(D, p[2], a), p[3] \/ (p[2] \in D.F)>>
                           : p \in frontier, a \in S} \ seen
             IN RR(seen \cup nxt, nxt)
  IN \A p \in RR({s0}, {s0}) : (p[1] \cap C.F # {}) <=> (p[2] \in D.F /\ ~p[3])

(* non-extendable part of L(D): w in L and no proper extension of w in L.     *)
CanReachFAgain(D, q) ==
  LET succ == {t[3] : t \in {t \in D.T : t[1] = q}}
  IN ReachSet(DfaEdges(D), succ) \cap D.F # {}
IsNoExtendOf(C, D) ==
  LET S == C.S \cup D.S
      s0 == <<Start(C), D.q0>>
      RECURSIVE RR(_, _)
      RR(seen, frontier) ==
        IF frontier = {} THEN seen
        ELSE LET nxt == {<<Step(C, p[1], a), Delta(D, p[2], a)>> : p \in frontier, a \in S} \ seen
             IN RR(seen \cup nxt, nxt)
  IN \A p \in RR({s0}, {s0}) :
        (p[1] \cap C.F # {}) <=> (p[2] \in D.F /\ ~CanReachFAgain(D, p[2]))
=============================================================================
