------------------------------- MODULE NfaSim -------------------------------
(* Model of nfa_algorithms.nfa_simulate_word (C15): forward pass over the word with the stack H *)
(* of state sets, then the backward reconstruction, one action per loop iteration.  Every choice  *)
(* that depends on set iteration order (the accepting state taken from E_n, the epsilon path     *)
(* found, the source of the letter move) is a nondeterministic choice among all candidates.       *)
(* Checked: no choice set is ever empty for an accepted word (the simulation ALWAYS produces a     *)
(* run), the partial result is at every step a valid suffix of a run, the final result is a         *)
(* genuine accepting run and satisfies IsModelRun (the clause recorded runs are bound with), and     *)
(* rejected words give "none".                                                                       *)
EXTENDS Util, FA, NfaSimSteps
CONSTANTS Q, S, Q0, MaxLen
Eps == "eps"
Labels == S \cup {Eps}
VARIABLES N, w, pc, i, front, result
vars == <<N, w, pc, i, front, result>>

Dummy == [Q |-> Q, S |-> S, T |-> {}, q0 |-> Q0, F |-> {}, eps |-> Eps]
Init == N = Dummy /\ w = <<>> /\ pc = "pickF" /\ i = 0 /\ front = Q0 /\ result = <<>>
PickF == /\ pc = "pickF" /\ pc' = "pickT"
         /\ \E F \in SUBSET Q : N' = [N EXCEPT !.F = F]
         /\ UNCHANGED <<w, i, front, result>>
PickT == /\ pc = "pickT" /\ pc' = "forward"
         /\ \E T \in SUBSET (Q \X Labels \X Q) : N' = [N EXCEPT !.T = T]
         /\ \E u \in WordsUpTo(S, MaxLen) : w' = u
         /\ UNCHANGED <<i, front, result>>
PreH == SimPre(N, w)
ELast == EClosure(N, PreH[Len(w) + 1])
(* the forward loop is deterministic: one step; then the accepting state is chosen *)
Forward == /\ pc = "forward"
           /\ IF ELast \cap N.F = {} THEN pc' = "none" /\ UNCHANGED <<front, result, i>>
              ELSE /\ \E f \in ELast \cap N.F : front' = f /\ result' = <<<<f, <<>>>>>>
                   /\ i' = Len(w) /\ pc' = "path"
           /\ UNCHANGED <<N, w>>
(* path = nfa_find_epsilon_path(N, T_i, front); result = path[:-1] + result; front = path[0] *)
Path == /\ pc = "path"
        /\ \E seg \in EpsSegments(N, PreH[i + 1], front) :
              /\ result' = [k \in 1..(Len(seg) - 1) |-> <<seg[k], Suffix(w, i)>>] \o result
              /\ front' = seg[1]
        /\ pc' = IF i = 0 THEN "done" ELSE "letter"
        /\ UNCHANGED <<N, w, i>>
(* front = nfa_find_transition(N, E_(i-1), w_i, front) *)
Letter == /\ pc = "letter"
          /\ \E p \in EClosure(N, PreH[i]) : /\ <<p, w[i], front>> \in N.T
                                            /\ front' = p
                                            /\ result' = <<<<p, Suffix(w, i - 1)>>>> \o result
          /\ i' = i - 1 /\ pc' = "path"
          /\ UNCHANGED <<N, w>>
Next == PickF \/ PickT \/ Forward \/ Path \/ Letter
Spec == Init /\ [][Next]_vars /\ WF_vars(Next)

StepOk(c, d) == \/ (d[2] = c[2] /\ <<c[1], Eps, d[1]>> \in N.T)
                \/ (c[2] # <<>> /\ d[2] = Tail(c[2]) /\ <<c[1], Head(c[2]), d[1]>> \in N.T)
(* the run built so far is a valid run from its first configuration to an accepting one *)
SuffixValid == pc \in {"path", "letter", "done"} =>
                  /\ \A k \in 1..(Len(result) - 1) : StepOk(result[k], result[k + 1])
                  /\ result[Len(result)][1] \in N.F /\ result[Len(result)][2] = <<>>
                  /\ result[1][1] = front
(* the simulation never gets stuck: whenever it asks for a path / a source state there is one *)
AlwaysProduced == /\ (pc = "path" => EpsSegments(N, PreH[i + 1], front) # {})
                  /\ (pc = "letter" => \E p \in EClosure(N, PreH[i]) : <<p, w[i], front>> \in N.T)
ResultGenuine == pc = "done" => /\ result[1] = <<N.q0, w>>
                                /\ AcceptsBySubsets(N, w)
                                /\ IsModelRun(N, w, result)
NoneIffRejected == (pc = "none" => ~AcceptsBySubsets(N, w)) /\ (pc = "done" => AcceptsBySubsets(N, w))
Terminates == <>(pc \in {"done", "none"})
=============================================================================
