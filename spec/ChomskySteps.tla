--------------------------- MODULE ChomskySteps ---------------------------
(* The deterministic phases of the Chomsky conversion as the code performs   *)
(* them, on grammars [V, S, R, start] with R a SEQUENCE of <<lhs, rhs>> (the   *)
(* code works on a Python list: the order of the rules is part of the result): *)
(*   AddStart      cfg_add_new_start_variable_in_place                         *)
(*   RemoveEps     cfg_remove_epsilon_rules_in_place                           *)
(*   LengthTwo     cfg_make_rules_of_length_two_in_place (with the sharing of   *)
(*                 Alternative objects that unit elimination leaves behind)     *)
(*   ElimTerminals cfg_eliminate_terminals_in_place                            *)
(* (unit elimination, the schedule-dependent phase, is in Steps.tla)           *)
(* Used by JCFG to validate every recorded phase call structurally.            *)
EXTENDS Util, CFG

Letters == <<"A", "B", "C", "D", "E", "F", "G", "H", "I", "J", "K", "L", "M",
             "N", "O", "P", "Q", "R", "S", "T", "U", "V", "W", "X", "Y", "Z">>
RECURSIVE FreshIdx(_, _, _)
FreshIdx(V, hint, i) == LET nm == hint \o ToString(i) IN IF nm \notin V THEN nm ELSE FreshIdx(V, hint, i + 1)
(* cfg_fresh_variable *)
FreshVar(V, hint) ==
  IF Cardinality(V) >= 26 THEN (IF hint \notin V THEN hint ELSE FreshIdx(V, hint, 0))
  ELSE IF hint \notin V THEN hint
  ELSE Letters[CHOOSE i \in 1..26 : Letters[i] \notin V /\ \A j \in 1..(i - 1) : Letters[j] \in V]

VarSym(x) == <<"v", x>>
AddStart(G, hint) ==
  LET S0 == FreshVar(G.V, hint)
  IN [G EXCEPT !.V = G.V \cup {S0}, !.R = <<<<S0, <<VarSym(G.start)>>>>>> \o G.R, !.start = S0]

-----------------------------------------------------------------------------
RECURSIVE NullFix(_, _)
NullFix(G, W) ==
  LET new == {r[1] : r \in {r \in Rules(G) : \A k \in DOMAIN r[2] : IsVar(r[2][k]) /\ r[2][k][2] \in W}} \ W
  IN IF new = {} THEN W ELSE NullFix(G, W \cup new)
Nullable(G) == NullFix(G, {})

(* expand_nullable_variables: the list of variants, in the code's order *)
RECURSIVE Expand(_, _)
Expand(x, W) ==
  IF x = <<>> THEN <<<<>>>>
  ELSE LET y == Expand(Tail(x), W)
           with == [i \in DOMAIN y |-> <<Head(x)>> \o y[i]]
       IN IF IsVar(Head(x)) /\ Head(x)[2] \in W THEN with \o y ELSE with

RECURSIVE RemoveDup(_, _)
RemoveDup(acc, xs) ==
  IF xs = <<>> THEN acc
  ELSE RemoveDup(IF Head(xs) \in ToSet(acc) THEN acc ELSE Append(acc, Head(xs)), Tail(xs))

RECURSIVE FlatRules(_, _, _, _)
FlatRules(G, W, i, acc) ==
  IF i > Len(G.R) THEN acc
  ELSE LET r == G.R[i]
           vs == Expand(r[2], W)
           keep == SelectSeq(vs, LAMBDA s : ~(s = <<>> /\ r[1] \in W \ {G.start}))
       IN FlatRules(G, W, i + 1, acc \o [k \in DOMAIN keep |-> <<r[1], keep[k]>>])
RemoveEps(G) == [G EXCEPT !.R = RemoveDup(<<>>, FlatRules(G, Nullable(G), 1, <<>>))]

-----------------------------------------------------------------------------
(* share[i] = index of the first rule whose Alternative OBJECT rule i uses (i itself when it is not shared) *)
RECURSIVE FreshN(_, _, _)
FreshN(V, hint, n) ==           \* n fresh variables, each added to V before the next is chosen: <<names, V>>
  IF n = 0 THEN <<<<>>, V>>
  ELSE LET x == FreshVar(V, hint)
           rest == FreshN(V \cup {x}, hint, n - 1)
       IN <<<<x>> \o rest[1], rest[2]>>

RECURSIVE L2(_, _, _, _, _, _)
(* i: next rule of the ORIGINAL list; rhs: current symbols per alternative object; app: appended rules *)
L2(R0, share, i, V, rhs, app) ==
  IF i > Len(R0) THEN <<V, rhs, app>>
  ELSE LET c == share[i]
           u == rhs[c]
           n == Len(u)
       IN IF n <= 2 THEN L2(R0, share, i + 1, V, rhs, app)
          ELSE LET fr == FreshN(V, R0[i][1], n - 2)
                   A == fr[1]
                   mid == [k \in 1..(n - 3) |-> <<A[k], <<u[k + 1], VarSym(A[k + 1])>>>>]
                   last == <<A[n - 2], <<u[n - 1], u[n]>>>>
               IN L2(R0, share, i + 1, fr[2], [rhs EXCEPT ![c] = <<u[1], VarSym(A[1])>>],
                     app \o mid \o <<last>>)
LengthTwo(G, share) ==
  LET out == L2(G.R, share, 1, G.V, [i \in DOMAIN G.R |-> G.R[i][2]], <<>>)
  IN [G EXCEPT !.V = out[1], !.R = [i \in DOMAIN G.R |-> <<G.R[i][1], out[2][share[i]]>>] \o out[3]]

-----------------------------------------------------------------------------
Upper(a) == CASE a = "a" -> "A" [] a = "b" -> "B" [] a = "c" -> "C" [] a = "d" -> "D" [] a = "e" -> "E"
              [] a = "x" -> "X" [] a = "y" -> "Y" [] a = "z" -> "Z"
              [] a = "~03b5~" -> "~0395~"        \* the glyph epsilon as an ordinary terminal: str.upper() gives the capital
              [] OTHER -> a

RECURSIVE ReplSyms(_, _, _, _, _)
(* replace the terminals of one right-hand side from left to right: <<new rhs, V, repl (sequence of <<terminal, variable>>)>> *)
ReplSyms(u, k, V, repl, acc) ==
  IF k > Len(u) THEN <<acc, V, repl>>
  ELSE LET s == u[k]
       IN IF IsVar(s) THEN ReplSyms(u, k + 1, V, repl, Append(acc, s))
          ELSE LET known == {i \in DOMAIN repl : repl[i][1] = s[2]}
               IN IF known # {}
                  THEN ReplSyms(u, k + 1, V, repl, Append(acc, VarSym(repl[CHOOSE i \in known : TRUE][2])))
                  ELSE LET A == FreshVar(V, Upper(s[2]))
                       IN ReplSyms(u, k + 1, V \cup {A}, Append(repl, <<s[2], A>>), Append(acc, VarSym(A)))
RECURSIVE ET(_, _, _, _, _)
ET(R0, i, V, repl, acc) ==
  IF i > Len(R0) THEN <<acc, V, repl>>
  ELSE IF Len(R0[i][2]) >= 2
       THEN LET o == ReplSyms(R0[i][2], 1, V, repl, <<>>)
            IN ET(R0, i + 1, o[2], o[3], Append(acc, <<R0[i][1], o[1]>>))
       ELSE ET(R0, i + 1, V, repl, Append(acc, R0[i]))
ElimTerminals(G) ==
  LET o == ET(G.R, 1, G.V, <<>>, <<>>)
  IN [G EXCEPT !.V = o[2], !.R = o[1] \o [k \in DOMAIN o[3] |-> <<o[3][k][2], <<<<"t", o[3][k][1]>>>>>>]]
=============================================================================
