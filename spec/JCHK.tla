-------------------------------- MODULE JCHK --------------------------------
(* Judge clauses for C12 / C13: the exercise checkers.  Criterion(e) is written *)
(* from the exercise and the checker's own messages (DESIGN Appendix B) and      *)
(* evaluated on the abstract answer the submitted text was rendered from.        *)
EXTENDS Util, FA, Regex, CFG, PDA, TM

BadC(name, cond) == IF cond THEN {name} ELSE {}

(* the language of an object of any kind, up to n, over an explicit alphabet *)
LangOf(kind, obj, S, n) ==
  CASE kind \in {"dfa", "nfa"} -> LangOver(FaOf(obj), S, n)
    [] kind = "re" -> ReLangUpTo(obj, S, n)
    [] kind = "cfg" -> CfgLangUpTo(CfgOf(obj), S, n)
    [] kind = "pda" -> {w \in WordsUpTo(S, n) : PdaAccepts(PdaOf(obj), w)}
    [] kind = "tm" -> {w \in WordsUpTo(S, n) : Verdict(TmOf(obj), w, 1000) = "true"}
AlphabetOf(kind, obj) ==
  CASE kind \in {"dfa", "nfa", "pda", "tm", "cfg"} -> ToSet(obj.S)
    [] kind = "re" -> Syms(obj)
AcceptsOf(kind, obj, w) ==
  CASE kind \in {"dfa", "nfa"} -> AcceptsBySubsets(FaOf(obj), w)
    [] kind = "re" -> Matches(obj, w)
    [] kind = "cfg" -> CfgAccepts(CfgOf(obj), w)
    [] kind = "pda" -> PdaAccepts(PdaOf(obj), w)
    [] kind = "tm" -> Verdict(TmOf(obj), w, 1000) = "true"

NStates(kind, obj) == IF kind \in {"dfa", "nfa", "pda", "tm"} THEN Len(obj.Q) ELSE 0

(* product exercises: ans is a DFA whose states are named by pairs (e.pairs maps name -> <<p, q>>) *)
ProductCriterion(e, FinalOp(_, _)) ==
  LET A == FaOf(e.ans)
      D1 == FaOf(e.d1)
      D2 == FaOf(e.d2)
      pr == [i \in DOMAIN e.pairs |-> e.pairs[i]]
      PairOf(q) == LET i == CHOOSE i \in DOMAIN e.pairs : e.pairs[i][1] = q IN <<e.pairs[i][2], e.pairs[i][3]>>
      S == A.S
  IN /\ \A q \in A.Q : PairOf(q)[1] \in D1.Q /\ PairOf(q)[2] \in D2.Q
     /\ A.S = D1.S
     /\ PairOf(A.q0) = <<D1.q0, D2.q0>>
     /\ \A t \in A.T : PairOf(t[3]) = <<Delta(D1, PairOf(t[1])[1], t[2]), Delta(D2, PairOf(t[1])[2], t[2])>>
     /\ \A q \in A.Q : (q \in A.F) <=> FinalOp(PairOf(q)[1] \in D1.F, PairOf(q)[2] \in D2.F)
     /\ \A w \in WordsUpTo(S, e.length) :
           AcceptsBySubsets(A, w) <=> FinalOp(AcceptsBySubsets(D1, w), AcceptsBySubsets(D2, w))

(* subset-construction exercise: e.labels maps answer state -> the NFA states it stands for *)
Nfa2DfaCriterion(e) ==
  LET A == FaOf(e.ans)
      N == FaOf(e.nfa)
      SetOf(q) == LET i == CHOOSE i \in DOMAIN e.labels : e.labels[i][1] = q IN ToSet(e.labels[i][2])
  IN /\ A.Q # {}
     /\ A.S = N.S
     /\ \A q \in A.Q : SetOf(q) \subseteq N.Q
     /\ SetOf(A.q0) = EClosure(N, {N.q0})
     /\ \A q \in A.Q : (q \in A.F) <=> (SetOf(q) \cap N.F # {})
     /\ \A q \in A.Q : \A a \in A.S :
           LET tg == {t[3] : t \in {t \in A.T : t[1] = q /\ t[2] = a}}
           IN Cardinality(tg) = 1 /\ \A r \in tg : SetOf(r) = Step(N, SetOf(q), a)

ChomskyCriterion(e) ==
  LET G0 == CfgOf(e.cfg)
      G == CfgOf(e.ans)
      k == e.phase
  IN /\ CfgLangUpTo(G, G0.S \cup G.S, e.length) = CfgLangUpTo(G0, G0.S \cup G.S, e.length)
     /\ (k >= 1 => G.start = e.start)
     /\ (k >= 2 => \A r \in Rules(G) : IsEpsRule(r) => r[1] = G.start)
     /\ (k >= 3 => \A r \in Rules(G) : ~IsUnitRule(r))
     /\ (k >= 4 => \A r \in Rules(G) : Len(r[2]) <= 2)
     /\ (k >= 5 => \A r \in Rules(G) : \/ Len(r[2]) = 0 \/ (Len(r[2]) = 1 /\ ~IsVar(r[2][1]))
                                        \/ (Len(r[2]) = 2 /\ IsVar(r[2][1]) /\ IsVar(r[2][2])))

(* CYK table exercise: e.rows = the submitted rows, top row first (row k has k entries) *)
CykCriterion(e) ==
  LET G == CfgOf(e.cfg)
      n == Len(e.w)
  IN /\ Len(e.rows) = n
     /\ \A k \in 1..n : Len(e.rows[k]) = k
     (* row k (1-based from the top) holds the spans of length n-k+1; entry j is X[j, j+n-k] *)
     /\ \A k \in 1..n : \A j \in 1..k : ToSet(e.rows[k][j]) = CellSem(G, e.w, j, j + n - k)

DerivationCriterion(e) == ValidDerivation(CfgOf(e.cfg), e.w, e.seq, e.mode)

Criterion(e) ==
  CASE e.family = "lang_words" ->
         /\ (e.max_states = 0 \/ NStates(e.kind, e.ans) <= e.max_states)
         /\ LangOf(e.kind, e.ans, AlphabetOf(e.kind, e.ans), e.length) = ToSet(e.words)
    [] e.family = "lang_file" ->
         LET S == AlphabetOf(e.kind, e.ans) \cup AlphabetOf(e.refkind, e.ref)
         IN LangOf(e.kind, e.ans, S, e.length) = LangOf(e.refkind, e.ref, S, e.length)
    [] e.family = "accepts_rejects" ->
         /\ \A w \in ToSet(e.acc) : AcceptsOf(e.kind, e.ans, w)
         /\ \A w \in ToSet(e.rej) : ~AcceptsOf(e.kind, e.ans, w)
    [] e.family = "union" -> ProductCriterion(e, LAMBDA x, y : x \/ y)
    [] e.family = "intersection" -> ProductCriterion(e, LAMBDA x, y : x /\ y)
    [] e.family = "symmetric_difference" -> ProductCriterion(e, LAMBDA x, y : x # y)
    [] e.family = "complement" ->
         LET A == FaOf(e.ans)
             D == FaOf(e.d1)
         IN A.Q = D.Q /\ A.S = D.S /\ A.q0 = D.q0 /\ A.T = D.T /\ A.F = D.Q \ D.F
    [] e.family = "reverse" ->
         LET A == FaOf(e.ans)
             D == FaOf(e.d1)
         IN /\ A.S = D.S /\ D.Q \subseteq A.Q
            /\ \A t \in D.T : <<t[3], t[2], t[1]>> \in A.T
            /\ A.q0 \notin D.Q /\ A.F = {D.q0}
            /\ LangOver(A, D.S, e.length) = {Rev(w) : w \in LangOver(D, D.S, e.length)}
    [] e.family = "minimal" ->
         LET A == FaOf(e.ans)
             D == FaOf(e.d1)
         IN /\ A.S = D.S
            /\ Cardinality(A.Q) = NerodeClasses(D, D.Q)
            /\ LangOver(A, D.S, e.length) = LangOver(D, D.S, e.length)
    [] e.family = "nfa2dfa" -> Nfa2DfaCriterion(e)
    [] e.family = "dfa2regexp" ->
         LET D == FaOf(e.d1) IN ReLangUpTo(e.ans, D.S \cup Syms(e.ans), e.length) = LangOver(D, D.S \cup Syms(e.ans), e.length)
    [] e.family = "chomsky" -> ChomskyCriterion(e)
    [] e.family = "cyk" -> CykCriterion(e)
    [] e.family = "derivation" -> DerivationCriterion(e)

(* the two languages a language-comparison feedback is about, by the reference semantics *)
CmpAlphabet(e) ==
  CASE e.family = "lang_words" -> AlphabetOf(e.kind, e.ans)
    [] e.family = "lang_file" -> AlphabetOf(e.kind, e.ans) \cup AlphabetOf(e.refkind, e.ref)
    [] e.family = "dfa2regexp" -> ToSet(e.d1.S) \cup Syms(e.ans)
    [] e.family = "chomsky" -> ToSet(e.cfg.S) \cup ToSet(e.ans.S)
    [] OTHER -> ToSet(e.d1.S) \cup ToSet(e.ans.S)
AnswerLang(e) ==
  CASE e.family = "lang_words" -> LangOf(e.kind, e.ans, CmpAlphabet(e), e.length)
    [] e.family = "lang_file" -> LangOf(e.kind, e.ans, CmpAlphabet(e), e.length)
    [] e.family = "dfa2regexp" -> ReLangUpTo(e.ans, CmpAlphabet(e), e.length)
    [] e.family = "chomsky" -> CfgLangUpTo(CfgOf(e.ans), CmpAlphabet(e), e.length)
    [] OTHER -> LangOver(FaOf(e.ans), CmpAlphabet(e), e.length)
ExpectedLang(e) ==
  LET S == CmpAlphabet(e)
      n == e.length
  IN CASE e.family = "lang_words" -> ToSet(e.words)
       [] e.family = "lang_file" -> LangOf(e.refkind, e.ref, S, n)
       [] e.family = "union" -> LangOver(FaOf(e.d1), S, n) \cup LangOver(FaOf(e.d2), S, n)
       [] e.family = "intersection" -> LangOver(FaOf(e.d1), S, n) \cap LangOver(FaOf(e.d2), S, n)
       [] e.family = "symmetric_difference" ->
            LET X == LangOver(FaOf(e.d1), S, n)
                Y == LangOver(FaOf(e.d2), S, n) IN (X \ Y) \cup (Y \ X)
       [] e.family = "reverse" -> {Rev(w) : w \in LangOver(FaOf(e.d1), S, n)}
       [] e.family = "chomsky" -> CfgLangUpTo(CfgOf(e.cfg), S, n)
       [] OTHER -> LangOver(FaOf(e.d1), S, n)            \* minimal, dfa2regexp

(* the reported counterexample (language-comparison feedback): genuine, right polarity, minimal *)
CexOk(e) ==
  LET w == e.cex.word
      A == AnswerLang(e)
      B == ExpectedLang(e)
  IN BadC("counterexample_genuine", (w \in A) = (w \in B))
     \cup BadC("counterexample_polarity",
               (e.cex.polarity = "should_not" /\ ~(w \in A /\ w \notin B))
               \/ (e.cex.polarity = "should" /\ ~(w \in B /\ w \notin A)))
     \cup (IF e.cex.minimal THEN BadC("counterexample_minimal", \E u \in (A \ B) \cup (B \ A) : Len(u) < Len(w)) ELSE {})

(* ---- the checkers as they are written (operational view) --------------------------------- *)
(* For most families the code looks at exactly what the criterion states; the product checker  *)
(* (check_product_automaton) additionally demands that EVERY final product state is present    *)
(* in the answer, and only inspects answer transitions that leave a product state.             *)
ProductModelOk(e, FinalOp(_, _)) ==
  LET A == FaOf(e.ans)
      D1 == FaOf(e.d1)
      D2 == FaOf(e.d2)
      PairOf(q) == LET i == CHOOSE i \in DOMAIN e.pairs : e.pairs[i][1] = q IN <<e.pairs[i][2], e.pairs[i][3]>>
      IsProd(pr) == pr[1] \in D1.Q /\ pr[2] \in D2.Q
  IN /\ \A q \in A.Q : IsProd(PairOf(q))
     /\ A.S = D1.S
     /\ PairOf(A.q0) = <<D1.q0, D2.q0>>
     /\ \A t \in A.T : IsProd(PairOf(t[1])) =>
            PairOf(t[3]) = <<Delta(D1, PairOf(t[1])[1], t[2]), Delta(D2, PairOf(t[1])[2], t[2])>>
     /\ {PairOf(q) : q \in A.F} = {pr \in D1.Q \X D2.Q : FinalOp(pr[1] \in D1.F, pr[2] \in D2.F)}
     /\ \A w \in WordsUpTo(A.S, e.length) :
           AcceptsBySubsets(A, w) <=> FinalOp(AcceptsBySubsets(D1, w), AcceptsBySubsets(D2, w))
ModelOk(e) ==
  CASE e.family = "union" -> ProductModelOk(e, LAMBDA x, y : x \/ y)
    [] e.family = "intersection" -> ProductModelOk(e, LAMBDA x, y : x /\ y)
    [] e.family = "symmetric_difference" -> ProductModelOk(e, LAMBDA x, y : x # y)
    [] OTHER -> Criterion(e)
(* the model never says OK to an answer that violates the criterion (the M-side of C12) *)
ModelSound(e) == ModelOk(e) => Criterion(e)

JCheck(e) ==
  (IF e.verdict = "OK"
   THEN (IF e.illformed THEN {"illformed_not_ok"} ELSE BadC("ok_implies_criterion", ~Criterion(e)))
   ELSE {})
  \cup (IF e.has_cex THEN CexOk(e) ELSE {})
  (* binding: the real verdict is the operational model's verdict (a checker that became stricter or *)
  (* laxer than its model is shown here even when C12 itself still holds)                            *)
  \cup (IF e.illformed \/ e.exc # "none" THEN {}
        ELSE BadC("binding_verdict_is_model_verdict", (e.verdict = "OK") # ModelOk(e))
             \cup BadC("binding_model_sound", ~ModelSound(e)))

(* C13: the library's own answer passes its checker *)
JSelfCheck(e) == BadC("own_answer_ok", e.verdict # "OK")
=============================================================================
