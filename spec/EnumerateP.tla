----------------------------- MODULE EnumerateP -----------------------------
(* Model of pda_words_up_to_n at HEAP level.                                          *)
(*                                                                                    *)
(*   R = closure({(q0, [])});  W[r] = {''} for r in R                                 *)
(*   for i in range(n):                                                               *)
(*       W1 = defaultdict(set)                                                        *)
(*       for r, words in W.items():          (dictionary order)                       *)
(*           for a in Sigma:                 (set order)                              *)
(*               R = closure(step({r}, a));  words_plus_a = {w + a : w in words}      *)
(*               for r1 in R:  W1[r1] |= words_plus_a ;  r1.q in F: result |= ...     *)
(*       W = W1                                                                       *)
(*                                                                                    *)
(* W1 maps a configuration to a SET OBJECT.  One action per (r, a) pair, in any order *)
(* (the orders of W.items() and of Sigma).  The heap is explicit: obj[k] is the        *)
(* content of set object k, ref the map configuration -> object.                      *)
(* Mode = "code":    `W1[r1] |= words_plus_a` on a defaultdict - every configuration    *)
(*                   owns its object, the union copies the words.                      *)
(* Mode = "aliased": the deviation `W1[r1] = words_plus_a` for a configuration seen for  *)
(*                   the first time (one object shared by all configurations first       *)
(*                   reached by the same step): a later in-place union through one of    *)
(*                   them leaks words to the others - TLC finds the order that shows it. *)
(* Closures are exact here (the universe keeps them below Cap, see Skip).               *)
EXTENDS Util, PDA
CONSTANTS Mode, MaxN, MaxMoves, Cap

Qs == {"s0", "s1"}
Sg == {"a", "b"}
Gm == {"X"}
Eps == "eps"
(* moves: stack-free, push, or pop (no replace moves: 36 moves) *)
Pool == {<<p, a, uv[1], q, uv[2]>> : p \in Qs, a \in Sg \cup {Eps}, q \in Qs,
                                      uv \in {<<Eps, Eps>>, <<Eps, "X">>, <<"X", Eps>>}}
Mk(T, F) == [Q |-> Qs, S |-> Sg, G |-> Gm, T |-> T, q0 |-> "s0", F |-> F, eps |-> Eps]
C0 == {<<"s0", <<>>>>}

VARIABLES P, n, lvl, W, ref, obj, pend, words, stage
vars == <<P, n, lvl, W, ref, obj, pend, words, stage>>
(* W: set of <<configuration, word>> (the frozen map of the previous level)                *)
(* ref: set of <<configuration, object id>>; obj: sequence of word sets (id = index)       *)

Init == /\ P = Mk({}, {}) /\ n = 0 /\ lvl = 0 /\ W = {} /\ ref = {} /\ obj = <<>> /\ pend = {}
        /\ words = {} /\ stage = 0
Pick1 == /\ stage = 0 /\ stage' = 1
         /\ n' \in 0..MaxN
         /\ \E F \in SUBSET Qs, t \in Pool : P' = Mk({t}, F)
         /\ UNCHANGED <<lvl, W, ref, obj, pend, words>>
Clo(PP, C) == EpsClose(PP, C, Cap)
Pairs(PP, WW) == {<<c, a>> : c \in {x[1] : x \in WW}, a \in PP.S}
Pick2 == /\ stage = 1
         /\ \E t1 \in Pool, t2 \in Pool : P' = Mk(P.T \cup {t1, t2}, P.F)
         /\ LET R == Clo(P', C0)
            IN IF Cardinality(R) > Cap THEN stage' = 9 /\ UNCHANGED <<W, words, pend>>     \* Skip: outside the universe
               ELSE /\ stage' = 2
                    /\ W' = {<<c, <<>>>> : c \in R}
                    /\ words' = IF \E c \in R : c[1] \in P.F THEN {<<>>} ELSE {}
                    /\ pend' = IF n > 0 THEN Pairs(P', W') ELSE {}
         /\ UNCHANGED <<n, lvl, ref, obj>>

Holder(c) == {x[2] : x \in {x \in ref : x[1] = c}}
(* one (r, a) step of the two nested loops *)
StepRA(r, a) ==
  /\ stage = 2 /\ <<r, a>> \in pend
  /\ LET wpa == {Append(x[2], a) : x \in {x \in W : x[1] = r}}
         R == Clo(P, StepOn(P, {r}, a))
         new == {c \in R : Holder(c) = {}}
         old == R \ new
         touched == UNION {Holder(c) : c \in old}
     IN IF Cardinality(R) > Cap THEN stage' = 9 /\ UNCHANGED <<ref, obj, pend, words>>
        ELSE /\ stage' = 2
             /\ pend' = pend \ {<<r, a>>}
             /\ words' = words \cup (IF \E c \in R : c[1] \in P.F THEN wpa ELSE {})
             /\ IF Mode = "aliased"
                THEN \* words_plus_a is ONE object: new configurations point at it; old ones absorb it in place
                     LET k == Len(obj) + 1
                         obj1 == Append(obj, wpa)
                     IN /\ obj' = [i \in DOMAIN obj1 |-> IF i \in touched THEN obj1[i] \cup wpa ELSE obj1[i]]
                        /\ ref' = ref \cup {<<c, k>> : c \in new}
                ELSE \* every new configuration gets its own object (defaultdict + |=)
                     LET newseq == SetToSeq(new)
                         obj1 == obj \o [i \in DOMAIN newseq |-> wpa]
                     IN /\ obj' = [i \in DOMAIN obj1 |-> IF i \in touched THEN obj1[i] \cup wpa ELSE obj1[i]]
                        /\ ref' = ref \cup {<<newseq[i], Len(obj) + i>> : i \in DOMAIN newseq}
  /\ UNCHANGED <<P, n, lvl, W>>

(* W = W1: the next level reads the objects as they are now *)
NextLevel ==
  /\ stage = 2 /\ pend = {} /\ lvl < n
  /\ lvl' = lvl + 1
  /\ W' = UNION {{<<x[1], w>> : w \in obj[x[2]]} : x \in ref}
  /\ ref' = {} /\ obj' = <<>>
  /\ pend' = IF lvl + 1 < n THEN Pairs(P, W') ELSE {}
  /\ UNCHANGED <<P, n, words, stage>>

Next == Pick1 \/ Pick2 \/ (\E x \in pend : StepRA(x[1], x[2])) \/ NextLevel
Spec == Init /\ [][Next]_vars

Done == stage = 2 /\ lvl = n /\ pend = {}
(* the enumeration is the language up to n (PdaAccepts: saturation over balanced computations, PDA.tla) *)
Exact == Done => words = PdaLangUpTo(P, n)
(* at the start of a level W is exactly "the configurations each word of that length leads to" *)
LevelInv == (stage = 2 /\ ref = {} /\ obj = <<>>) =>
               W = UNION {{<<c, w>> : c \in ExactRun(P, w, Cap * Cap).cur} : w \in WordsOfLen(Sg, lvl)}
NothingLonger == stage = 2 => \A w \in words : Len(w) <= n
(* in the code's mode no two configurations ever share an object *)
NoSharing == Mode = "code" => \A x \in ref, y \in ref : x[2] = y[2] => x[1] = y[1]
=============================================================================
