------------------------------- MODULE EpsPath -------------------------------
(* Model of nfa_find_epsilon_path (pda_find_epsilon_path has the same shape on    *)
(* configurations): a forward search from a source set R to a target f over       *)
(* epsilon edges, recording back-pointers, then a backward walk (make_path).      *)
(* `todo.pop()` and the iteration over delta.items() / the target set are Python   *)
(* set / dict orders: \E src \in todo, \E edge.                                     *)
(* Mode = "fixed": a back-pointer is recorded only when a state is discovered.     *)
(* Mode = "pinned": the pinned revision assigned backpointers[target] = src for    *)
(*   EVERY epsilon edge (deviation Path_BackpointerOverwritten): TLC finds a walk  *)
(*   that never reaches R (epsilon self-loop q0->x, x->x, x->f).                   *)
EXTENDS Util, FA, CFG, Steps
(* PathFixedAgrees (below) ties the actions of this model, for Mode = "fixed", to the step functions  *)
(* PathPop / PathEdge of Steps.tla that the fine-grained trace validation (JTRACE) uses.              *)
CONSTANTS Q, Mode, RChoices, FChoices
None == "none"
VARIABLES E, R, f, visited, todo, bp, src, pending, cur, path, ph
vars == <<E, R, f, visited, todo, bp, src, pending, cur, path, ph>>

Init == /\ E = {} /\ R = {} /\ f = None /\ visited = {} /\ todo = {} /\ bp = [q \in Q |-> None]
        /\ src = None /\ pending = {} /\ cur = None /\ path = <<>> /\ ph = "pick"
PickRf == /\ ph = "pick" /\ ph' = "pick2"
          /\ R' \in RChoices /\ f' \in FChoices
          /\ UNCHANGED <<E, visited, todo, bp, src, pending, cur, path>>
PickE == /\ ph = "pick2"
         /\ E' \in SUBSET (Q \X Q)
         /\ IF f \in R THEN ph' = "done" /\ path' = <<f>> /\ UNCHANGED <<visited, todo>>
            ELSE ph' = "search" /\ visited' = R /\ todo' = R /\ UNCHANGED path
         /\ UNCHANGED <<R, f, bp, src, pending, cur>>

Pop(s) == /\ ph = "search" /\ src = None /\ s \in todo
          /\ todo' = todo \ {s}
          /\ src' = s
          /\ pending' = {e \in E : e[1] = s}
          /\ UNCHANGED <<E, R, f, visited, bp, cur, path, ph>>

Edge(e) ==
  /\ ph = "search" /\ src # None /\ e \in pending
  /\ LET t == e[2]
     IN IF Mode = "pinned"
        THEN /\ bp' = [bp EXCEPT ![t] = src]
             /\ IF t = f THEN ph' = "walk" /\ cur' = t /\ path' = <<t>> /\ UNCHANGED <<visited, todo, pending, src>>
                ELSE /\ IF t \notin visited THEN todo' = todo \cup {t} /\ visited' = visited \cup {t}
                                            ELSE UNCHANGED <<todo, visited>>
                     /\ pending' = pending \ {e}
                     /\ src' = IF pending' = {} THEN None ELSE src
                     /\ UNCHANGED <<ph, cur, path>>
        ELSE IF t \in visited
             THEN /\ pending' = pending \ {e}
                  /\ src' = IF pending' = {} THEN None ELSE src
                  /\ UNCHANGED <<bp, visited, todo, ph, cur, path>>
             ELSE /\ bp' = [bp EXCEPT ![t] = src]
                  /\ IF t = f THEN ph' = "walk" /\ cur' = t /\ path' = <<t>> /\ UNCHANGED <<visited, todo, pending, src>>
                     ELSE /\ todo' = todo \cup {t} /\ visited' = visited \cup {t}
                          /\ pending' = pending \ {e}
                          /\ src' = IF pending' = {} THEN None ELSE src
                          /\ UNCHANGED <<ph, cur, path>>
  /\ UNCHANGED <<E, R, f>>

NoEdges == /\ ph = "search" /\ src # None /\ pending = {}
           /\ src' = None
           /\ UNCHANGED <<E, R, f, visited, todo, bp, pending, cur, path, ph>>
Exhausted == /\ ph = "search" /\ src = None /\ todo = {}
             /\ ph' = "done" /\ path' = <<>>       \* return None
             /\ UNCHANGED <<E, R, f, visited, todo, bp, src, pending, cur>>

Walk == /\ ph = "walk"
        /\ IF cur \in R THEN ph' = "done" /\ UNCHANGED <<cur, path>>
           ELSE cur' = bp[cur] /\ path' = <<bp[cur]>> \o path /\ UNCHANGED ph
        /\ UNCHANGED <<E, R, f, visited, todo, bp, src, pending>>

Next == PickRf \/ PickE \/ (\E s \in todo : Pop(s)) \/ (\E e \in pending : Edge(e)) \/ NoEdges \/ Exhausted \/ Walk
Spec == Init /\ [][Next]_vars /\ WF_vars(Next)

Reachable == ReachSet(E, R)
(* the walk along the back-pointers is bounded: it never gets longer than |Q| *)
WalkBounded == Len(path) <= Cardinality(Q)
(* a returned path is a genuine epsilon path from R to f; None only if f is unreachable *)
PathGenuine == (ph = "done" /\ path # <<>>) =>
                  /\ path[1] \in R /\ path[Len(path)] = f
                  /\ \A k \in 1..(Len(path) - 1) : <<path[k], path[k + 1]>> \in E
NoneIffUnreachable == ph = "done" => ((path = <<>>) <=> (f \notin Reachable))
(* back-pointers of the repaired code form a forest rooted in R *)
BpForest == (Mode = "fixed" /\ ph \in {"search", "walk"}) =>
               \A q \in Q : bp[q] # None => (bp[q] \in visited /\ q \notin R)
Terminates == <>(ph = "done")
(* every step of the fixed model is the corresponding Steps.tla step on (visited, todo, bp) *)
AsSt == [visited |-> visited, todo |-> todo, bp |-> {<<q, bp[q]>> : q \in {q \in Q : bp[q] # None}},
         cur |-> IF src = None THEN "~none~" ELSE src, found |-> ph \in {"walk", "done"} /\ path # <<>> /\ f \notin R]
PathFixedAgrees ==
  [][(Mode = "fixed" /\ ph = "search" /\ ph' \in {"search", "walk"}) =>
       \/ (\E s \in todo : src = None /\ src' = s /\
              AsSt'.visited = PathPop(AsSt, s).visited /\ AsSt'.todo = PathPop(AsSt, s).todo /\ AsSt'.bp = PathPop(AsSt, s).bp)
       \/ (\E e \in pending : LET n == PathEdge(AsSt, f, e[2])
                               IN AsSt'.visited = n.visited /\ AsSt'.bp = n.bp /\ (ph' = "search" => AsSt'.todo = n.todo))
       \/ UNCHANGED <<visited, todo, bp>>]_vars
=============================================================================
