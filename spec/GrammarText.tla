----------------------------- MODULE GrammarText -----------------------------
(* The simple grammar text format (C16, last clause): cfg_print_simple and      *)
(* SimpleCFGParser as operators on abstract grammars / texts.  GrammarRT.tla     *)
(* composes them in a behavioural model; the Judge uses PrintedAsModelCfg to     *)
(* validate the text the REAL printer produced.                                   *)
(*   grammar  [V, S, R, start]: R a sequence of <<A, rhs>>, rhs a sequence of      *)
(*            symbols <<"v", X>> / <<"t", a>> (the JSON form of the events)         *)
(*   text     a sequence of lines: [k |-> "decl", e |-> c]  (epsilon = c)           *)
(*                                 [k |-> "rule", lhs |-> X, alts |-> <<word...>>]  *)
(*            a word is a sequence of one-character strings                        *)
(* Mode = "pinned": the printer of the pinned revision (the empty alternative is  *)
(*   always written as the glyph); Mode = "fixed": when the glyph is a terminal   *)
(*   of the grammar another epsilon symbol is declared and used.                  *)
EXTENDS Util

GGlyph == "~03b5~"
Ch(x) == x[2]
Spell(rhs) == [i \in 1..Len(rhs) |-> Ch(rhs[i])]
IsEmptyRhs(rhs) == rhs = <<>>

(* ---------- the printer ---------- *)
RECURSIVE FirstAppearance(_, _)
FirstAppearance(R, done) ==          \* CFG.ordered_variables
  IF R = <<>> THEN <<>>
  ELSE IF R[1][1] \in done THEN FirstAppearance(Tail(R), done)
       ELSE <<R[1][1]>> \o FirstAppearance(Tail(R), done \cup {R[1][1]})
AltsOf(R, X) == LET idx == {i \in DOMAIN R : R[i][1] = X}
                    RECURSIVE Col(_)
                    Col(i) == IF i > Len(R) THEN <<>> ELSE (IF R[i][1] = X THEN <<R[i][2]>> ELSE <<>>) \o Col(i + 1)
                IN Col(1)
(* "_" is neither a simple terminal (lower-case letter) nor a simple variable (upper-case letter) *)
PrintEps(G, mode) == IF mode = "pinned" \/ GGlyph \notin G.S THEN GGlyph ELSE "_"
PrintCfg(G, mode) ==
  LET e == PrintEps(G, mode)
      ov == FirstAppearance(G.R, {})
      line(X) == [k |-> "rule", lhs |-> X,
                  alts |-> LET as == AltsOf(G.R, X)
                           IN [i \in 1..Len(as) |-> IF IsEmptyRhs(as[i]) THEN <<e>> ELSE Spell(as[i])]]
  IN (IF e = GGlyph THEN <<>> ELSE <<[k |-> "decl", e |-> e]>>) \o [i \in 1..Len(ov) |-> line(ov[i])]

(* ---------- the parser ---------- *)
DeclaredEps(text) == {text[i].e : i \in {i \in DOMAIN text : text[i].k = "decl"}}
GlyphInRules(text) == \E i \in DOMAIN text : text[i].k = "rule" /\
                         (text[i].lhs = GGlyph \/ \E j \in DOMAIN text[i].alts : GGlyph \in ToSet(text[i].alts[j]))
ParseEps(text) == IF DeclaredEps(text) # {} THEN CHOOSE e \in DeclaredEps(text) : TRUE
                  ELSE IF GlyphInRules(text) THEN GGlyph ELSE "_"
(* lower: the characters for which str.islower holds (the terminals; the glyph is a lower-case letter) *)
ParseAlt(w, eps, lower) == IF w = <<eps>> THEN <<>>
                           ELSE [i \in 1..Len(w) |-> IF w[i] \in lower THEN <<"t", w[i]>> ELSE <<"v", w[i]>>]
ParseRuleLine(l, eps, lower) == [j \in 1..Len(l.alts) |-> <<l.lhs, ParseAlt(l.alts[j], eps, lower)>>]
TermsOf(R) == UNION {{Ch(R[i][2][j]) : j \in {j \in DOMAIN R[i][2] : R[i][2][j][1] = "t"}} : i \in DOMAIN R}
BuildCfg(R) == [V |-> {R[i][1] : i \in DOMAIN R}, S |-> TermsOf(R), R |-> R, start |-> R[1][1]]

(* CFG.__eq__: variables, terminals, start, and the rules as a multiset *)
Count(R, r) == Cardinality({i \in DOMAIN R : R[i] = r})
SameGrammar(G, H) == /\ G.V = H.V /\ G.S = H.S /\ G.start = H.start
                     /\ Len(G.R) = Len(H.R) /\ \A i \in DOMAIN G.R : Count(G.R, G.R[i]) = Count(H.R, G.R[i])

(* Judge: the recorded text is exactly what the model printer writes (the printer is deterministic) *)
PrintedAsModelCfg(G, text, mode) == text = PrintCfg(G, mode)
=============================================================================
