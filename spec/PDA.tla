-------------------------------- MODULE PDA --------------------------------
(* Reference semantics of pushdown automata (Sipser style, acceptance by final *)
(* state, initially empty stack).  P = [Q, S, G, T, q0, F, eps] with T a set of *)
(* <<p, a, u, q, v>>: in state p reading a (or eps), popping u (or eps), go to q *)
(* pushing v (or eps).                                                          *)
EXTENDS Util

PdaOf(j) == [Q |-> ToSet(j.Q), S |-> ToSet(j.S), G |-> ToSet(j.G), T |-> ToSet(j.T),
             q0 |-> j.q0, F |-> ToSet(j.F), eps |-> j.eps]

ValidPDA(P) ==
  /\ P.q0 \in P.Q /\ P.F \subseteq P.Q
  /\ P.eps \notin P.S /\ P.eps \notin P.G
  /\ \A t \in P.T : /\ t[1] \in P.Q /\ t[4] \in P.Q
                    /\ t[2] \in P.S \cup {P.eps}
                    /\ t[3] \in P.G \cup {P.eps} /\ t[5] \in P.G \cup {P.eps}

IsPushPop(P) == \A t \in P.T : (t[3] = P.eps) # (t[5] = P.eps)

(* Exact acceptance by saturation over balanced computations.                  *)
(* Nodes are <<state, position>>; a replace move (pop u, push v) is split into  *)
(* pop + push through the node <<"mid", t, position>>.                          *)
Moves(P, w) ==
  (* set of <<from, kind, symbol, to>> with kind in {"nop", "push", "pop"} *)
  UNION {
    LET reads == t[2] # P.eps
        ps == IF reads THEN {i \in 0..(Len(w) - 1) : w[i + 1] = t[2]} ELSE 0..Len(w)
    IN UNION {
         LET from == <<t[1], i>>
             to == <<t[4], IF reads THEN i + 1 ELSE i>>
         IN IF t[3] = P.eps /\ t[5] = P.eps THEN {<<from, "nop", "", to>>}
            ELSE IF t[3] = P.eps THEN {<<from, "push", t[5], to>>}
            ELSE IF t[5] = P.eps THEN {<<from, "pop", t[3], to>>}
            ELSE {<<from, "pop", t[3], <<"mid", t, i>>>>, <<<<"mid", t, i>>, "push", t[5], to>>}
         : i \in ps}
    : t \in P.T}

(* Bal: least relation on nodes containing the identity and closed under       *)
(*   Bal ; nop,    push X ; Bal ; pop X,    Bal ; Bal                            *)
RECURSIVE BalFix(_, _)
BalFix(M, Bal) ==
  LET nops == {m \in M : m[2] = "nop"}
      pushes == {m \in M : m[2] = "push"}
      pops == {m \in M : m[2] = "pop"}
      stepN == UNION {{<<b[1], m[4]>> : m \in {m \in nops : m[1] = b[2]}} : b \in Bal}
      wrapped == UNION {{<<pu[1], po[4]>> : po \in {po \in pops : po[3] = pu[3] /\ <<pu[4], po[1]>> \in Bal}}
                        : pu \in pushes}
      comp == UNION {{<<b[1], c[2]>> : c \in {c \in Bal : c[1] = b[2]}} : b \in Bal}
      new == (stepN \cup wrapped \cup comp) \ Bal
  IN IF new = {} THEN Bal ELSE BalFix(M, Bal \cup new)

PdaAccepts(P, w) ==
  LET M == Moves(P, w)
      Nodes == {m[1] : m \in M} \cup {m[4] : m \in M} \cup {<<q, i>> : q \in P.Q, i \in 0..Len(w)}
      Bal == BalFix(M, {<<x, x>> : x \in Nodes})
      up == Bal \cup {<<m[1], m[4]>> : m \in {m \in M : m[2] = "push"}}
      R == ReachSet(up, {<<P.q0, 0>>})
  IN \E f \in P.F : <<f, Len(w)>> \in R

PdaLangUpTo(P, n) == {w \in WordsUpTo(P.S, n) : PdaAccepts(P, w)}

-----------------------------------------------------------------------------
(* Configurations <<q, stack>> (stack a sequence, top = last) and the exact,    *)
(* capped, sequence of epsilon closures the acceptance test has to compute.    *)
CanFire(P, c, t, a) ==
  /\ t[1] = c[1] /\ t[2] = a
  /\ (t[3] = P.eps \/ (Len(c[2]) > 0 /\ c[2][Len(c[2])] = t[3]))
Fire(P, c, t) ==
  LET base == IF t[3] = P.eps THEN c[2] ELSE SubSeq(c[2], 1, Len(c[2]) - 1)
  IN <<t[4], IF t[5] = P.eps THEN base ELSE Append(base, t[5])>>
StepOn(P, C, a) == UNION {{Fire(P, c, t) : t \in {t \in P.T : CanFire(P, c, t, a)}} : c \in C}

(* one pop of the worklist loop of pda_epsilon_closure (shared by the PdaRun model's action, by the   *)
(* validation of observed pop traces and by the schedule generator)                                 *)
PcNew(P, R, c) == StepOn(P, {c}, P.eps) \ R
PcResult(P, R, c) == R \cup PcNew(P, R, c)
PcTodo(P, R, todo, c) == (todo \ {c}) \cup PcNew(P, R, c)

(* closure under epsilon moves, giving up once more than cap configurations exist *)
RECURSIVE EpsClose(_, _, _)
EpsClose(P, C, cap) ==
  IF Cardinality(C) > cap THEN C
  ELSE LET N == C \cup StepOn(P, C, P.eps)
       IN IF N = C THEN C ELSE EpsClose(P, N, cap)

(* "below" iff every closure on the way has at most cap configurations; then cur is exact *)
RECURSIVE ExactRunFrom(_, _, _, _)
ExactRunFrom(P, C, w, cap) ==
  LET E == EpsClose(P, C, cap)
  IN IF Cardinality(E) > cap THEN [below |-> FALSE, cur |-> {}]
     ELSE IF w = <<>> THEN [below |-> TRUE, cur |-> E]
     ELSE ExactRunFrom(P, StepOn(P, E, Head(w)), Tail(w), cap)
ExactRun(P, w, cap) == ExactRunFrom(P, {<<P.q0, <<>>>>}, w, cap)

(* second formulation of acceptance, for words whose closures stay below a cap *)
AcceptsByConfigs(P, w, cap) ==
  LET r == ExactRun(P, w, cap) IN r.below /\ \E c \in r.cur : c[1] \in P.F
=============================================================================
