-------------------------------- MODULE JEXTRA --------------------------------
(* Growth beyond the listed properties: reference clauses for public functions  *)
(* that no listed property covers (checked by `./check EXTRA quick`, not          *)
(* registered in MANIFEST.json because properties.jsonl is fixed).               *)
EXTENDS Util, FA, Regex, CFG, PDA

BadY(name, cond) == IF cond THEN {name} ELSE {}

Productive(G) == ProdFix(G, {})

(* cfg_remove_inproductive_variables / cfg_remove_useless_rules *)
JCfgCleanup(e) ==
  IF e.exc # "none" THEN {"raised_" \o e.exc}
  ELSE
  LET G0 == CfgOf(e.pre)
      G == CfgOf(e.res)
      keepsLang == CfgLangUpTo(G, G0.S, e.n) = CfgLangUpTo(G0, G0.S, e.n)
  IN BadY("language_equal_up_to_n", ~keepsLang)
     \cup BadY("input_unchanged", e.post # e.pre)
     \cup (IF e.name = "remove_inproductive"
           THEN BadY("remaining_variables_productive", G.V # Productive(G0))
                \cup BadY("remaining_rules_productive",
                          \E r \in Rules(G) : r[1] \notin Productive(G0)
                                \/ \E k \in DOMAIN r[2] : IsVar(r[2][k]) /\ r[2][k][2] \notin Productive(G0))
           ELSE BadY("no_self_rule", \E r \in Rules(G) : r[2] = <<<<"v", r[1]>>>>)
                \cup BadY("only_self_rules_removed", Rules(G) # {r \in Rules(G0) : r[2] # <<<<"v", r[1]>>>>}))

(* cfg_to_nfa / cfg_to_dfa on right-linear grammars *)
JCfgToFa(e) ==
  IF e.exc # "none" THEN {"raised_" \o e.exc}
  ELSE LET G == CfgOf(e.cfg)
           A == FaOf(e.res)
       IN BadY("valid", ~(IF e.kind = "dfa" THEN ValidDFA(A) ELSE ValidNFA(A)))
          \cup BadY("same_language_up_to_n", LangOver(A, G.S, e.n) # CfgLangUpTo(G, G.S, e.n))

(* random_dfa / random_nfa / random_regexp produce valid objects of the requested size *)
RECURSIVE Ops(_)
Ops(r) == CASE r[1] \in {"zero", "one", "sym"} -> 0
            [] r[1] = "star" -> 1 + Ops(r[2])
            [] OTHER -> 2 + Ops(r[2]) + Ops(r[3])          \* regexp_size counts a binary operator twice
JRandom(e) ==
  CASE e.kind = "dfa" -> BadY("valid", ~ValidDFA(FaOf(e.obj))) \cup BadY("size", Len(e.obj.Q) # e.size)
    [] e.kind = "nfa" -> BadY("valid", ~ValidNFA(FaOf(e.obj))) \cup BadY("size", Len(e.obj.Q) # e.size)
    [] e.kind = "re" -> BadY("size", Ops(e.obj) # e.size) \cup BadY("symbols", ~(Syms(e.obj) \subseteq ToSet(e.sigma)))
                        \cup BadY("regexp_size_agrees", e.libsize # Ops(e.obj))
                        \cup BadY("regexp_symbols_agrees", ToSet(e.libsyms) # Syms(e.obj))

(* automata_checker.check_dfa_for_given_language / check_nfa_for_given_language *)
JAutomataChecker(e) ==
  LET A == FaOf(e.fa)
      truth == LangOver(A, A.S, e.n) = ToSet(e.expected)
  IN BadY("correct_iff_languages_agree", e.correct # truth)

(* dfa_reachable_states(D, q, depth): states reachable from q by a path of length >= depth (0 or 1) *)
JReachable(e) ==
  LET D == FaOf(e.fa)
      succ == {t[3] : t \in {t \in D.T : t[1] = e.q}}
      ref == IF e.depth = 0 THEN ReachSet(DfaEdges(D), {e.q}) ELSE ReachSet(DfaEdges(D), succ)
  IN BadY("reachable_set", ToSet(e.res) # ref)

(* fresh names.  fresh_state(Q, hint): hint1, hint2, ... - the first one not in Q.  "plain_first": the   *)
(* variants that try the bare hint first (AutomatonBuilder._fresh_state).  IdentifierGenerator: hint<index>  *)
(* and the index advances by one.                                                                             *)
RECURSIVE LeastFresh(_, _, _)
LeastFresh(S, hint, k) == LET nm == hint \o ToString(k) IN IF nm \notin S THEN nm ELSE LeastFresh(S, hint, k + 1)
JFresh(e) ==
  LET S == ToSet(e.used)
      want == IF e.plain_first /\ e.hint \notin S THEN e.hint ELSE LeastFresh(S, e.hint, 1)
  IN BadY("fresh_not_used", e.res \in S)
     \cup BadY("fresh_is_first_free_name", e.res # want)
JIdGen(e) ==
  BadY("generator_counts_up",
       \E i \in DOMAIN e.res : e.res[i] # e.hints[i] \o ToString(e.start + i - 1))
  \cup BadY("generator_index_advances", e.index_after # e.start + Len(e.res))

JPushPop(e) == BadY("is_push_pop", e.res # IsPushPop(PdaOf(e.pda)))
=============================================================================
