-------------------------------- MODULE JTXT --------------------------------
(* Judge clauses for C16 (print then parse is the identity).                     *)
EXTENDS Util, FA, Regex

BadX(name, cond) == IF cond THEN {name} ELSE {}

(* automata and grammars: the parsed object equals the printed one, field by field *)
JRoundtrip(e) ==
  IF e.exc # "none" THEN {"raised_" \o e.exc}
  ELSE BadX("parse_is_identity", e.parsed # e.obj)

(* regular expressions: same language (exact) and same printed form *)
JRoundtripRe(e) ==
  IF e.exc # "none" THEN {"raised_" \o e.exc}
  ELSE BadX("same_language", ~ReEquiv(IF "sem" \in DOMAIN e THEN e.sem ELSE e.re,
                                      IF "parsed_sem" \in DOMAIN e THEN e.parsed_sem ELSE e.parsed))
       \cup BadX("same_printed_form", e.text2 # e.text)
=============================================================================
