-------------------------------- MODULE JTXT --------------------------------
(* Judge clauses for C16 (print then parse is the identity).                     *)
EXTENDS Util, FA, Regex, PDA, TM
PR == INSTANCE Printer
GT == INSTANCE GrammarText

BadX(name, cond) == IF cond THEN {name} ELSE {}

(* automata and grammars: the parsed object equals the printed one, field by field *)
ObjOfRt(e) == CASE e.kind \in {"dfa", "nfa"} -> FaOf(e.obj)
                [] e.kind = "pda" -> PdaOf(e.obj)
                [] e.kind = "tm" -> TmOf(e.obj)
JRoundtrip(e) ==
  (IF e.exc # "none" THEN {"raised_" \o e.exc}
   ELSE BadX("parse_is_identity", e.parsed # e.obj))
  (* binding: the text the real printer wrote is one of the texts Printer.tla produces for the object *)
  \cup (IF "plines" \in DOMAIN e
        THEN BadX("binding_printed_as_model", ~PR!PrintedAsModel(e.kind, ObjOfRt(e), e.plines))
        ELSE {})
  \cup (IF "ptext" \in DOMAIN e
        THEN BadX("binding_printed_as_model", ~GT!PrintedAsModelCfg([V |-> ToSet(e.gobj.V), S |-> ToSet(e.gobj.S), R |-> e.gobj.R,
                                                                      start |-> e.gobj.start], e.ptext, "fixed"))
        ELSE {})

(* regular expressions: same language (exact) and same printed form *)
JRoundtripRe(e) ==
  IF e.exc # "none" THEN {"raised_" \o e.exc}
  ELSE BadX("same_language", ~ReEquiv(IF "sem" \in DOMAIN e THEN e.sem ELSE e.re,
                                      IF "parsed_sem" \in DOMAIN e THEN e.parsed_sem ELSE e.parsed))
       \cup BadX("same_printed_form", e.text2 # e.text)
=============================================================================
