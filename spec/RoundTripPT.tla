----------------------------- MODULE RoundTripPT -----------------------------
(* C16 for the two richer formats, as a composition inside the specification:   *)
(* print_pda / print_tm (the Printer, transcribed below) followed by the line   *)
(* parser and PDABuilder / TMBuilder of LineParser.tla give back the automaton, *)
(* for EVERY small automaton and every order in which the printer may list the  *)
(* labels of one edge (it iterates a dictionary of sets).                        *)
(* The printers always write every declaration, also with an empty value list   *)
(* ("final", "input_symbols", "stack_symbols" followed by nothing): the parser   *)
(* must read those as declared-and-empty, not as absent.                          *)
EXTENDS LineParser
CONSTANTS Qs,        \* states
          Sy,        \* input symbols
          Gs,        \* stack symbols (pda) / further tape symbols (tm)
          MaxT       \* at most this many transitions
Sp == "e"            \* the epsilon / blank symbol of the printed automaton

VARIABLES A
rvars == <<vars, A>>

PdaMoves == Qs \X (Sy \cup {Sp}) \X (Gs \cup {Sp}) \X Qs \X (Gs \cup {Sp})
AllPda == {[Q |-> Qs, S |-> Sy, G |-> Gs, T |-> tset, q0 |-> q0, F |-> F, eps |-> Sp] :
             tset \in SubsetsUpTo(PdaMoves, MaxT), q0 \in Qs, F \in SUBSET Qs}
(* a TM: a partial function (state, tape symbol) -> (state, symbol, direction); qa # qr *)
TapeSyms == Sy \cup Gs \cup {Sp}
TmMoves == Qs \X TapeSyms \X Qs \X TapeSyms \X {"L", "R"}
Functional(ts) == \A x, y \in ts : (x[1] = y[1] /\ x[2] = y[2]) => x = y
AllTm == {[Q |-> Qs, S |-> Sy, G |-> TapeSyms, T |-> tset, q0 |-> q0, qa |-> h[1], qr |-> h[2], blank |-> Sp] :
             tset \in {ts \in SubsetsUpTo(TmMoves, MaxT) : Functional(ts)},
             q0 \in Qs, h \in {h \in Qs \X Qs : h[1] # h[2]}}
AllA == IF Kind = "pda" THEN AllPda ELSE AllTm

(* ---------- the printers: Printer.tla ---------- *)
P == INSTANCE Printer
Header(X) == P!PHeader(Kind, X)
Pairs(X) == P!PPairs(Kind, X)
EdgeLines(X, ps) == P!PEdgeLines(Kind, X, ps)

InitRT == /\ A = [Q |-> {}] /\ lines = <<>> /\ pos = 0 /\ items = <<>> /\ states = {} /\ trans = <<>> /\ initial = {}
          /\ final = {} /\ err = "none" /\ ph = "pickA" /\ result = <<>> /\ gl = FALSE
PickA == /\ ph = "pickA" /\ ph' = "print"
         /\ A' \in AllA
         /\ UNCHANGED <<lines, pos, items, states, trans, initial, final, err, result, gl>>
DoPrint == /\ ph = "print" /\ ph' = "parse"
         /\ \E el \in EdgeLines(A, Pairs(A)) : lines' = Header(A) \o el
         /\ pos' = 1
         /\ UNCHANGED <<A, items, states, trans, initial, final, err, result, gl>>
NextRT == PickA \/ DoPrint \/ ((ParseLine \/ EndOfText \/ Build) /\ UNCHANGED A)
SpecRT == InitRT /\ [][NextRT]_rvars

ParseOfPrintIsIdentity == ph = "done" => (err = "none" /\ result = A)
(* the printed text is always a well-formed description of the automaton (Text.tla) *)
PrintedTextDescribesA == ph \in {"parse", "build", "done"} => (WellFormed(D) /\ Describes(D) = A)
=============================================================================
