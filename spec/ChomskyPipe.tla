------------------------------ MODULE ChomskyPipe ------------------------------
(* The whole Chomsky conversion (cfg_to_chomsky_in_place) composed from the model's *)
(* phase operators - ChomskySteps (AddStart, RemoveEps, LengthTwo, ElimTerminals)   *)
(* and Steps (unit elimination, one fixed visiting order: Chomsky.tla shows that the *)
(* rule set does not depend on it) - on EVERY grammar with at most MaxRules rules    *)
(* whose right-hand sides have at most MaxLen symbols over {S, A, a, b}.             *)
(* After every phase: valid grammar, same language (words <= N), the phase's          *)
(* postcondition; at the end: Chomsky normal form in the library's sense.             *)
EXTENDS Util, CFG, Steps, ChomskySteps
CONSTANTS MaxRules, MaxLen, N
Vars == {"S", "A"}
Sig == {"a", "b"}
Syms == {<<"v", x>> : x \in Vars} \cup {<<"t", a>> : a \in Sig}
RECURSIVE SeqsUpTo(_, _)
SeqsUpTo(X, n) == IF n = 0 THEN {<<>>} ELSE LET P == SeqsUpTo(X, n - 1) IN P \cup {Append(s, x) : s \in P, x \in X}
Pool == {<<l, rhs>> : l \in Vars, rhs \in SeqsUpTo(Syms, MaxLen)}

VARIABLES G0, G, ph
vars == <<G0, G, ph>>
Mk(R) == [V |-> Vars, S |-> Sig, R |-> R, start |-> "S"]
Init == G0 = Mk(<<>>) /\ G = Mk(<<>>) /\ ph = 0
(* rules are added one at a time (the order of the list matters to the code) *)
Add == /\ ph = 0 /\ Len(G0.R) < MaxRules
       /\ \E r \in Pool : r \notin ToSet(G0.R) /\ G0' = Mk(Append(G0.R, r))
       /\ UNCHANGED <<G, ph>>
Go == ph = 0 /\ Len(G0.R) >= 1 /\ ph' = 1 /\ G' = AddStart(G0, "S") /\ UNCHANGED G0
P2 == ph = 1 /\ ph' = 2 /\ G' = RemoveEps(G) /\ UNCHANGED G0
P3 == ph = 2 /\ ph' = 3 /\ UNCHANGED G0
      /\ G' = [G EXCEPT !.R = StartInFront(UnitFinish(UnitVisitAll(G.R, G.R, SetToSeq(G.V))), G.start)]
P4 == ph = 3 /\ ph' = 4 /\ G' = LengthTwo(G, [i \in DOMAIN G.R |-> i]) /\ UNCHANGED G0
P5 == ph = 4 /\ ph' = 5 /\ G' = ElimTerminals(G) /\ UNCHANGED G0
Next == Add \/ Go \/ P2 \/ P3 \/ P4 \/ P5
Spec == Init /\ [][Next]_vars

Valid == ph >= 1 => ValidCFG(G)
SameLanguage == ph >= 1 => CfgLangUpTo(G, Sig, N) = CfgLangUpTo(G0, Sig, N)
StartNotOnRhs == ph >= 1 => \A r \in Rules(G) : \A k \in DOMAIN r[2] : r[2][k] # <<"v", G.start>>
OnlyStartNullable == ph >= 2 => \A r \in Rules(G) : r[2] = <<>> => r[1] = G.start
NoUnit == ph >= 3 => \A r \in Rules(G) : ~IsUnitRule(r)
ShortRules == ph >= 4 => \A r \in Rules(G) : Len(r[2]) <= 2
EndsInCNF == ph = 5 => IsCNF(G)
=============================================================================
