---------------------------- MODULE NfaSimSteps ----------------------------
(* Step operators of nfa_algorithms.nfa_simulate_word, shared by the model NfaSim.tla and by    *)
(* the Judge (binding clause: a recorded run is a behaviour of the model).                       *)
(*                                                                                               *)
(* The code runs the subset automaton forwards and keeps BOTH sets per position on a stack H:     *)
(*   T_0 = {q0}, E_0 = closure(T_0), T_i = move(E_(i-1), w_i), E_i = closure(T_i)                  *)
(* and then walks backwards: front in E_n /\ F; per letter an epsilon path from T_i to front       *)
(* (nfa_find_epsilon_path: a search tree rooted in T_i, so the path is simple, starts in T_i and    *)
(* no later state of it lies in T_i unless the path is the single state front), then a state of     *)
(* E_(i-1) with a w_i-move to the head of that path (nfa_find_transition).  Which path / which       *)
(* state is taken depends on set iteration order: the model allows every one of them.                *)
EXTENDS Util, FA

RECURSIVE PreSets(_, _, _)
(* the sequence <<T_0, T_1, ..., T_n>> *)
PreSets(A, T, w) == IF w = <<>> THEN <<T>>
                    ELSE <<T>> \o PreSets(A, Move(A, EClosure(A, T), Head(w)), Tail(w))
SimPre(A, w) == PreSets(A, {A.q0}, w)

(* seg is a possible result of nfa_find_epsilon_path(A, T, f) *)
IsEpsSegment(A, T, seg) ==
  /\ Len(seg) >= 1
  /\ seg[1] \in T
  /\ \A k \in 1..(Len(seg) - 1) : <<seg[k], A.eps, seg[k + 1]>> \in A.T
  /\ \A j, k \in DOMAIN seg : j # k => seg[j] # seg[k]                  \* a branch of a search tree
  /\ (seg[Len(seg)] \in T => Len(seg) = 1)                              \* `if f in R: return [f]`
  /\ \A k \in 2..Len(seg) : k < Len(seg) => seg[k] \notin T             \* make_path stops at the first state of R

(* all simple epsilon paths from T to f with these properties (small universes only) *)
RECURSIVE PathsTo(_, _, _, _)
PathsTo(A, T, suffix, fuel) ==
  LET h == suffix[1]
      here == IF h \in T THEN {suffix} ELSE {}
      preds == {t[1] : t \in {t \in A.T : t[2] = A.eps /\ t[3] = h}} \ ToSet(suffix)
  IN IF fuel = 0 \/ (h \in T /\ Len(suffix) > 1) \/ (h \in T /\ Len(suffix) = 1) THEN here
     ELSE here \cup UNION {PathsTo(A, T, <<p>> \o suffix, fuel - 1) : p \in preds}
EpsSegments(A, T, f) == {s \in PathsTo(A, T, <<f>>, Cardinality(A.Q)) : IsEpsSegment(A, T, s)}

(* the run as segments: cut the recorded run <<state, unread>> where the unread input shrinks *)
SegmentOf(run, u) == LET idx == {k \in DOMAIN run : run[k][2] = u}
                     IN [k \in 1..Cardinality(idx) |-> run[(CHOOSE m \in idx : \A x \in idx : m <= x) + k - 1][1]]
Suffix(w, i) == SubSeq(w, i + 1, Len(w))            \* unread input after i letters

(* the recorded run is a behaviour of the model *)
IsModelRun(A, w, run) ==
  LET pre == SimPre(A, w)
      n == Len(w)
  IN /\ Len(run) >= 1
     /\ \A k \in DOMAIN run : \E i \in 0..n : run[k][2] = Suffix(w, i)
     /\ \A k \in 1..(Len(run) - 1) : Len(run[k + 1][2]) \in {Len(run[k][2]), Len(run[k][2]) - 1}
     /\ \A i \in 0..n : \E k \in DOMAIN run : run[k][2] = Suffix(w, i)
     /\ \A i \in 0..n : IsEpsSegment(A, pre[i + 1], SegmentOf(run, Suffix(w, i)))
     /\ \A i \in 1..n : LET prev == SegmentOf(run, Suffix(w, i - 1))
                            cur == SegmentOf(run, Suffix(w, i))
                        IN <<prev[Len(prev)], w[i], cur[1]>> \in A.T /\ w[i] # A.eps
     /\ run[Len(run)][1] \in A.F
=============================================================================
