------------------------------ MODULE Session ------------------------------
(* The process seen through its public API: a history of calls over a heap of *)
(* mutable objects (C18, C19).  store maps object ids to NFA objects whose table *)
(* table maps a key <<state, label>> to a heap CELL (the Python set object);    *)
(* heap maps cells to sets of states.  idgen holds the two process-wide default *)
(* IdentifierGenerators hidden in default arguments (nfa_repetition and         *)
(* nfa_union each have their own instance).                                     *)
(* Mode = "pinned": the pinned revision - the new table copies the dictionary  *)
(*   but shares the cells, `|=` mutates a shared cell, the generated name is   *)
(*   used unchecked, the result is built with the default epsilon ''.          *)
(* Mode = "fixed": the repaired code - cells are copied, the name is           *)
(*   regenerated while it collides, the result carries the operand's epsilon.  *)
EXTENDS Util, FA, JFA, Json
CONSTANTS Mode, MaxCalls, EpsSym

VARIABLES store, heap, idgen, ncell, ncalls, last, hist
vars == <<store, heap, idgen, ncell, ncalls, last, hist>>

Name(k) == "q" \o ToString(k)

(* abstract value of an object: what a user can observe *)
Abs(o, hp) ==
  [Q |-> o.Q, S |-> o.S,
   T |-> UNION {{<<k[1], k[2], r>> : r \in hp[o.tbl[k]]} : k \in DOMAIN o.tbl},
   q0 |-> o.q0, F |-> o.F, eps |-> o.eps]

(* --- base objects: N1 over {q0,q1} (the generator's own naming scheme), N2 over {p0} --- *)
E1 == {<<"q0", "a", "q1">>, <<"q1", "a", "q0">>, <<"q1", EpsSym, "q0">>, <<"q0", EpsSym, "q1">>}
E2 == {<<"p0", "a", "p0">>}

RECURSIVE Alloc(_, _, _, _)
(* allocate one cell per key of the edge set T; returns [tbl, hp, nc] *)
Alloc(T, tbl, hp, nc) ==
  IF T = {} THEN [tbl |-> tbl, hp |-> hp, nc |-> nc]
  ELSE LET t == CHOOSE t \in T : TRUE
           key == <<t[1], t[2]>>
           same == {u \in T : u[1] = t[1] /\ u[2] = t[2]}
       IN Alloc(T \ same, [k \in DOMAIN tbl \cup {key} |-> IF k = key THEN nc ELSE tbl[k]],
                [c \in DOMAIN hp \cup {nc} |-> IF c = nc THEN {u[3] : u \in same} ELSE hp[c]], nc + 1)

Obj(Q, q0, F, tbl) == [Q |-> Q, S |-> {"a"}, q0 |-> q0, F |-> F, eps |-> EpsSym, tbl |-> tbl]

Init ==
  \E T1 \in SUBSET E1, F1 \in SUBSET {"q0", "q1"}, T2 \in SUBSET E2, F2 \in SUBSET {"p0"} :
    LET a1 == Alloc(T1, <<>>, <<>>, 1)
        a2 == Alloc(T2, <<>>, a1.hp, a1.nc)
    IN /\ store = <<Obj({"q0", "q1"}, "q0", F1, a1.tbl), Obj({"p0"}, "p0", F2, a2.tbl)>>
       /\ heap = a2.hp
       /\ ncell = a2.nc
       /\ idgen = [s |-> 0, u |-> 0]
       /\ ncalls = 0
       /\ last = [op |-> "init"]
       /\ hist = <<>>             \* history variable: the calls made so far (for replay into the code)

-----------------------------------------------------------------------------
(* helpers for the constructions *)
CopyTable(tbl, hp, nc) ==          \* fixed: a fresh cell per key
  LET keys == DOMAIN tbl
      RECURSIVE Cp(_, _, _, _)
      Cp(ks, t2, h2, n2) ==
        IF ks = {} THEN [tbl |-> t2, hp |-> h2, nc |-> n2]
        ELSE LET k == CHOOSE k \in ks : TRUE
             IN Cp(ks \ {k}, [x \in DOMAIN t2 \cup {k} |-> IF x = k THEN n2 ELSE t2[x]],
                   [c \in DOMAIN h2 \cup {n2} |-> IF c = n2 THEN hp[tbl[k]] ELSE h2[c]], n2 + 1)
  IN IF Mode = "fixed" THEN Cp(keys, <<>>, hp, nc) ELSE [tbl |-> tbl, hp |-> hp, nc |-> nc]

RECURSIVE AddTargets(_, _, _, _, _)
(* delta[key] |= targets for every key in keys (defaultdict: a missing key gets a new cell) *)
AddTargets(keys, targets, tbl, hp, nc) ==
  IF keys = {} THEN [tbl |-> tbl, hp |-> hp, nc |-> nc]
  ELSE LET k == CHOOSE k \in keys : TRUE
       IN IF k \in DOMAIN tbl
          THEN AddTargets(keys \ {k}, targets, tbl, [hp EXCEPT ![tbl[k]] = @ \cup targets], nc)
          ELSE AddTargets(keys \ {k}, targets, [x \in DOMAIN tbl \cup {k} |-> IF x = k THEN nc ELSE tbl[x]],
                          [c \in DOMAIN hp \cup {nc} |-> IF c = nc THEN targets ELSE hp[c]], nc + 1)

SetCell(key, targets, r) ==        \* delta[key] = targets (assignment: always a new cell)
  [tbl |-> [x \in DOMAIN r.tbl \cup {key} |-> IF x = key THEN r.nc ELSE r.tbl[x]],
   hp |-> [c \in DOMAIN r.hp \cup {r.nc} |-> IF c = r.nc THEN targets ELSE r.hp[c]], nc |-> r.nc + 1]

Merge(t1, t2) == [k \in DOMAIN t1 \cup DOMAIN t2 |-> IF k \in DOMAIN t2 THEN t2[k] ELSE t1[k]]

FreshIndex(Qs, cur) ==             \* index of the name the call ends up using
  IF Mode = "fixed" THEN CHOOSE k \in cur..(cur + Cardinality(Qs)) :
                            Name(k) \notin Qs /\ \A j \in cur..(k - 1) : Name(j) \in Qs
  ELSE cur

ResultEps(o) == IF Mode = "fixed" THEN o.eps ELSE ""
(* the constructor's validity assertion, as far as the constructions can violate it *)
Constructible(Q, eps, tbl) == \A k \in DOMAIN tbl : k[1] \in Q /\ k[2] \in {"a", eps}

Finish(op, args, Q, q0, F, eps, r, k) ==
  /\ heap' = r.hp
  /\ ncell' = r.nc
  /\ idgen' = k
  /\ ncalls' = ncalls + 1
  /\ hist' = Append(hist, [op |-> op, args |-> args])
  /\ IF Constructible(Q, eps, r.tbl)
     THEN /\ store' = Append(store, [Q |-> Q, S |-> {"a"}, q0 |-> q0, F |-> F, eps |-> eps, tbl |-> r.tbl])
          /\ last' = [op |-> op, args |-> args, exc |-> "none", pre |-> [n \in DOMAIN args |-> Abs(store[args[n]], heap)]]
     ELSE /\ store' = store
          /\ last' = [op |-> op, args |-> args, exc |-> "AssertionError", pre |-> <<>>]

Star(i) ==
  /\ ncalls < MaxCalls
  /\ LET N == store[i]
         k == FreshIndex(N.Q, idgen.s)
         nq == Name(k)
         F == N.F \cup {nq}
         c == CopyTable(N.tbl, heap, ncell)
         r1 == AddTargets({<<q, N.eps>> : q \in F}, {N.q0}, c.tbl, c.hp, c.nc)
         r2 == SetCell(<<nq, N.eps>>, {N.q0}, r1)
     IN Finish("star", <<i>>, N.Q \cup {nq}, nq, F, ResultEps(N), r2, [idgen EXCEPT !.s = k + 1])

Concat(i, j) ==
  /\ ncalls < MaxCalls /\ i # j /\ store[i].Q \cap store[j].Q = {}
  /\ LET N1 == store[i]
         N2 == store[j]
         c1 == CopyTable(N1.tbl, heap, ncell)
         c2 == CopyTable(N2.tbl, c1.hp, c1.nc)
         r1 == AddTargets({<<q, N1.eps>> : q \in N1.F}, {N2.q0}, Merge(c1.tbl, c2.tbl), c2.hp, c2.nc)
     IN Finish("concat", <<i, j>>, N1.Q \cup N2.Q, N1.q0, N2.F, ResultEps(N1), r1, idgen)

Union(i, j) ==
  /\ ncalls < MaxCalls /\ i # j /\ store[i].Q \cap store[j].Q = {}
  /\ LET N1 == store[i]
         N2 == store[j]
         k == FreshIndex(N1.Q \cup N2.Q, idgen.u)
         nq == Name(k)
         c1 == CopyTable(N1.tbl, heap, ncell)
         c2 == CopyTable(N2.tbl, c1.hp, c1.nc)
         r1 == SetCell(<<nq, N1.eps>>, {N1.q0, N2.q0},
                       [tbl |-> Merge(c1.tbl, c2.tbl), hp |-> c2.hp, nc |-> c2.nc])
     IN Finish("union", <<i, j>>, N1.Q \cup N2.Q \cup {nq}, nq, N1.F \cup N2.F, ResultEps(N1), r1, [idgen EXCEPT !.u = k + 1])

Next == \E i \in DOMAIN store : Star(i) \/ \E j \in DOMAIN store : Concat(i, j) \/ Union(i, j)
Spec == Init /\ [][Next]_vars

-----------------------------------------------------------------------------
(* (G) behaviours for replay into the real code: one JSON line per visited state *)
AbsJson(o) == LET A == Abs(o, heap)
              IN [Q |-> A.Q, S |-> A.S, T |-> A.T, q0 |-> A.q0, F |-> A.F, eps |-> A.eps]
EmitTrace == PrintT(<<"TRACE", ToJson([hist |-> hist,
                                       exc |-> IF last.op = "init" THEN "none" ELSE last.exc,
                                       objs |-> [i \in DOMAIN store |-> AbsJson(store[i])]])>>)

(* C19: a call leaves the observable content of every existing object unchanged *)
OperandsUnchanged ==
  [][\A x \in DOMAIN store : Abs(store'[x], heap') = Abs(store[x], heap)]_vars

(* C18 *)
NoException == last.op # "init" => last.exc = "none"
Res == Abs(store[Len(store)], heap)
Arg(n) == last.pre[n]          \* the operand as it was when the call was made
ResultValid == (last.op # "init" /\ last.exc = "none") => ValidNFA(Res)
ResultLanguage ==
  (last.op # "init" /\ last.exc = "none" /\ ValidNFA(Res)) =>
     CASE last.op = "star" -> FaEquiv(Res, StarRef(Arg(1)))
       [] last.op = "concat" -> FaEquiv(Res, ConcatRef(Arg(1), Arg(2)))
       [] last.op = "union" -> FaEquiv(Res, UnionRef(Arg(1), Arg(2)))
NewStateFresh ==
  (last.op \in {"star", "union"} /\ last.exc = "none") =>
     LET ops == UNION {store[last.args[n]].Q : n \in DOMAIN last.args}
     IN Cardinality(store[Len(store)].Q) = Cardinality(ops) + 1
=============================================================================
