-------------------------------- MODULE CFG --------------------------------
(* Reference semantics of context-free grammars.                              *)
(* G = [V, S, R, start]; R a sequence of <<A, rhs>>, rhs a sequence of         *)
(* <<"v", X>> (variable) / <<"t", a>> (terminal).                              *)
EXTENDS Util

CfgOf(j) == [V |-> ToSet(j.V), S |-> ToSet(j.S), R |-> j.R, start |-> j.start]
Rules(G) == ToSet(G.R)
IsVar(s) == s[1] = "v"

ValidCFG(G) ==
  /\ G.start \in G.V
  /\ \A r \in Rules(G) : /\ r[1] \in G.V
                         /\ \A k \in DOMAIN r[2] : IF IsVar(r[2][k]) THEN r[2][k][2] \in G.V
                                                   ELSE r[2][k][2] \in G.S

(* Derivability as a least fix-point over items <<X, i, j>>: X =>* w[i+1..j].  *)
(* A fix-point, not a recursion: epsilon rules, unit rules, cycles and useless  *)
(* rules need no special treatment.                                            *)
RECURSIVE SeqDerives(_, _, _, _, _)
SeqDerives(w, alpha, i, j, Items) ==
  IF alpha = <<>> THEN i = j
  ELSE LET s == Head(alpha)
       IN IF IsVar(s)
          THEN \E k \in i..j : <<s[2], i, k>> \in Items /\ SeqDerives(w, Tail(alpha), k, j, Items)
          ELSE i < j /\ w[i + 1] = s[2] /\ SeqDerives(w, Tail(alpha), i + 1, j, Items)

RECURSIVE DeriveFix(_, _, _)
DeriveFix(G, w, Items) ==
  LET n == Len(w)
      new == {<<r[1], i, j>> : r \in Rules(G), i \in 0..n, j \in 0..n}
      add == {it \in new : it[2] <= it[3] /\ it \notin Items /\
                \E r \in Rules(G) : r[1] = it[1] /\ SeqDerives(w, r[2], it[2], it[3], Items)}
  IN IF add = {} THEN Items ELSE DeriveFix(G, w, Items \cup add)

Items(G, w) == DeriveFix(G, w, {})
CfgAccepts(G, w) == <<G.start, 0, Len(w)>> \in Items(G, w)
(* variables deriving w[i..j] (1-based, inclusive) *)
CellSem(G, w, i, j) == {A \in G.V : <<A, i - 1, j>> \in Items(G, w)}
(* Rules mentioning an unproductive variable can never take part in a derivation *)
(* of a terminal word, and rules of variables unreachable from the start cannot  *)
(* matter either.  Dropping them first (a fix-point on variables, not on words)  *)
(* keeps the language and makes grammars with many useless variables - the       *)
(* triple construction for PDAs - cheap.  Checked against CfgAccepts in Lemmas.  *)
RECURSIVE ProdFix(_, _)
ProdFix(G, Pr) ==
  LET new == {r[1] : r \in {r \in Rules(G) : \A k \in DOMAIN r[2] : ~IsVar(r[2][k]) \/ r[2][k][2] \in Pr}} \ Pr
  IN IF new = {} THEN Pr ELSE ProdFix(G, Pr \cup new)
Pruned(G) ==
  LET Pr == ProdFix(G, {})
      good == {r \in Rules(G) : r[1] \in Pr /\ \A k \in DOMAIN r[2] : ~IsVar(r[2][k]) \/ r[2][k][2] \in Pr}
      edges == UNION {{<<r[1], r[2][k][2]>> : k \in {k \in DOMAIN r[2] : IsVar(r[2][k])}} : r \in good}
      reach == ReachSet(edges, {G.start})
  IN [G EXCEPT !.R = SetToSeq({r \in good : r[1] \in reach})]
CfgLangUpTo(G, S, n) == LET H == Pruned(G) IN {w \in WordsUpTo(S, n) : CfgAccepts(H, w)}
CfgLangUpToDef(G, S, n) == {w \in WordsUpTo(S, n) : CfgAccepts(G, w)}

(* the library's notion of Chomsky normal form (CFG.is_chomsky) *)
RuleIsCNF(G, r) ==
  LET a == r[2]
  IN /\ \/ Len(a) = 0
        \/ (Len(a) = 1 /\ ~IsVar(a[1]))
        \/ (Len(a) = 2 /\ IsVar(a[1]) /\ IsVar(a[2]))
     /\ \A k \in DOMAIN a : ~(IsVar(a[k]) /\ a[k][2] = G.start)
     /\ (Len(a) = 0 => r[1] = G.start)
IsCNF(G) == \A r \in Rules(G) : RuleIsCNF(G, r)

IsEpsRule(r) == Len(r[2]) = 0
IsUnitRule(r) == Len(r[2]) = 1 /\ IsVar(r[2][1])

(* one derivation step x => y; mode "leftmost" / "rightmost" / "any" *)
VarPositions(x) == {p \in DOMAIN x : IsVar(x[p])}
StepAt(G, x, y, p) ==
  \E r \in Rules(G) : r[1] = x[p][2] /\ y = SubSeq(x, 1, p - 1) \o r[2] \o SubSeq(x, p + 1, Len(x))
DerivStep(G, x, y, mode) ==
  LET ps == VarPositions(x)
  IN ps # {} /\
     CASE mode = "leftmost" -> StepAt(G, x, y, CHOOSE p \in ps : \A q \in ps : p <= q)
       [] mode = "rightmost" -> StepAt(G, x, y, CHOOSE p \in ps : \A q \in ps : p >= q)
       [] OTHER -> \E p \in ps : StepAt(G, x, y, p)
ValidDerivation(G, w, seq, mode) ==
  /\ Len(seq) >= 1
  /\ seq[1] = <<<<"v", G.start>>>>
  /\ \A k \in 1..(Len(seq) - 1) : DerivStep(G, seq[k], seq[k + 1], mode)
  /\ seq[Len(seq)] = [k \in 1..Len(w) |-> <<"t", w[k]>>]
=============================================================================
