---------------------------- MODULE EpsClosure ----------------------------
(* Model of nfa_algorithms.epsilon_closure: a worklist over a Python set.    *)
(* `todo.pop()` yields an arbitrary element (hash order): \E q \in todo.     *)
(* Init ranges over every epsilon-graph on Q and every start set.            *)
EXTENDS Util, Steps
CONSTANT Q
VARIABLES E, X0, result, todo
vars == <<E, X0, result, todo>>

Init == /\ E \in SUBSET (Q \X Q)
        /\ X0 \in SUBSET Q
        /\ result = X0
        /\ todo = X0

Pop(q) ==
  /\ q \in todo
  /\ result' = EcResult(E, result, q)
  /\ todo' = EcTodo(E, result, todo, q)
  /\ UNCHANGED <<E, X0>>

Next == \E q \in todo : Pop(q)
Spec == Init /\ [][Next]_vars /\ WF_vars(Next)

Closure == ReachSet(E, X0)           \* the definition: eps-reachability

LoopInv ==
  /\ todo \subseteq result
  /\ result \subseteq Closure
  /\ X0 \subseteq result
  /\ \A e \in E : e[1] \in (result \ todo) => e[2] \in result

DoneExact == todo = {} => result = Closure

Measure == Cardinality(Q \ result) * (Cardinality(Q) + 1) + Cardinality(todo)
Decreases == [][Measure' < Measure]_vars
Terminates == <>(todo = {})
=============================================================================
