-------------------------------- MODULE JWIT --------------------------------
(* Judge clauses for C15: a returned simulation run / derivation is a trace and  *)
(* is validated step by step against the automaton's own step relation.          *)
EXTENDS Util, FA, PDA, NfaSimSteps, PdaSimSteps

BadW(name, cond) == IF cond THEN {name} ELSE {}

(* run: sequence of <<state, unread>> *)
FaStepOk(A, c, d) ==
  \/ (d[2] = c[2] /\ <<c[1], A.eps, d[1]>> \in A.T)
  \/ (c[2] # <<>> /\ d[2] = Tail(c[2]) /\ Head(c[2]) # A.eps /\ <<c[1], Head(c[2]), d[1]>> \in A.T)
ValidFaRun(A, w, run) ==
  /\ Len(run) >= 1
  /\ run[1] = <<A.q0, w>>
  /\ \A k \in 1..(Len(run) - 1) : FaStepOk(A, run[k], run[k + 1])
  /\ run[Len(run)][1] \in A.F /\ run[Len(run)][2] = <<>>
(* every step of a DFA run consumes one symbol *)
DfaStepsOk(A, w, run) ==
  /\ Len(run) = Len(w) + 1
  /\ run[1] = <<A.q0, w>>
  /\ \A k \in 1..(Len(run) - 1) :
        run[k][2] # <<>> /\ run[k + 1][2] = Tail(run[k][2]) /\ <<run[k][1], Head(run[k][2]), run[k + 1][1]>> \in A.T

JSimFa(e) ==
  LET A == FaOf(e.fa)
      acc == AcceptsBySubsets(A, e.w)
  IN IF e.exc = "Timeout" THEN {"terminates"}
     ELSE IF e.exc # "none" THEN (IF acc \/ e.kind = "dfa" THEN {"raised_" \o e.exc} ELSE {})
     ELSE IF e.kind = "dfa"
          THEN BadW("run_valid", ~DfaStepsOk(A, e.w, e.run))
               \cup BadW("ends_accepting", acc /\ DfaStepsOk(A, e.w, e.run) /\ e.run[Len(e.run)][1] \notin A.F)
          ELSE BadW("none_iff_rejected", e.isnone # ~acc)
               \cup (IF ~e.isnone /\ acc THEN BadW("run_valid", ~ValidFaRun(A, e.w, e.run)) ELSE {})
               \* binding (not a property clause): the run is a behaviour of NfaSim.tla - its segments are branches of
               \* search trees rooted in the pre-closure sets T_i, linked by letter moves
               \cup (IF ~e.isnone /\ acc /\ ValidFaRun(A, e.w, e.run)
                     THEN BadW("binding_run_is_model_behaviour", ~IsModelRun(A, e.w, e.run)) ELSE {})

(* PDA run: sequence of <<state, unread, stack>>, stack top = last element *)
PdaStepOk(P, c, d) ==
  \E t \in P.T :
     /\ t[1] = c[1] /\ t[4] = d[1]
     /\ IF t[2] = P.eps THEN d[2] = c[2] ELSE (c[2] # <<>> /\ Head(c[2]) = t[2] /\ d[2] = Tail(c[2]))
     /\ LET base == IF t[3] = P.eps THEN c[3] ELSE SubSeq(c[3], 1, Len(c[3]) - 1)
        IN /\ (t[3] = P.eps \/ (Len(c[3]) > 0 /\ c[3][Len(c[3])] = t[3]))
           /\ d[3] = (IF t[5] = P.eps THEN base ELSE Append(base, t[5]))
ValidPdaRun(P, w, run) ==
  /\ Len(run) >= 1
  /\ run[1] = <<P.q0, w, <<>>>>
  /\ \A k \in 1..(Len(run) - 1) : PdaStepOk(P, run[k], run[k + 1])
  /\ run[Len(run)][1] \in P.F /\ run[Len(run)][2] = <<>>

JSimPda(e) ==
  LET P == PdaOf(e.pda)
      acc == PdaAccepts(P, e.w)
      below == ExactRun(P, e.w, e.limit).below
  IN IF e.exc = "Timeout" THEN {"terminates"}
     ELSE IF e.exc # "none" THEN (IF acc /\ below THEN {"raised_" \o e.exc} ELSE {})
     ELSE (IF below THEN BadW("none_iff_rejected", e.isnone # ~acc) ELSE BadW("none_iff_rejected", ~e.isnone /\ ~acc))
          \cup (IF ~e.isnone THEN BadW("run_valid", ~ValidPdaRun(P, e.w, e.run)) ELSE {})
          \* binding (not a property clause): below the limit the run is a behaviour of PdaSim.tla
          \cup (IF ~e.isnone /\ below /\ ValidPdaRun(P, e.w, e.run)
                THEN BadW("binding_run_is_model_behaviour", ~IsModelRunP(P, e.w, e.run, e.limit)) ELSE {})
=============================================================================
