#!/bin/sh
# Re-run the quick check of its property against every stored behaviour-preserving change (benign/<id>/patch.diff)
# on the current tree, in a scratch worktree: every line must say rc=0.   usage: tools_benign_recheck.sh [ids...]
BASE=$(cd "$(dirname "$0")" && pwd)
WT=/tmp/wt/benignre_$$
git -C /repo worktree add --detach $WT HEAD >/dev/null 2>&1 || exit 2
ids="$*"; [ -z "$ids" ] && ids=$(ls $BASE/benign | grep '^C')
for id in $ids; do
  p=$(echo $id | cut -c1-3)
  git -C $WT checkout -- . ; git -C $WT clean -fdq
  if ! git -C $WT apply $BASE/benign/$id/patch.diff 2>/dev/null; then echo "$id does-not-apply"; continue; fi
  out=$(cd $BASE && VERIF_REPO=$WT VERIF_OUT=/tmp/benignre_out_$$ VERIF_EVIDENCE_DIR=/tmp/benignre_ev_$$ ./check $p quick 2>&1); rc=$?
  echo "$id rc=$rc $(echo "$out" | grep 'violation class' | head -3 | tr '\n' ';')"
done
git -C /repo worktree remove --force $WT; rm -rf /tmp/benignre_out_$$ /tmp/benignre_ev_$$
