#!/usr/bin/env python3
"""Confirm seeded changes and run the checks against them, in a scratch worktree (never in /repo).
usage: tools_seeded.py <dir with Cxx/{A,B}.diff,_demo.py,_meta.json> [ids...]
Writes /verif/seeded/<Cxx-X>/{patch.diff,demo.py,meta.json}."""
import json, os, subprocess, sys, shutil

SRC = sys.argv[1]
TAG = os.environ.get("SEED_TAG", "")
WT = "/tmp/wt/seedcheck" + TAG
ENV = dict(os.environ, VERIF_REPO=WT, VERIF_OUT="/tmp/seed_out" + TAG, VERIF_EVIDENCE_DIR="/tmp/seed_evidence" + TAG)
PY = "/venv/bin/python"


def sh(cmd, **kw):
    return subprocess.run(cmd, shell=True, stdout=subprocess.PIPE, stderr=subprocess.STDOUT, text=True, **kw)


def main():
    if not os.path.exists(WT):
        print(sh("git -C /repo worktree add --detach %s HEAD" % WT).stdout)
    sh("git -C %s checkout -q --detach $(git -C /repo rev-parse HEAD) && git -C %s checkout -- ." % (WT, WT))
    ids = sys.argv[2:]
    props = os.environ.get("SEED_PROPS", "").split(",") if os.environ.get("SEED_PROPS") else None
    for prop in sorted(os.listdir(SRC)):
        if props and prop not in props:
            continue
        for X in ("A", "B"):
            sid = "%s-%s%s" % (prop, os.environ.get("SEED_ROUND", ""), X)
            if ids and sid not in ids:
                continue
            diff = os.path.join(SRC, prop, X + ".diff")
            ported = os.path.join("/verif/seeded", sid, "patch.diff")
            if not os.path.exists(diff) or not os.path.exists(os.path.join(SRC, prop, X + "_meta.json")) \
                    or not os.path.exists(os.path.join(SRC, prop, X + "_demo.py")):
                continue
            use = ported if os.path.exists(ported) and os.path.getsize(ported) > 0 else diff
            demo = os.path.join(SRC, prop, X + "_demo.py")
            meta = json.load(open(os.path.join(SRC, prop, X + "_meta.json")))
            res = {"id": sid, "property": prop, "summary": meta.get("summary"), "needs": meta.get("needs"),
                   "file": meta.get("file"), "function": meta.get("function"),
                   "patch_source": "ported onto the repaired tree" if use == ported else "as written by the sub-agent"}
            sh("git -C %s checkout -- ." % WT)
            r = sh("git -C %s apply --check %s" % (WT, use))
            if r.returncode != 0:
                res["status"] = "does not apply to the current tree (overlaps a fix: commit)"
                print(sid, res["status"])
                out(sid, use, demo, res)
                continue
            d0 = sh("PYTHONPATH=%s/src timeout 600 %s %s" % (WT, PY, demo))
            sh("git -C %s apply %s" % (WT, use))
            t = sh("cd %s && PYTHONPATH=%s/src %s -m pytest -q -p no:cacheprovider --timeout=900 tests 2>&1 | tail -1" % (WT, WT, PY))
            d1 = sh("PYTHONPATH=%s/src timeout 600 %s %s" % (WT, PY, demo))
            c = sh("cd /verif && ./check %s quick" % prop, env=ENV)
            sh("git -C %s checkout -- ." % WT)
            classes = [l.strip() for l in c.stdout.split("\n") if l.strip().startswith("violation class")]
            if c.returncode == 2:
                print(sid, "MACHINERY (exit 2):", c.stdout[-600:])
            res.update({"tests_with_change": t.stdout.strip(), "demo_rc_clean": d0.returncode,
                        "demo_rc_with_change": d1.returncode, "check_cmd": "./check %s quick" % prop,
                        "check_rc_with_change": c.returncode, "violation_classes": classes,
                        "status": ("caught" if c.returncode == 1 else "MACHINERY-ERROR" if c.returncode == 2 else "MISSED") if d1.returncode != 0 and d0.returncode == 0
                        else "not a valid seeded change on the current tree (demo does not separate: clean rc=%d, changed rc=%d)" % (d0.returncode, d1.returncode)})
            print(sid, res["status"], classes[:2])
            out(sid, use, demo, res)


def out(sid, diff, demo, res):
    d = os.path.join("/verif/seeded", sid)
    os.makedirs(d, exist_ok=True)
    if os.path.abspath(diff) != os.path.abspath(os.path.join(d, "patch.diff")):
        shutil.copy(diff, os.path.join(d, "patch.diff"))
    shutil.copy(demo, os.path.join(d, "demo.py"))
    with open(os.path.join(d, "meta.json"), "w") as f:
        json.dump(res, f, indent=1)


main()
