#!/bin/sh
# seed sweep of the quick tier (run from a snapshot: vp run --with-repo -- sh tools_sweep.sh "2 3 5")
[ -n "$VP_RUN_REPO" ] && export VERIF_REPO="$VP_RUN_REPO"
for s in ${1:-2 3}; do
  for p in C01 C02 C03 C04 C05 C06 C07 C08 C09 C10 C11 C12 C13 C14 C15 C16 C17 C18 C19 C20; do
    VERIF_SEED=$s ./check $p quick 2>&1 | grep -v "^KNOWN" | tail -3 | sed "s/^/seed=$s /"
  done
done
