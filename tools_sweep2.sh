#!/bin/sh
# seed sweep of selected properties: tools_sweep2.sh "<seeds>" "<props>"
[ -n "$VP_RUN_REPO" ] && export VERIF_REPO="$VP_RUN_REPO"
export VERIF_OUT=/tmp/sweep2_out_$$ VERIF_EVIDENCE_DIR=/tmp/sweep2_ev_$$
for s in ${1:-2 3}; do
  for p in ${2:-C06 C09 C11 C13 C16 C17 C19}; do
    VERIF_SEED=$s ./check $p quick 2>&1 | grep -v "^KNOWN" | tail -2 | sed "s/^/seed=$s /"
  done
done
rm -rf $VERIF_OUT $VERIF_EVIDENCE_DIR
