#!/usr/bin/env python3
"""Writes seeded/SUMMARY.md from seeded/*/meta.json."""
import json, os
rows = []
for d in sorted(os.listdir("/verif/seeded")):
    p = os.path.join("/verif/seeded", d, "meta.json")
    if os.path.exists(p):
        rows.append(json.load(open(p)))
with open("/verif/seeded/SUMMARY.md", "w") as f:
    f.write("# Seeded changes (written by independent sub-agents from the property text only)\n\n")
    f.write("Confirmed with tools_seeded.py in a scratch worktree of /repo HEAD: the 50 tests pass with the change, the\n"
            "demonstration exits non-zero with it and 0 without it, then `./check <id> quick` is run against it.\n\n")
    f.write("| id | where | what | status | clauses that fire |\n|---|---|---|---|---|\n")
    for r in rows:
        cl = "; ".join(c.replace("violation class ", "") for c in r.get("violation_classes", [])[:3])
        f.write("| %s | %s `%s` | %s | %s | %s |\n" % (r["id"], r.get("file", ""), r.get("function", ""),
                (r.get("summary") or "").replace("|", "/").replace("\n", " ")[:260], r.get("status", ""), cl))
    n = len(rows)
    caught = sum(1 for r in rows if r.get("status") == "caught")
    f.write("\n%d changes; %d caught by the quick check; others: see status column.\n" % (n, caught))
print("ok", len(rows))
