#!/bin/sh
# usage: tools_try.sh <patch.diff> <Cxx> [tier]  - run one check against a patched scratch worktree of /repo HEAD
WT=/tmp/wt/try_$$
git -C /repo worktree add --detach $WT HEAD >/dev/null 2>&1 || exit 2
git -C $WT apply "$1" || { git -C /repo worktree remove --force $WT; exit 2; }
cd /verif && VERIF_REPO=$WT VERIF_OUT=/tmp/try_out_$$ VERIF_EVIDENCE_DIR=/tmp/try_ev_$$ ./check "$2" "${3:-quick}" 2>&1 | grep -v "^VIOLATION" | tail -12
rc=$?
git -C /repo worktree remove --force $WT; rm -rf /tmp/try_out_$$ /tmp/try_ev_$$
