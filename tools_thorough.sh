#!/bin/sh
# run the thorough tier of every check once (vp run --with-repo -- sh tools_thorough.sh)
[ -n "$VP_RUN_REPO" ] && export VERIF_REPO="$VP_RUN_REPO"
for p in ${1:-C01 C02 C03 C04 C05 C06 C07 C08 C09 C10 C11 C12 C13 C14 C15 C16 C17 C18 C19 C20}; do
  /usr/bin/time -f "$p wall %es" ./check $p thorough 2>&1 | grep -v "^KNOWN" | tail -4
done
