#!/bin/sh
# Offline setup: parse every specification module with SANY; run the binding self-test.
cd "$(dirname "$0")" || exit 2
mkdir -p out evidence
fail=0
for f in spec/*.tla; do
  if ! (cd spec && tla-sany "$(basename "$f")" >/dev/null 2>&1); then echo "SANY failed: $f"; fail=1; fi
done
[ $fail -eq 0 ] || exit 1
if [ -f harness/selftest.py ]; then /venv/bin/python -m harness.selftest || exit 1; fi
echo setup ok
