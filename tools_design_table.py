#!/usr/bin/env python3
"""Rewrites the quick-tier table of DESIGN.md section 5 from the evidence files (run after a clean pass of all quick checks)."""
import json, re

rows = []
for i in range(1, 21):
    pid = "C%02d" % i
    e = json.load(open("/verif/evidence/%s.json" % pid))
    c = e["coverage"]
    assert e["tier"] == "quick" and not e.get("violations"), (pid, e["tier"], e.get("violations"))
    ms = ", ".join("%s %s" % (m["module"] + ("/" + m["cfg"].replace(".cfg", "").split("_", 1)[1] if "_" in m["cfg"] else ""),
                              ("%.1f k" % (m["distinct_states"] / 1000.0)) if m["distinct_states"] >= 1000 else str(m["distinct_states"]))
                   for m in c.get("models", [])) or "—"
    ops = ", ".join("%s %s" % (k, v) for k, v in sorted(c.get("events_per_op", {}).items(), key=lambda kv: -kv[1]))
    extra = []
    for k in ("model_schedules_forced_onto_impl", "model_behaviours_replayed_into_impl"):
        if c.get(k):
            extra.append("%s: %s" % ("forced schedules" if "sched" in k else "replayed behaviours",
                                     ", ".join("%s %s" % (a.replace(".cfg", ""), b) for a, b in c[k].items())))
    if c.get("tlaps"):
        extra.append("TLAPS %d obligations" % c["tlaps"]["obligations_proved"])
    rows.append("| %s | %s | %d (%s)%s | %d s |" % (pid, ms, c["evaluations"], ops, ("; " + "; ".join(extra)) if extra else "", round(e["wall_s"])))

table = ["| id | models (M), distinct states | recorded events judged (J/T/G) | wall |", "|---|---|---|---|"] + rows
s = open("/verif/DESIGN.md").read()
a = s.index("| id | models (M), distinct states | recorded events judged (J/T/G) | wall |")
b = s.index("\n\n", a)
s = s[:a] + "\n".join(table) + s[b:]
open("/verif/DESIGN.md", "w").write(s)
print("table rewritten:", len(rows), "rows")
