#!/usr/bin/env python3
"""Re-run the quick check of its property against every stored seeded change (seeded/<id>/patch.diff) on the
current tree, in a scratch worktree; writes seeded/RECHECK.md.  (Confirms that later relaxations / generator
changes did not lose a catch.)  usage: tools_recheck.py [ids...]"""
import json, os, subprocess, sys, time

BASE = os.path.dirname(os.path.abspath(__file__))
WT = "/tmp/wt/recheck"
ENV = dict(os.environ, VERIF_REPO=WT, VERIF_OUT="/tmp/recheck_out", VERIF_EVIDENCE_DIR="/tmp/recheck_evidence")


def sh(cmd, **kw):
    return subprocess.run(cmd, shell=True, stdout=subprocess.PIPE, stderr=subprocess.STDOUT, text=True, **kw)


def main():
    if not os.path.exists(WT):
        sh("git -C /repo worktree add --detach %s HEAD" % WT)
    sh("git -C %s checkout -q --detach $(git -C /repo rev-parse HEAD) && git -C %s checkout -- ." % (WT, WT))
    ids = sys.argv[1:] or sorted(d for d in os.listdir(BASE + "/seeded") if os.path.isdir(os.path.join(BASE, "seeded", d)))
    rows = []
    for sid in ids:
        d = os.path.join(BASE, "seeded", sid)
        meta = json.load(open(os.path.join(d, "meta.json")))
        prop = meta["property"]
        sh("git -C %s checkout -- ." % WT)
        if sh("git -C %s apply --check %s/patch.diff" % (WT, d)).returncode != 0:
            rows.append((sid, meta.get("status", "?"), "does not apply to the current tree (overlaps a later fix)"))
            print(rows[-1], flush=True)
            continue
        sh("git -C %s apply %s/patch.diff" % (WT, d))
        t0 = time.time()
        c = sh("cd %s && ./check %s quick" % (BASE, prop), env=ENV)
        sh("git -C %s checkout -- ." % WT)
        classes = [l.strip() for l in c.stdout.split("\n") if l.strip().startswith("violation class")]
        st = "caught" if c.returncode == 1 else "quiet" if c.returncode == 0 else "MACHINERY-ERROR"
        rows.append((sid, meta.get("status", "?"), "%s (%d classes, %.0f s)" % (st, len(classes), time.time() - t0)))
        print(rows[-1], flush=True)
    with open(BASE + "/seeded/RECHECK.md", "w") as f:
        f.write("# Seeded changes re-run against the final checks\n\n| change | status when recorded | quick check now |\n|---|---|---|\n")
        for r in rows:
            f.write("| %s | %s | %s |\n" % r)


main()
